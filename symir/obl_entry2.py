"""Second batch of entry-point obligations (C_WrapKey, key generation, C_DeriveKey wrapper, PIN wrappers, wrap/unwrap kernels)."""
from run import Ob


def register(reg):
    O = reg.OBLIGATIONS
    ENTRY = reg.ENTRY_REAL_NOP11
    # ------------------------------------------------------------------ C_WrapKey
    stubs = dict(reg.GETKEY_STUBS)
    stubs.update({'_ZN7SoftHSM10WrapKeySymEP13_CK_MECHANISMP5TokenP8OSObjectR10ByteStringS7_': 'sink_wrapsym',
                  '_ZN7SoftHSM11WrapKeyAsymEP13_CK_MECHANISMP5TokenP8OSObjectR10ByteStringS7_': 'sink_wrapasym',
                  '_ZN5Token7decryptERK10ByteStringRS0_': 'tag_token_decrypt', '_ZN5Token7encryptERK10ByteStringRS0_': 'tag_token_encrypt'})
    wrap = Ob('wrap_key', 'C02/wrap_entry.cpp', ENTRY, defines={'BS_CAP': 8, 'MODEL_OUT_MAX': 4}, unwind=10, stubs=stubs, caps='common/entry_caps.h',
              unwind_rules=[(r'^harness\.', 12), (r'ir_memcpy', 120)],
              desc='C_WrapKey: key material is read only if the key is extractable, a WRAP_WITH_TRUSTED key gets a trusted wrapping key, private keys (either role) need the logged-in user, the wrapping key has CKA_WRAP, the fitting class/type, an allowed + advertised mechanism; a secret key is wrapped as exactly its (decrypted) CKA_VALUE; length query / BUFFER_TOO_SMALL / failure write no byte, success writes exactly the blob',
              bounds='mechanism all 2^64 values, parameter <= 48 bytes, key values <= 3 bytes, blob <= 4 bytes in a buffer of 8; the primitives (WrapKeySym/Asym) and private-key export are cuts with symbolic results; CKA_WRAP_TEMPLATE absent', timeout=600, mem=20)
    for p in ('C02', 'C01', 'C07', 'C12', 'C13'): O[p].append(wrap)
    O['C17'].append(reg._c17t(wrap))

    # ------------------------------------------------------------------ symmetric key generation
    gen_stubs = {'_ZN7SoftHSM12CreateObjectEmP13_CK_ATTRIBUTEmPmi': 'sink_create', '_ZN5Token7decryptERK10ByteStringRS0_': 'tag_token_decrypt', '_ZN5Token7encryptERK10ByteStringRS0_': 'det_token_encrypt'}
    wrapper_stubs = dict(gen_stubs)
    wrapper_stubs.update({'_ZN7SoftHSM11generateAESEmP13_CK_ATTRIBUTEmPmhh': 'sink_genAES', '_ZN7SoftHSM15generateGenericEmP13_CK_ATTRIBUTEmPmhh': 'sink_genGeneric',
                          '_ZN7SoftHSM11generateDESEmP13_CK_ATTRIBUTEmPmhh': 'sink_genDES', '_ZN7SoftHSM12generateDES2EmP13_CK_ATTRIBUTEmPmhh': 'sink_genDES2', '_ZN7SoftHSM12generateDES3EmP13_CK_ATTRIBUTEmPmhh': 'sink_genDES3',
                          '_ZN7SoftHSM21generateDSAParametersEmP13_CK_ATTRIBUTEmPmhh': 'sink_genDSAParams', '_ZN7SoftHSM20generateDHParametersEmP13_CK_ATTRIBUTEmPmhh': 'sink_genDHParams'})
    REAL = ENTRY + ['crypto/AESKey.cpp', 'crypto/DESKey.cpp']
    genwrap = Ob('genkey_wrapper', 'C09/gen_entry.cpp', REAL, defines={'GEN': 0, 'BS_CAP': 8, 'MODEL_OUT_MAX': 4}, unwind=10, stubs=wrapper_stubs, caps='common/entry_caps.h', unwind_rules=[(r'^harness\.', 12), (r'ir_memcpy', 40)],
                 desc='C_GenerateKey: only advertised mechanisms, the right generator for the mechanism, template class / key type must fit it, private keys only for the logged-in user, token keys only through RW sessions (PKCS#11 defaults: session object, private)',
                 bounds='mechanism all 2^64 values; template of 3..5 entries (VALUE_LEN, SENSITIVE, EXTRACTABLE, TOKEN|PRIVATE, CLASS|KEY_TYPE) with symbolic values; the generators are cuts', timeout=600, mem=16)
    def gen(n, name, klen, tiers):
        return Ob('gen_' + name, 'C09/gen_entry.cpp', REAL, defines={'GEN': n, 'KEYLEN': klen, 'BS_CAP': klen + 4, 'MODEL_OUT_MAX': 4}, unwind=klen + 6, stubs=gen_stubs, caps='common/entry_caps.h', unwind_rules=[(r'^harness\.', klen + 10), (r'ir_memcpy', 60)], tiers=tiers,
                  desc='generate%s (real): a generated key is LOCAL, carries its KEY_GEN_MECHANISM, ALWAYS_SENSITIVE == SENSITIVE, NEVER_EXTRACTABLE == !EXTRACTABLE, its value is exactly the random bytes (stored encrypted when private), everything in one committed transaction; any failing step leaves no object and no handle' % name,
                  bounds='key of %d bytes (symbolic), template of 0..3 entries (VALUE_LEN, SENSITIVE, EXTRACTABLE; values symbolic); CreateObject is a cut that may fail; storing an attribute may fail' % klen, timeout=900, mem=20)
    gens = [gen(1, 'AES', 16, ('quick', 'thorough')), gen(2, 'Generic', 3, ('quick', 'thorough')), gen(3, 'DES', 7, ()), gen(4, 'DES2', 14, ()), gen(5, 'DES3', 21, ())]   # DES: the success path needs OSSLDES::generateKey (parity, 8 bytes per 56 bits), which the model factory does not provide: no tier
    for p in ('C01', 'C07'): O[p].append(genwrap)
    for p in ('C08', 'C09', 'C06'): O[p] += gens
    O['C17'] += [reg._c17t(genwrap)] + [reg._c17t(g) for g in gens[:2]]

    # ------------------------------------------------------------------ WrapKeySym / UnwrapKeySym kernels (C13)
    ws_stubs = {'_ZN5Token7decryptERK10ByteStringRS0_': 'tag_token_decrypt', '_ZN5Token7encryptERK10ByteStringRS0_': 'tag_token_encrypt'}
    def ws(mech, klen, tiers):
        return Ob('wrapsym_%s_k%d' % (mech[4:].lower(), klen), 'C13/wrapsym_unit.cpp', ENTRY, defines={'MECH': mech, 'KLEN': klen, 'BS_CAP': 36, 'MODEL_OUT_MAX': 4, 'MODEL_SYM_IDENTITY': 1}, unwind=40, stubs=ws_stubs, caps='common/entry_caps.h', tiers=tiers,
                  desc='WrapKeySym + UnwrapKeySym (real) with %s on a %d-byte key over the functional cipher model: the primitive is driven in CBC without its own padding under exactly the caller\'s IV and the wrapping key\'s (decrypted) value and fed exactly PKCS#7(key) resp. the RFC 3394 zero-padded / RFC 5649 unpadded key bytes; unwrapping the blob with the same parameters returns the key (zero-padded for AES_KEY_WRAP)' % (mech, klen),
                  bounds='key of %d bytes and IV symbolic; wrapping key value <= 3 bytes, private or public; primitive = identity / tagged-copy model that may fail' % klen, timeout=600, mem=16)
    wss = [ws('CKM_AES_CBC_PAD', 5, ('quick', 'thorough')), ws('CKM_AES_CBC_PAD', 16, ('quick', 'thorough')), ws('CKM_DES3_CBC_PAD', 8, ('quick', 'thorough')), ws('CKM_DES3_CBC_PAD', 3, ('thorough',)),
           ws('CKM_AES_KEY_WRAP', 16, ('quick', 'thorough')), ws('CKM_AES_KEY_WRAP', 21, ('quick', 'thorough')), ws('CKM_AES_KEY_WRAP_PAD', 5, ('quick', 'thorough')), ws('CKM_AES_CBC_PAD', 31, ('thorough',))]
    O['C13'] += wss

    # ------------------------------------------------------------------ C_InitPIN / C_SetPIN / C_DigestInit wrappers
    pin_stubs = {'_ZN5Token11initUserPINER10ByteString': 'sink_initUserPIN', '_ZN5Token10setUserPINER10ByteStringS1_': 'sink_setUserPIN', '_ZN5Token8setSOPINER10ByteStringS1_': 'sink_setSOPIN'}
    def pinw(op, name, d):
        return Ob(name, 'C04/pin_entry.cpp', ENTRY, defines={'OP': op, 'BS_CAP': 16}, unwind=18, stubs=pin_stubs if op < 2 else {}, caps='common/entry_caps.h', desc=d,
                  bounds='PINs <= 16 bytes (and every length above MAX_PIN_LEN), NULL pointers, one session in an arbitrary state', timeout=300)
    initpin = pinw(0, 'cinitpin', 'C_InitPIN wrapper: only through the RW session of the logged-in SO, PIN length within [MIN_PIN_LEN, MAX_PIN_LEN], the caller\'s bytes reach Token::initUserPIN unmodified, no other PIN function is called')
    setpin = pinw(1, 'csetpin', 'C_SetPIN wrapper: RW public / RW user session -> Token::setUserPIN, RW SO session -> Token::setSOPIN, RO session refused; old and new PIN passed unmodified; new PIN length within range')
    diginit = pinw(2, 'digest_init', 'C_DigestInit: only advertised digest mechanisms, refused while another operation is active, a refused init leaves the session untouched')
    O['C04'] += [initpin, setpin]; O['C03'] += [initpin, setpin]; O['C07'].append(diginit); O['C12'].append(diginit)
    O['C17'] += [reg._c17t(initpin), reg._c17t(setpin)]

    # ------------------------------------------------------------------ C_Login with long PINs (byte-exact passing up to MAX_PIN_LEN and beyond)
    base = [o for o in O['C03'] if o.name == 'clogin'][0]
    def clong(n):
        o = Ob('clogin_len%d' % n, base.harness, base.real, defines={'PINLEN': n, 'BS_CAP': n + 4}, unwind=n + 6, stubs=base.stubs, caps=base.caps,
               desc=base.desc + ' [PIN of exactly %d bytes]' % n, bounds='PIN of %d symbolic bytes; one session' % n, timeout=600)
        return o
    longs = [clong(255), clong(256)]
    O['C04'] += longs; O['C03'] += longs[:1]

    # ------------------------------------------------------------------ C_DeriveKey wrapper
    dk_stubs = {'_ZN7SoftHSM8deriveDHEmP13_CK_MECHANISMmP13_CK_ATTRIBUTEmPmmhh': 'sink_deriveDH', '_ZN7SoftHSM10deriveECDHEmP13_CK_MECHANISMmP13_CK_ATTRIBUTEmPmmhh': 'sink_deriveECDH',
                '_ZN7SoftHSM11deriveEDDSAEmP13_CK_MECHANISMmP13_CK_ATTRIBUTEmPmmhh': 'sink_deriveEDDSA', '_ZN7SoftHSM15deriveSymmetricEmP13_CK_MECHANISMmP13_CK_ATTRIBUTEmPmmhh': 'sink_deriveSym'}
    dk = Ob('derive_key_wrapper', 'C09/derivekey_entry.cpp', ENTRY, defines={'BS_CAP': 8, 'MODEL_OUT_MAX': 4}, unwind=10, stubs=dk_stubs, caps='common/entry_caps.h', unwind_rules=[(r'^harness\.', 12), (r'ir_memcpy', 60)],
            desc='C_DeriveKey: the base key needs CKA_DERIVE, an allowed + advertised mechanism, the class / key type of the mechanism, and the logged-in user when private; the derived key is a secret key of a supported type, private only for the user, token object only through RW sessions; the derivation fitting mechanism and key type is chosen',
            bounds='mechanism all 2^64 values; template (CLASS?, KEY_TYPE?, TOKEN|PRIVATE) with symbolic values; base key with the full symbolic attribute table; derivation bodies are cuts', timeout=600, mem=16)
    for p in ('C01', 'C07', 'C13'): O[p].append(dk)
    O['C17'].append(reg._c17t(dk))

    # ------------------------------------------------------------------ key-pair generation
    gp_stubs = dict(gen_stubs)
    gpw_stubs = dict(gen_stubs)
    gpw_stubs.update({'_ZN7SoftHSM11generateRSAEmP13_CK_ATTRIBUTEmS1_mPmS2_hhhh': 'sink_genRSA', '_ZN7SoftHSM11generateDSAEmP13_CK_ATTRIBUTEmS1_mPmS2_hhhh': 'sink_genDSA', '_ZN7SoftHSM10generateDHEmP13_CK_ATTRIBUTEmS1_mPmS2_hhhh': 'sink_genDH',
                      '_ZN7SoftHSM10generateECEmP13_CK_ATTRIBUTEmS1_mPmS2_hhhh': 'sink_genEC', '_ZN7SoftHSM10generateEDEmP13_CK_ATTRIBUTEmS1_mPmS2_hhhh': 'sink_genED', '_ZN7SoftHSM12generateGOSTEmP13_CK_ATTRIBUTEmS1_mPmS2_hhhh': 'sink_genGOST'})
    GP_REAL = ENTRY + ['crypto/ECPublicKey.cpp', 'crypto/ECPrivateKey.cpp', 'crypto/ECParameters.cpp', 'crypto/AsymmetricKeyPair.cpp', 'crypto/AESKey.cpp', 'crypto/DESKey.cpp']
    gpw = Ob('genpair_wrapper', 'C09/genpair_entry.cpp', GP_REAL, defines={'GEN': 0, 'BS_CAP': 8, 'MODEL_OUT_MAX': 4}, unwind=10, stubs=gpw_stubs, caps='common/entry_caps.h', unwind_rules=[(r'^harness\.', 12), (r'ir_memcpy', 40)],
             desc='C_GenerateKeyPair: only advertised mechanisms, the generator of the mechanism, flags of BOTH templates handed on (defaults: public key public, private key private, session objects); any private part needs the logged-in user, any token part an RW session',
             bounds='mechanism all 2^64 values; public template 1..2 entries, private template 2..3 entries with symbolic values; generators are cuts', timeout=600, mem=16)
    gpec = Ob('genpair_EC', 'C09/genpair_entry.cpp', GP_REAL, defines={'GEN': 1, 'BS_CAP': 8, 'MODEL_OUT_MAX': 4}, unwind=10, stubs=gp_stubs, caps='common/entry_caps.h', unwind_rules=[(r'^harness\.', 12), (r'ir_memcpy', 40)],
              desc='generateEC (real): both objects LOCAL with KEY_GEN_MECHANISM, private key ALWAYS_SENSITIVE == SENSITIVE and NEVER_EXTRACTABLE == !EXTRACTABLE, private value stored encrypted when the object is private, one committed transaction per object; when any step fails NEITHER object nor handle stays behind',
              bounds='model key pair with 2-byte components (symbolic); templates (EC_PARAMS) / (SENSITIVE, EXTRACTABLE) with symbolic values; both CreateObject calls are cuts that may fail; storing an attribute may fail', timeout=900, mem=20)
    for p in ('C01', 'C07'): O[p].append(gpw)
    for p in ('C09', 'C08', 'C06'): O[p].append(gpec)
    O['C17'] += [reg._c17t(gpw), reg._c17t(gpec)]

    # ------------------------------------------------------------------ SecureDataManager over a symbolic (Dolev-Yao) model of the primitives
    SDM_REAL = ['data_mgr/SecureDataManager.cpp', 'data_mgr/ByteString.cpp', 'crypto/SymmetricAlgorithm.cpp', 'crypto/SymmetricKey.cpp', 'crypto/AESKey.cpp']
    sdm_specs = [  # (op, name, who, description, length tuples (so, us, nw, x): first two quick)
        (0, 'blank_setsopin', 0, 'blank token: setSOPIN(pin) draws the master key K and writes exactly blob(pin, K) = salt | IV | enc(pbe(pin, salt), IV, magic | K); setUserPIN / empty PIN refused', [(2, 2, 2, 2), (1, 1, 1, 1)]),
        (1, 'login_so', 0, 'loginSO(x) from an initialised token in ANY login state: succeeds iff x is exactly the SO PIN; success = SO logged in with master key K; failure = nobody logged in, key wiped; blobs untouched', [(2, 2, 2, 2), (2, 1, 2, 1), (1, 2, 2, 2), (2, 2, 2, 0), (1, 1, 1, 1), (2, 2, 2, 1)]),
        (1, 'login_user', 1, 'loginUser(x) from an initialised token in ANY login state: succeeds iff x is exactly the user PIN (the SO PIN does not open it); success = user logged in with the SAME master key K', [(2, 2, 2, 2), (2, 1, 2, 2), (2, 2, 2, 1), (2, 2, 2, 0), (1, 1, 1, 1), (1, 2, 2, 1)]),
        (2, 'setuserpin', 0, 'setUserPIN(new) while the SO or the user is logged in: userBlob becomes exactly blob(new, K); SO blob, login state and K untouched; refused without change when nobody is logged in or the PIN is empty', [(2, 2, 2, 2), (2, 2, 1, 2)]),
        (3, 'encrypt_roundtrip_so', 0, 'attribute encryption (SO logged in): fresh IV prepended, encrypted under the master key, decrypt(encrypt(x)) == x, empty stays empty, nothing without a login', [(2, 2, 2, 2)]),
        (3, 'encrypt_roundtrip_user', 1, 'attribute encryption (user logged in): fresh IV prepended, encrypted under the master key, decrypt(encrypt(x)) == x, empty stays empty, nothing without a login', [(2, 2, 2, 2)]),
        (4, 'reauth_so', 0, 'reAuthenticateSO accepts exactly the SO PIN and changes neither login state nor key nor blobs', [(2, 2, 2, 2), (2, 2, 2, 1)]),
        (4, 'reauth_user', 1, 'reAuthenticateUser accepts exactly the user PIN and changes neither login state nor key nor blobs', [(2, 2, 2, 2), (2, 1, 2, 2)]),
        (5, 'setsopin', 0, 'setSOPIN(new) by the logged-in SO: soBlob becomes exactly blob(new, K); user blob, login state and K untouched; refused without change unless the SO is logged in and the PIN non-empty', [(2, 2, 2, 2), (2, 2, 1, 2)]),
    ]
    def sdm_ob(op, n, who, d, lens, tiers):
        so, us, nw, x = lens
        return Ob('sdm_%s_%d%d%d%d' % (n, so, us, nw, x), 'C04/sdm_unit.cpp', SDM_REAL, defines={'OP': op, 'WHO': who, 'BS_CAP': 52, 'SOLEN': so, 'USLEN': us, 'NWLEN': nw, 'XLEN': x}, unwind=56, caps='C04/sdm_caps.h', noinline=True, tiers=tiers,
                  stubs={'_ZN7RFC488012PBEDeriveKeyERK10ByteStringRS0_PP6AESKey': 'stub_pbe', '_ZN10ByteStringC2EPKc': 'stub_bs_hex', '_ZN10ByteStringC1EPKc': 'stub_bs_hex'},
                  desc='SecureDataManager (real) over the symbolic primitive model, one call from a constructed state: ' + d,
                  bounds='PIN lengths (SO, user, new, attempt) = %s bytes, all byte values symbolic; master key 32 symbolic bytes; block size 2 in the model; PBE / AES / RNG are the symbolic models of harness/C04/sdm_unit.cpp' % (lens,), timeout=900, mem=20)
    sdm = []
    for (op, n, who, d, lenss) in sdm_specs:
        for k, lens in enumerate(lenss):
            sdm.append(sdm_ob(op, n, who, d, lens, ('quick', 'thorough') if k < 2 else ('thorough',)))
    O['C04'] += sdm; O['C06'] += [o for o in sdm if 'encrypt_roundtrip' in o.name]

    # ------------------------------------------------------------------ deriveDH / deriveECDH / deriveEDDSA bodies
    da_stubs = dict(reg.GETKEY_STUBS)
    da_stubs.update(gen_stubs)
    da_stubs.update({'_ZN7SoftHSM14getDHPublicKeyEP11DHPublicKeyP12DHPrivateKeyR10ByteString': 'sink_getPub', '_ZN7SoftHSM16getECDHPublicKeyEP11ECPublicKeyP12ECPrivateKeyR10ByteString': 'sink_getPub',
                     '_ZN7SoftHSM16getEDDHPublicKeyEP11EDPublicKeyP12EDPrivateKeyR10ByteString': 'sink_getPub'})
    def da(fn, fname, kt, seclen, tiers):
        return Ob('derive_%s_%s' % (fname, kt[4:].lower()), 'C09/derive_asym_entry.cpp', REAL, defines={'FN': fn, 'DKT': kt, 'SECLEN': seclen, 'BS_CAP': seclen + 6, 'MODEL_OUT_MAX': 4}, unwind=seclen + 8, stubs=da_stubs, caps='common/entry_caps.h',
                  unwind_rules=[(r'^harness\.', seclen + 12), (r'ir_memcpy', 60)], tiers=tiers,
                  desc='derive%s (real) to a %s key: value = the trailing requested bytes of the shared secret (DES: parity-adjusted), encrypted when private; LOCAL false, ALWAYS_SENSITIVE / NEVER_EXTRACTABLE inherited from the base key and the new flags; a failed derivation (primitive, CreateObject, attribute store, requested length longer than the secret) leaves no object and no handle' % (fname.upper(), kt),
                  bounds='shared secret of %d symbolic bytes, requested length 0..%d, template of 0..3 entries (VALUE_LEN, SENSITIVE, EXTRACTABLE) with symbolic values; primitive, key-material access and CreateObject are cuts' % (seclen, seclen + 2), timeout=900, mem=20)
    das = [da(0, 'dh', 'CKK_GENERIC_SECRET', 4, ('quick', 'thorough')), da(0, 'dh', 'CKK_DES', 9, ('quick', 'thorough')), da(1, 'ecdh', 'CKK_GENERIC_SECRET', 4, ('quick', 'thorough')), da(2, 'eddsa', 'CKK_GENERIC_SECRET', 4, ('quick', 'thorough')),
           da(1, 'ecdh', 'CKK_DES', 9, ('thorough',)), da(0, 'dh', 'CKK_DES2', 17, ('thorough',))]
    for p in ('C13', 'C09', 'C08'): O[p] += das
    O['C06'] += das[:1]
    O['C17'] += [reg._c17t(das[0]), reg._c17t(das[2])]

    # ------------------------------------------------------------------ key material access / import
    km_stubs = {'_ZN5Token7decryptERK10ByteStringRS0_': 'tag_token_decrypt', '_ZN5Token7encryptERK10ByteStringRS0_': 'det_token_encrypt'}
    KM_REAL = ENTRY + ['crypto/RSAPrivateKey.cpp']
    km = [Ob('keymat_' + n, 'C06/keymat_unit.cpp', KM_REAL, defines={'OP': op, 'BS_CAP': 8, 'MODEL_OUT_MAX': 4}, unwind=10, stubs=km_stubs, caps='common/entry_caps.h', unwind_rules=[(r'^harness\.', 12)], desc=d,
             bounds='one-byte components (symbolic), object private or public (symbolic); Token::decrypt/encrypt = tagging model', timeout=600, mem=16)
          for (op, n, d) in ((0, 'getsym', 'getSymmetricKey: the value of a private key object is decrypted and exactly the plaintext becomes the key, a failing decryption hands out nothing; a public object\'s value is used as stored'),
                             (1, 'getrsa', 'getRSAPrivateKey: all eight components, each decrypted when the object is private, each in ITS slot of the key object'),
                             (2, 'setrsa', 'setRSAPrivateKey (import of an unwrapped key): each decoded component is stored in ITS attribute, encrypted iff the new object is private; failure of the decoder or the store is reported'))]
    O['C06'] += km; O['C13'] += km[1:]

    # ------------------------------------------------------------------ C17: templates longer than the fixed 32-entry attribute arrays (pointer / bounds checks on)
    def big(base, n=33):
        o = Ob.__new__(Ob); o.__dict__.update(base.__dict__)
        o.name = base.name + '_bigtemplate'; o.defines = dict(base.defines); o.defines['BIGT'] = n; o.checks = True; o.throw_assert = True; o.tiers = ('quick', 'thorough')
        o.unwind_rules = [(r'^harness\.', n + 8), (r'ir_memcpy', 120), (r'generate|derive|C_UnwrapKey|sink_create|extractObjectInformation', n + 4)]; o.timeout = 900; o.mem = 24
        o.desc = base.desc + ' - with a template of %d entries (longer than the fixed 32-entry attribute array of the function) and CBMC pointer / bounds checks: nothing is written out of range' % n
        o.bounds = base.bounds + '; template of %d entries (first three as before, the rest CKA_LABEL)' % n
        return o
    unwrap = [o for o in O['C09'] if o.name == 'unwrap_key'][0]
    bigs = [big(unwrap), big(gens[1]), big(das[0])]
    O['C17'] += bigs

    # ------------------------------------------------------------------ generateED / generateDH (same harness as generateEC, other key classes)
    GP_REAL2 = GP_REAL + ['crypto/EDPublicKey.cpp', 'crypto/EDPrivateKey.cpp', 'crypto/DHPublicKey.cpp', 'crypto/DHPrivateKey.cpp', 'crypto/DHParameters.cpp']
    gpec.real = list(GP_REAL2)
    def gpk(kind, name):
        o = Ob.__new__(Ob); o.__dict__.update(gpec.__dict__); o.name = 'genpair_' + name; o.defines = dict(gpec.defines); o.defines['KIND'] = kind
        o.desc = gpec.desc.replace('generateEC', 'generate' + name); return o
    gped, gpdh = gpk(2, 'ED'), gpk(3, 'DH')
    gpdh.tiers = ()       # generateDH: no verdict at 40 GB (kept for experiments with --any-tier)
    for p in ('C09', 'C08', 'C06'): O[p] += [gped, gpdh]

    # ------------------------------------------------------------------ C17: nested template attribute read with mixed NULL / non-NULL entries
    amr = Ob('attrmap_retrieve', 'C02/attrmap_retrieve.cpp', reg.ATTR_REAL, defines={'BS_CAP': 6, 'MODEL_OUT_MAX': 4, 'P11MAP_CAP': 2}, unwind=8, stubs=reg.TAG_STUBS, caps='C02/caps.h', checks=True, throw_assert=True,
             unwind_rules=[(r'^harness\.', 10)],
             desc='P11Attribute::retrieve + retrieveAttributeMap on a CKA_WRAP_TEMPLATE attribute with two entries; the caller\'s nested array has symbolic types, lengths and NULL / non-NULL value pointers: nothing is written through a NULL pointer or beyond an announced length (CBMC pointer checks)',
             bounds='nested template of 2 entries, lengths <= 16', timeout=600, mem=16)
    O['C17'].append(amr)
