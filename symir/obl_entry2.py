"""Second batch of entry-point obligations (C_WrapKey, key generation, C_DeriveKey wrapper, PIN wrappers, wrap/unwrap kernels)."""
from run import Ob


def register(reg):
    O = reg.OBLIGATIONS
    ENTRY = reg.ENTRY_REAL_NOP11
    # ------------------------------------------------------------------ C_WrapKey
    stubs = dict(reg.GETKEY_STUBS)
    stubs.update({'_ZN7SoftHSM10WrapKeySymEP13_CK_MECHANISMP5TokenP8OSObjectR10ByteStringS7_': 'sink_wrapsym',
                  '_ZN7SoftHSM11WrapKeyAsymEP13_CK_MECHANISMP5TokenP8OSObjectR10ByteStringS7_': 'sink_wrapasym',
                  '_ZN5Token7decryptERK10ByteStringRS0_': 'tag_token_decrypt', '_ZN5Token7encryptERK10ByteStringRS0_': 'tag_token_encrypt'})
    wrap = Ob('wrap_key', 'C02/wrap_entry.cpp', ENTRY, defines={'BS_CAP': 8, 'MODEL_OUT_MAX': 4}, unwind=10, stubs=stubs, caps='common/entry_caps.h',
              unwind_rules=[(r'^harness\.', 12), (r'ir_memcpy', 120)],
              desc='C_WrapKey: key material is read only if the key is extractable, a WRAP_WITH_TRUSTED key gets a trusted wrapping key, private keys (either role) need the logged-in user, the wrapping key has CKA_WRAP, the fitting class/type, an allowed + advertised mechanism; a secret key is wrapped as exactly its (decrypted) CKA_VALUE; length query / BUFFER_TOO_SMALL / failure write no byte, success writes exactly the blob',
              bounds='mechanism all 2^64 values, parameter <= 48 bytes, key values <= 3 bytes, blob <= 4 bytes in a buffer of 8; the primitives (WrapKeySym/Asym) and private-key export are cuts with symbolic results; CKA_WRAP_TEMPLATE absent', timeout=600, mem=20)
    for p in ('C02', 'C01', 'C07', 'C12', 'C13'): O[p].append(wrap)
    O['C17'].append(reg._c17t(wrap))

    # ------------------------------------------------------------------ symmetric key generation
    gen_stubs = {'_ZN7SoftHSM12CreateObjectEmP13_CK_ATTRIBUTEmPmi': 'sink_create', '_ZN5Token7decryptERK10ByteStringRS0_': 'tag_token_decrypt', '_ZN5Token7encryptERK10ByteStringRS0_': 'det_token_encrypt'}
    wrapper_stubs = dict(gen_stubs)
    wrapper_stubs.update({'_ZN7SoftHSM11generateAESEmP13_CK_ATTRIBUTEmPmhh': 'sink_genAES', '_ZN7SoftHSM15generateGenericEmP13_CK_ATTRIBUTEmPmhh': 'sink_genGeneric',
                          '_ZN7SoftHSM11generateDESEmP13_CK_ATTRIBUTEmPmhh': 'sink_genDES', '_ZN7SoftHSM12generateDES2EmP13_CK_ATTRIBUTEmPmhh': 'sink_genDES2', '_ZN7SoftHSM12generateDES3EmP13_CK_ATTRIBUTEmPmhh': 'sink_genDES3',
                          '_ZN7SoftHSM21generateDSAParametersEmP13_CK_ATTRIBUTEmPmhh': 'sink_genDSAParams', '_ZN7SoftHSM20generateDHParametersEmP13_CK_ATTRIBUTEmPmhh': 'sink_genDHParams'})
    REAL = ENTRY + ['crypto/AESKey.cpp', 'crypto/DESKey.cpp']
    genwrap = Ob('genkey_wrapper', 'C09/gen_entry.cpp', REAL, defines={'GEN': 0, 'BS_CAP': 8, 'MODEL_OUT_MAX': 4}, unwind=10, stubs=wrapper_stubs, caps='common/entry_caps.h', unwind_rules=[(r'^harness\.', 12), (r'ir_memcpy', 40)],
                 desc='C_GenerateKey: only advertised mechanisms, the right generator for the mechanism, template class / key type must fit it, private keys only for the logged-in user, token keys only through RW sessions (PKCS#11 defaults: session object, private)',
                 bounds='mechanism all 2^64 values; template of 3..5 entries (VALUE_LEN, SENSITIVE, EXTRACTABLE, TOKEN|PRIVATE, CLASS|KEY_TYPE) with symbolic values; the generators are cuts', timeout=600, mem=16)
    def gen(n, name, klen, tiers):
        return Ob('gen_' + name, 'C09/gen_entry.cpp', REAL, defines={'GEN': n, 'KEYLEN': klen, 'BS_CAP': klen + 4, 'MODEL_OUT_MAX': 4}, unwind=klen + 6, stubs=gen_stubs, caps='common/entry_caps.h', unwind_rules=[(r'^harness\.', klen + 10), (r'ir_memcpy', 60)], tiers=tiers,
                  desc='generate%s (real): a generated key is LOCAL, carries its KEY_GEN_MECHANISM, ALWAYS_SENSITIVE == SENSITIVE, NEVER_EXTRACTABLE == !EXTRACTABLE, its value is exactly the random bytes (stored encrypted when private), everything in one committed transaction; any failing step leaves no object and no handle' % name,
                  bounds='key of %d bytes (symbolic), template of 0..3 entries (VALUE_LEN, SENSITIVE, EXTRACTABLE; values symbolic); CreateObject is a cut that may fail; storing an attribute may fail' % klen, timeout=900, mem=20)
    gens = [gen(1, 'AES', 16, ('quick', 'thorough')), gen(2, 'Generic', 3, ('quick', 'thorough')), gen(3, 'DES', 7, ('thorough',)), gen(4, 'DES2', 14, ('thorough',)), gen(5, 'DES3', 21, ('thorough',))]
    for p in ('C01', 'C07'): O[p].append(genwrap)
    for p in ('C08', 'C09', 'C06'): O[p] += gens
    O['C17'] += [reg._c17t(genwrap)] + [reg._c17t(g) for g in gens[:2]]

    # ------------------------------------------------------------------ WrapKeySym / UnwrapKeySym kernels (C13)
    ws_stubs = {'_ZN5Token7decryptERK10ByteStringRS0_': 'tag_token_decrypt', '_ZN5Token7encryptERK10ByteStringRS0_': 'tag_token_encrypt'}
    def ws(mech, klen, tiers):
        return Ob('wrapsym_%s_k%d' % (mech[4:].lower(), klen), 'C13/wrapsym_unit.cpp', ENTRY, defines={'MECH': mech, 'KLEN': klen, 'BS_CAP': 36, 'MODEL_OUT_MAX': 4, 'MODEL_SYM_IDENTITY': 1}, unwind=40, stubs=ws_stubs, caps='common/entry_caps.h', tiers=tiers,
                  desc='WrapKeySym + UnwrapKeySym (real) with %s on a %d-byte key over the functional cipher model: the primitive is driven in CBC without its own padding under exactly the caller\'s IV and the wrapping key\'s (decrypted) value and fed exactly PKCS#7(key) resp. the RFC 3394 zero-padded / RFC 5649 unpadded key bytes; unwrapping the blob with the same parameters returns the key (zero-padded for AES_KEY_WRAP)' % (mech, klen),
                  bounds='key of %d bytes and IV symbolic; wrapping key value <= 3 bytes, private or public; primitive = identity / tagged-copy model that may fail' % klen, timeout=600, mem=16)
    wss = [ws('CKM_AES_CBC_PAD', 5, ('quick', 'thorough')), ws('CKM_AES_CBC_PAD', 16, ('quick', 'thorough')), ws('CKM_DES3_CBC_PAD', 8, ('quick', 'thorough')), ws('CKM_DES3_CBC_PAD', 3, ('thorough',)),
           ws('CKM_AES_KEY_WRAP', 16, ('quick', 'thorough')), ws('CKM_AES_KEY_WRAP', 21, ('quick', 'thorough')), ws('CKM_AES_KEY_WRAP_PAD', 5, ('quick', 'thorough')), ws('CKM_AES_CBC_PAD', 31, ('thorough',))]
    O['C13'] += wss

    # ------------------------------------------------------------------ C_InitPIN / C_SetPIN / C_DigestInit wrappers
    pin_stubs = {'_ZN5Token11initUserPINER10ByteString': 'sink_initUserPIN', '_ZN5Token10setUserPINER10ByteStringS1_': 'sink_setUserPIN', '_ZN5Token8setSOPINER10ByteStringS1_': 'sink_setSOPIN'}
    def pinw(op, name, d):
        return Ob(name, 'C04/pin_entry.cpp', ENTRY, defines={'OP': op, 'BS_CAP': 16}, unwind=18, stubs=pin_stubs if op < 2 else {}, caps='common/entry_caps.h', desc=d,
                  bounds='PINs <= 16 bytes (and every length above MAX_PIN_LEN), NULL pointers, one session in an arbitrary state', timeout=300)
    initpin = pinw(0, 'cinitpin', 'C_InitPIN wrapper: only through the RW session of the logged-in SO, PIN length within [MIN_PIN_LEN, MAX_PIN_LEN], the caller\'s bytes reach Token::initUserPIN unmodified, no other PIN function is called')
    setpin = pinw(1, 'csetpin', 'C_SetPIN wrapper: RW public / RW user session -> Token::setUserPIN, RW SO session -> Token::setSOPIN, RO session refused; old and new PIN passed unmodified; new PIN length within range')
    diginit = pinw(2, 'digest_init', 'C_DigestInit: only advertised digest mechanisms, refused while another operation is active, a refused init leaves the session untouched')
    O['C04'] += [initpin, setpin]; O['C03'] += [initpin, setpin]; O['C07'].append(diginit); O['C12'].append(diginit)
    O['C17'] += [reg._c17t(initpin), reg._c17t(setpin)]

    # ------------------------------------------------------------------ C_Login with long PINs (byte-exact passing up to MAX_PIN_LEN and beyond)
    base = [o for o in O['C03'] if o.name == 'clogin'][0]
    def clong(n):
        o = Ob('clogin_len%d' % n, base.harness, base.real, defines={'PINLEN': n, 'BS_CAP': n + 4}, unwind=n + 6, stubs=base.stubs, caps=base.caps,
               desc=base.desc + ' [PIN of exactly %d bytes]' % n, bounds='PIN of %d symbolic bytes; one session' % n, timeout=600)
        return o
    longs = [clong(255), clong(256)]
    O['C04'] += longs; O['C03'] += longs[:1]

    # ------------------------------------------------------------------ C_DeriveKey wrapper
    dk_stubs = {'_ZN7SoftHSM8deriveDHEmP13_CK_MECHANISMmP13_CK_ATTRIBUTEmPmmhh': 'sink_deriveDH', '_ZN7SoftHSM10deriveECDHEmP13_CK_MECHANISMmP13_CK_ATTRIBUTEmPmmhh': 'sink_deriveECDH',
                '_ZN7SoftHSM11deriveEDDSAEmP13_CK_MECHANISMmP13_CK_ATTRIBUTEmPmmhh': 'sink_deriveEDDSA', '_ZN7SoftHSM15deriveSymmetricEmP13_CK_MECHANISMmP13_CK_ATTRIBUTEmPmmhh': 'sink_deriveSym'}
    dk = Ob('derive_key_wrapper', 'C09/derivekey_entry.cpp', ENTRY, defines={'BS_CAP': 8, 'MODEL_OUT_MAX': 4}, unwind=10, stubs=dk_stubs, caps='common/entry_caps.h', unwind_rules=[(r'^harness\.', 12), (r'ir_memcpy', 60)],
            desc='C_DeriveKey: the base key needs CKA_DERIVE, an allowed + advertised mechanism, the class / key type of the mechanism, and the logged-in user when private; the derived key is a secret key of a supported type, private only for the user, token object only through RW sessions; the derivation fitting mechanism and key type is chosen',
            bounds='mechanism all 2^64 values; template (CLASS?, KEY_TYPE?, TOKEN|PRIVATE) with symbolic values; base key with the full symbolic attribute table; derivation bodies are cuts', timeout=600, mem=16)
    for p in ('C01', 'C07', 'C13'): O[p].append(dk)
    O['C17'].append(reg._c17t(dk))

    # ------------------------------------------------------------------ key-pair generation
    gp_stubs = dict(gen_stubs)
    gpw_stubs = dict(gen_stubs)
    gpw_stubs.update({'_ZN7SoftHSM11generateRSAEmP13_CK_ATTRIBUTEmS1_mPmS2_hhhh': 'sink_genRSA', '_ZN7SoftHSM11generateDSAEmP13_CK_ATTRIBUTEmS1_mPmS2_hhhh': 'sink_genDSA', '_ZN7SoftHSM10generateDHEmP13_CK_ATTRIBUTEmS1_mPmS2_hhhh': 'sink_genDH',
                      '_ZN7SoftHSM10generateECEmP13_CK_ATTRIBUTEmS1_mPmS2_hhhh': 'sink_genEC', '_ZN7SoftHSM10generateEDEmP13_CK_ATTRIBUTEmS1_mPmS2_hhhh': 'sink_genED', '_ZN7SoftHSM12generateGOSTEmP13_CK_ATTRIBUTEmS1_mPmS2_hhhh': 'sink_genGOST'})
    GP_REAL = ENTRY + ['crypto/ECPublicKey.cpp', 'crypto/ECPrivateKey.cpp', 'crypto/ECParameters.cpp', 'crypto/AsymmetricKeyPair.cpp', 'crypto/AESKey.cpp', 'crypto/DESKey.cpp']
    gpw = Ob('genpair_wrapper', 'C09/genpair_entry.cpp', GP_REAL, defines={'GEN': 0, 'BS_CAP': 8, 'MODEL_OUT_MAX': 4}, unwind=10, stubs=gpw_stubs, caps='common/entry_caps.h', unwind_rules=[(r'^harness\.', 12), (r'ir_memcpy', 40)],
             desc='C_GenerateKeyPair: only advertised mechanisms, the generator of the mechanism, flags of BOTH templates handed on (defaults: public key public, private key private, session objects); any private part needs the logged-in user, any token part an RW session',
             bounds='mechanism all 2^64 values; public template 1..2 entries, private template 2..3 entries with symbolic values; generators are cuts', timeout=600, mem=16)
    gpec = Ob('genpair_EC', 'C09/genpair_entry.cpp', GP_REAL, defines={'GEN': 1, 'BS_CAP': 8, 'MODEL_OUT_MAX': 4}, unwind=10, stubs=gp_stubs, caps='common/entry_caps.h', unwind_rules=[(r'^harness\.', 12), (r'ir_memcpy', 40)],
              desc='generateEC (real): both objects LOCAL with KEY_GEN_MECHANISM, private key ALWAYS_SENSITIVE == SENSITIVE and NEVER_EXTRACTABLE == !EXTRACTABLE, private value stored encrypted when the object is private, one committed transaction per object; when any step fails NEITHER object nor handle stays behind',
              bounds='model key pair with 2-byte components (symbolic); templates (EC_PARAMS) / (SENSITIVE, EXTRACTABLE) with symbolic values; both CreateObject calls are cuts that may fail; storing an attribute may fail', timeout=900, mem=20)
    for p in ('C01', 'C07'): O[p].append(gpw)
    for p in ('C09', 'C08', 'C06'): O[p].append(gpec)
    O['C17'] += [reg._c17t(gpw), reg._c17t(gpec)]
