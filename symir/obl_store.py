"""OSToken-level obligations of C15 / C16 / C05: the real OSToken.cpp + Directory.cpp + Generation.cpp + ObjectFile.cpp + File.cpp
over the model token directory (harness/common/vio_dir_model.h).  Plug-in of obligations.py (register() is called at its end)."""
from run import Ob

STORE_REAL = ['object_store/OSToken.cpp', 'object_store/Directory.cpp', 'object_store/Generation.cpp', 'object_store/ObjectFile.cpp',
              'object_store/File.cpp', 'object_store/OSAttribute.cpp', 'data_mgr/ByteString.cpp']
STORE_BOUNDS = ('one token directory with the possible entries generation, token.object/.lock, a.object/.lock, b.object/.lock (at most two objects); '
                'objects with two attributes (boolean, 2-byte string): shape concrete, values and token flags symbolic; files <= 56 bytes; '
                'readdir order fixed (table order); two instances = two processes, calls are atomic (fcntl locks)')
FCAP = 56


def _st(op, name, desc, tiers=('thorough',), **defs):
    d = {'OP': op, 'BS_CAP': 12, 'FCAP': FCAP, 'NFILES': 7, 'NSTREAMS': 4}
    d.update(defs)
    return Ob('store_' + name, 'C15/store.cpp', STORE_REAL, defines=d, unwind=18, caps='C15/caps.h',
              unwind_rules=[(r'vio_freeze|vio_dir_recover|vio_dir_reset', 7 * FCAP + 16), (r'^harness|file_is|ref_object', 7 * FCAP + 16), (r'vio_dir_streq|vio_dir_readdir', 18)],
              flags=['--max-field-sensitivity-array-size', '128'],   # the model files stay field-sensitive: concrete file bytes propagate
              desc=desc, bounds=STORE_BOUNDS, timeout=900, mem=16, tiers=tiers)


def register(reg):
    c15 = [
        _st(1, 's1_create_seen', 'two OSToken instances on one directory (two processes): Q has indexed the empty token, P.createObject() + 2 x setAttribute; Q.getObjects() returns exactly one object, valid, with P\'s values; P itself lists exactly its object', tiers=('quick', 'thorough')),
        _st(2, 's2_create_create', 'Q has indexed; P.createObject() (+ attributes); Q\'s next store call is Q.createObject() itself (no index in between); Q.getObjects() must contain BOTH objects with their values, so must P.getObjects()', tiers=('quick', 'thorough')),
        _st(3, 's3_delete_seen', 'P and Q have object a loaded; P.deleteObject(a): Q\'s pointer reports isValid()==false at its next access and serves no attribute, Q.getObjects() and P.getObjects() no longer return it, the file is gone, a fresh instance does not find it and it never reappears for Q', tiers=('quick', 'thorough')),
        _st(4, 's4_setattr_seen', 'P changes the label of an object Q has loaded: Q sees the new value (and the unchanged other attribute) at its next access; a later write of Q does not lose P\'s committed change', tiers=('quick', 'thorough')),
    ]
    c15 += [
        _st(11, 's5_replace_seen', 'P destroys object a and creates object b with no call of Q in between (the number of object files is unchanged, the set is not): Q\'s next search returns exactly b with its values, Q\'s pointer to a is invalid', tiers=('quick', 'thorough')),
        _st(12, 's6_owndelete_create', 'Q destroys its own object a, then P creates b: Q\'s next search returns exactly b (two cooperating sites: deleteObject keeps the name in currentFiles)', tiers=('quick', 'thorough')),
    ]
    # ---- C16: crash points.  File-system operations of OSToken::createObject() on the pinned tree (measured natively, asserted by every instance):
    #  0 open(b.object,O_CREAT) 1 fdopen 2 fcntl(lock) 3 open(b.lock,O_CREAT|O_TRUNC) 4 fdopen 5 fread(generation: EOF) 6 fseek 7 ftruncate
    #  8 fwrite(generation) 9 fflush 10 fflush(unlock) 11 fcntl(unlock) 12 fclose(lock file) 13 fclose(object file)
    # deleteObject(): 0 remove(b.object) 1 opendir 2 remove(b.lock) 3 opendir
    CREATE_NOPS, DELETE_NOPS = 14, 4
    def crash_create(at, dsize, tiers=('thorough',)):
        suffix = '_p%d' % dsize if at == 9 else ''
        return _st(5, 'crash_create_at_%d%s' % (at, suffix), 'crash at file-system operation %d of OSToken::createObject() (%s): a fresh instance opens the token, the token object and the other object are intact (byte lengths and values), the object being created is absent or valid without attributes; own assertion: if its file is in the directory it is the complete 8-byte file, not an empty / partial one' % (at, 'flush in progress, %d of the 8 bytes in flight reached the disk' % dsize if at == 9 else 'nothing in flight'),
                   tiers=tiers, VIO_AT=at, NOPS=CREATE_NOPS, CRASH_DSIZE=dsize, CRASH_DSIZE_MAX=8)
    c16 = [crash_create(at, 0 if at < 9 else 8) for at in range(CREATE_NOPS) if at != 9] + [crash_create(9, p) for p in range(9)]
    c16 += [_st(6, 'crash_delete_at_%d' % at, 'crash at file-system operation %d of OSToken::deleteObject(b): a fresh instance opens the token, the token object and the other object are intact, the object being deleted is gone or intact with its values' % at, VIO_AT=at, NOPS=DELETE_NOPS) for at in range(DELETE_NOPS)]
    for o in c16:
        if o.name in ('store_crash_create_at_13', 'store_crash_delete_at_2'): o.tiers = ('quick', 'thorough')
    # ---- C05: restart and failing operations
    c05 = [
        _st(7, 'restart_create', 'createObject + 2 x setAttribute returned true: the bytes on the disk are the documented layout (format pin), nothing is left open or unflushed, a FRESH OSToken instance (restart) finds exactly this object with identical values', tiers=('quick', 'thorough')),
        _st(8, 'restart_delete', 'deleteObject returned true: a fresh instance (restart) does not find the object, its files are gone, the other object is still there with its values', tiers=('quick', 'thorough')),
    ]
    c05 += [_st(9, 'fault_create_at_%d' % at, 'file-system operation %d of OSToken::createObject() fails: a non-NULL result only for an object whose file is on the disk and that a restart finds valid; the other object is untouched' % at, VIO_AT=at, NOPS=CREATE_NOPS) for at in range(CREATE_NOPS)]
    c05 += [_st(10, 'fault_delete_at_%d' % at, 'file-system operation %d of OSToken::deleteObject(b) fails: true only when the object file is gone from the disk and a restart does not find it; the other object is untouched' % at, VIO_AT=at, NOPS=DELETE_NOPS) for at in range(DELETE_NOPS)]
    # ---- variants of the quantifier "order": reverse readdir order, reverse iteration order of std::set<OSObject*>
    c15 += [_st(op, n + '_rev', d + ' [readdir in reverse table order, std::set<OSObject*> iterated in reverse creation order]', VIO_DIR_ORDER=1, PTR_ORDER=1)
            for (op, n, d) in ((1, 's1_create_seen', c15[0].desc), (2, 's2_create_create', c15[1].desc), (3, 's3_delete_seen', c15[2].desc), (4, 's4_setattr_seen', c15[3].desc))]
    # ---- C09 (its quantifier includes failing file-system operations): a failed createObject leaves no object behind; a failed deleteObject
    # that left the file in place has not killed the object for the caller.  Both were defects of the pinned tree (repaired, see known-findings.txt).
    strict = [_st(9, 'strict_fault_create_at_%d' % at, 'file-system operation %d of OSToken::createObject() fails and createObject returns NULL: nothing is left in the token directory, a restart finds no new object' % at, tiers=('quick', 'thorough') if at in (1, 7, 9) else ('thorough',), VIO_AT=at, NOPS=CREATE_NOPS, STRICT=1) for at in range(CREATE_NOPS)]
    strict += [_st(10, 'strict_fault_delete_at_%d' % at, 'file-system operation %d of OSToken::deleteObject(b) fails, the object file is still there: the object is still valid, with its values, for the calling process' % at, tiers=('quick', 'thorough') if at == 0 else ('thorough',), VIO_AT=at, NOPS=DELETE_NOPS, STRICT=1) for at in range(DELETE_NOPS)]
    reg.OBLIGATIONS['C09'] = reg.OBLIGATIONS['C09'] + strict
    for k in ('C15', 'C16', 'C05'):
        reg.OBLIGATIONS.setdefault(k, [])
    reg.OBLIGATIONS['C15'] = reg.OBLIGATIONS['C15'] + c15
    reg.OBLIGATIONS['C16'] = reg.OBLIGATIONS['C16'] + c16
    reg.OBLIGATIONS['C05'] = reg.OBLIGATIONS['C05'] + c05
    # the store_* obligations can be addressed through any of the three properties (run.py <prop> --only store_...)
    for k, mine in (('C15', c16 + c05), ('C16', c15 + c05), ('C05', c15 + c16)):
        hidden = []
        for o in mine:
            h = Ob.__new__(Ob); h.__dict__.update(o.__dict__); h.tiers = (); hidden.append(h)
        reg.OBLIGATIONS[k] = reg.OBLIGATIONS[k] + hidden
    for k in ('C15', 'C16', 'C05'):
        m = reg.META.setdefault(k, dict(outside='', assumptions=[]))
        m['outside'] = (m.get('outside', '') + '; OSToken level (store_*): more than two objects per token, other readdir orders, other container iteration orders of std::set<OSObject*> than creation order, '
                        'directory-entry durability weaker than "durable at once", C_InitToken (createToken/clearToken mkdir/rmdir sequences), resetToken, three processes, interleavings below call granularity').lstrip('; ')
        m['assumptions'] = list(m.get('assumptions', [])) + ['model token directory of harness/common/vio_dir_model.h (fixed entry table, create/unlink/truncate durable at once, data durable once flushed, crash during a flush leaves any prefix)',
                                                             'UUID::newUUID() returns a name no file of the directory carries (model: "a", then "b")',
                                                             'dynamic_cast<ObjectFile*> is the identity (ObjectFile is the only OSObject class in the obligation)']
