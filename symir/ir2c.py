#!/usr/bin/env python3
"""Prototype LLVM-14 (typed pointers) textual IR -> C translator for CBMC.
Feasibility probe only."""
import re, sys, hashlib

# ---------------------------------------------------------------- tokenizer
TOK = re.compile(r'''
   (?P<ws>\s+|;[^\n]*)
 | (?P<str>c?"(?:[^"\\]|\\.)*")
 | (?P<lid>%(?:"(?:[^"\\]|\\.)*"|[-a-zA-Z$._0-9]+))
 | (?P<gid>@(?:"(?:[^"\\]|\\.)*"|[-a-zA-Z$._0-9]+))
 | (?P<meta>![-a-zA-Z$._0-9]*)
 | (?P<attr>\#[0-9]+)
 | (?P<comdat>\$(?:"(?:[^"\\]|\\.)*"|[-a-zA-Z$._0-9]+))
 | (?P<num>-?[0-9]+\.[0-9]*(?:[eE][-+]?[0-9]+)?|0x[KMLHR]?[0-9A-Fa-f]+|-?[0-9]+)
 | (?P<word>[a-zA-Z_][-a-zA-Z0-9_.]*)
 | (?P<dots>\.\.\.)
 | (?P<p>[()\[\]{}<>,=*:|])
''', re.X)

def tokenize(s):
    out = []; pos = 0; n = len(s)
    while pos < n:
        m = TOK.match(s, pos)
        if not m: raise SyntaxError("bad token at %r" % s[pos:pos+40])
        pos = m.end()
        k = m.lastgroup
        if k == 'ws': continue
        out.append((k, m.group(k)))
    return out

# ---------------------------------------------------------------- types
class Ty: pass
class IntTy(Ty):
    def __init__(s, bits): s.bits = bits
    def key(s): return 'i%d' % s.bits
class FloatTy(Ty):
    def __init__(s, name): s.name = name
    def key(s): return s.name
class VoidTy(Ty):
    def key(s): return 'void'
class LabelTy(Ty):
    def key(s): return 'label'
class MetaTy(Ty):
    def key(s): return 'metadata'
class PtrTy(Ty):
    def __init__(s, to): s.to = to
    def key(s): return s.to.key() + '*'
class ArrTy(Ty):
    def __init__(s, n, el): s.n = n; s.el = el
    def key(s): return '[%d x %s]' % (s.n, s.el.key())
class VecTy(Ty):
    def __init__(s, n, el): s.n = n; s.el = el
    def key(s): return '<%d x %s>' % (s.n, s.el.key())
class StructTy(Ty):
    def __init__(s, fields, packed): s.fields = fields; s.packed = packed
    def key(s):
        if s.fields is None: return 'opaque'
        return ('<{%s}>' if s.packed else '{%s}') % ','.join(f.key() for f in s.fields)
class NamedTy(Ty):
    def __init__(s, name): s.name = name
    def key(s): return '%' + s.name
class FnTy(Ty):
    def __init__(s, ret, params, vararg): s.ret = ret; s.params = params; s.vararg = vararg
    def key(s): return '%s(%s%s)' % (s.ret.key(), ','.join(p.key() for p in s.params), ',...' if s.vararg else '')

def cid(name):
    if name.startswith('"'): name = name[1:-1]
    if re.fullmatch(r'[A-Za-z_][A-Za-z0-9_]*', name) and not name.startswith('__CPROVER'):
        return name
    h = hashlib.md5(name.encode()).hexdigest()[:8]
    s = re.sub(r'[^A-Za-z0-9_]', '_', name)
    if len(s) > 60: s = s[:60]
    return 'x_' + s + '_' + h

PATTR = {'noundef','nonnull','zeroext','signext','noalias','nocapture','readonly','readnone','writeonly',
         'returned','immarg','inreg','nest','nofree','swiftself','inrange','swifterror'}
LINKAGE = {'private','internal','available_externally','linkonce','weak','common','appending','extern_weak',
           'linkonce_odr','weak_odr','external','dso_local','dso_preemptable','hidden','protected','default',
           'unnamed_addr','local_unnamed_addr','thread_local','externally_initialized'}
CCONV = {'fastcc','ccc','coldcc','tail','musttail','notail'}
FMF = {'nnan','ninf','nsz','arcp','contract','afn','reassoc','fast','nuw','nsw','exact','inbounds','volatile','atomic'}

class Parser:
    def __init__(s, toks, M=None): s.t = toks; s.i = 0; s.M = M
    def peek(s, k=0): return s.t[s.i+k] if s.i+k < len(s.t) else ('eof', '')
    def next(s): x = s.t[s.i]; s.i += 1; return x
    def accept(s, v):
        if s.peek()[1] == v and s.peek()[0] != 'str': s.i += 1; return True
        return False
    def expect(s, v):
        x = s.next()
        if x[1] != v: raise SyntaxError("expected %r got %r near %r" % (v, x, s.t[max(0,s.i-8):s.i+5]))
    def eof(s): return s.i >= len(s.t)
    def ty(s):
        k, v = s.next()
        if k == 'word':
            if re.fullmatch(r'i[0-9]+', v): t = IntTy(int(v[1:]))
            elif v == 'void': t = VoidTy()
            elif v in ('float', 'double', 'x86_fp80', 'half', 'fp128'): t = FloatTy(v)
            elif v == 'label': t = LabelTy()
            elif v == 'metadata': t = MetaTy()
            elif v == 'opaque': t = StructTy(None, False)
            elif v == 'ptr': t = PtrTy(IntTy(8))
            else: raise SyntaxError("type? %r near %r" % (v, s.t[max(0,s.i-8):s.i+5]))
        elif k == 'lid': t = NamedTy(nm(v[1:]))
        elif v == '[':
            n = int(s.next()[1]); s.expect('x'); el = s.ty(); s.expect(']'); t = ArrTy(n, el)
        elif v == '<':
            if s.peek()[1] == '{':
                s.next(); f = s.tylist('}'); s.expect('>'); t = StructTy(f, True)
            else:
                n = int(s.next()[1]); s.expect('x'); el = s.ty(); s.expect('>'); t = VecTy(n, el)
        elif v == '{':
            t = StructTy(s.tylist('}'), False)
        else: raise SyntaxError("type? %r %r near %r" % (k, v, s.t[max(0,s.i-8):s.i+5]))
        while True:
            if s.peek()[1] == '*': s.next(); t = PtrTy(t)
            elif s.peek()[1] == 'addrspace': s.next(); s.expect('('); s.next(); s.expect(')')
            elif s.peek()[1] == '(' :
                s.next(); ps = []; va = False
                while not s.accept(')'):
                    if s.peek()[0] == 'dots': s.next(); va = True
                    else:
                        ps.append(s.ty()); s.param_attrs()
                    s.accept(',')
                t = FnTy(t, ps, va)
            else: break
        return t
    def tylist(s, close):
        f = []
        while not s.accept(close):
            f.append(s.ty()); s.accept(',')
        return f
    def param_attrs(s):
        attrs = {}
        while True:
            k, v = s.peek()
            if k == 'word' and v in PATTR: s.next(); attrs[v] = True
            elif k == 'word' and v in ('align', 'dereferenceable', 'dereferenceable_or_null'):
                s.next()
                if s.accept('('): s.next(); s.expect(')')
                else: s.next()
            elif k == 'word' and v in ('byval', 'sret', 'inalloca', 'preallocated', 'byref', 'elementtype'):
                s.next(); s.expect('('); attrs[v] = s.ty(); s.expect(')')
            else: break
        return attrs
    # ---- constants / operands (typed: type is known)
    def value(s, ty):
        """parse an operand of known type; returns Val"""
        k, v = s.next()
        if k == 'lid': return Val('reg', ty, name=nm(v[1:]))
        if k == 'gid': return Val('glob', ty, name=nm(v[1:]))
        if k == 'num':
            if isinstance(ty, FloatTy): return Val('fp', ty, text=v)
            return Val('int', ty, v=int(v, 0) if not v.startswith('0x') else int(v, 16))
        if k == 'str':
            assert v.startswith('c')
            return Val('cstr', ty, data=unescape(v[2:-1]))
        if k == 'word':
            if v == 'true': return Val('int', ty, v=1)
            if v == 'false': return Val('int', ty, v=0)
            if v == 'null': return Val('null', ty)
            if v == 'none': return Val('null', ty)
            if v in ('undef', 'poison'): return Val('undef', ty)
            if v == 'zeroinitializer': return Val('zero', ty)
            if v in ('getelementptr',):
                inb = False
                while s.peek()[1] in ('inbounds',): s.next(); inb = True
                s.expect('('); bt = s.ty(); s.expect(',')
                ops = []
                while True:
                    s.accept('inrange')
                    t2 = s.ty(); ops.append(s.value(t2))
                    if not s.accept(','): break
                s.expect(')')
                return Val('cgep', ty, base_ty=bt, ops=ops)
            if v in ('bitcast', 'inttoptr', 'ptrtoint', 'trunc', 'zext', 'sext', 'addrspacecast'):
                s.expect('('); t1 = s.ty(); x = s.value(t1); s.expect('to'); t2 = s.ty(); s.expect(')')
                return Val('ccast', t2, op=v, x=x)
            if v in ('add', 'sub', 'mul', 'and', 'or', 'xor', 'shl', 'lshr', 'ashr', 'udiv', 'sdiv', 'urem', 'srem'):
                while s.peek()[1] in FMF: s.next()
                s.expect('('); t1 = s.ty(); a = s.value(t1); s.expect(','); t2 = s.ty(); b = s.value(t2); s.expect(')')
                return Val('cbin', t1, op=v, a=a, b=b)
            if v == 'icmp':
                pred = s.next()[1]
                s.expect('('); t1 = s.ty(); a = s.value(t1); s.expect(','); t2 = s.ty(); b = s.value(t2); s.expect(')')
                return Val('cicmp', IntTy(1), pred=pred, a=a, b=b)
            if v == 'select':
                s.expect('('); t0 = s.ty(); c = s.value(t0); s.expect(','); t1 = s.ty(); a = s.value(t1); s.expect(','); t2 = s.ty(); b = s.value(t2); s.expect(')')
                return Val('cselect', t1, c=c, a=a, b=b)
            if v == 'blockaddress': raise NotImplementedError('blockaddress')
            if v == 'dso_local_equivalent' or v == 'no_cfi':
                return s.value(ty)
        if v == '{' or (v == '<' and s.peek()[1] == '{'):
            packed = False
            if v == '<': s.next(); packed = True
            els = []
            while not s.accept('}'):
                t2 = s.ty(); els.append(s.value(t2)); s.accept(',')
            if packed: s.expect('>')
            return Val('cstruct', ty, els=els)
        if v == '[' or v == '<':
            close = ']' if v == '[' else '>'
            els = []
            while not s.accept(close):
                t2 = s.ty(); els.append(s.value(t2)); s.accept(',')
            return Val('carray', ty, els=els)
        raise SyntaxError("value? %r %r near %r" % (k, v, s.t[max(0,s.i-10):s.i+6]))
    def tval(s):
        t = s.ty(); return s.value(t)

def unescape(b):
    out = bytearray(); i = 0
    while i < len(b):
        if b[i] == '\\':
            if b[i+1] == '\\': out.append(92); i += 2
            else: out.append(int(b[i+1:i+3], 16)); i += 3
        else: out.append(ord(b[i])); i += 1
    return bytes(out)

class Val:
    def __init__(s, kind, ty, **kw): s.kind = kind; s.ty = ty; s.__dict__.update(kw)

class Module:
    def __init__(s):
        s.named = {}; s.globals = {}; s.funcs = {}; s.aliases = {}; s.ctors = []

def parse_module(text):
    M = Module()
    lines = text.split('\n')
    i = 0
    while i < len(lines):
        ln = lines[i]
        if ln.startswith('%') and ' = type ' in ln:
            p = Parser(tokenize(ln)); name = p.next()[1][1:]; p.expect('='); p.expect('type')
            M.named[nm(name)] = p.ty()
        elif ln.startswith('@llvm.global_ctors'):
            M.ctors = [nm(x) for x in re.findall(r'void \(\)\* @("[^"]*"|[-a-zA-Z$._0-9]+)', ln)]
        elif ln.startswith('@llvm.'):
            pass
        elif ln.startswith('@'):
            parse_global(M, ln)
        elif ln.startswith('declare '):
            parse_fnhead(M, ln, None)
        elif ln.startswith('define '):
            body = []; j = i + 1
            while lines[j] != '}': body.append(lines[j]); j += 1
            parse_fnhead(M, ln, body); i = j
        i += 1
    return M

def nm(x):
    return x[1:-1] if x.startswith('"') else x

def parse_global(M, ln):
    p = Parser(tokenize(ln))
    name = nm(p.next()[1][1:]); p.expect('=')
    ext = False
    while p.peek()[0] == 'word' and p.peek()[1] in LINKAGE:
        w = p.next()[1]
        if w in ('external', 'extern_weak'): ext = True
        if w == 'thread_local' and p.accept('('): p.next(); p.expect(')')
    if p.peek()[1] == 'alias':
        p.next(); ty = p.ty(); p.expect(','); v = p.tval()
        M.aliases[name] = v; return
    if p.peek()[1] == 'ifunc': return
    kind = p.next()[1]
    assert kind in ('global', 'constant'), ln
    ty = p.ty()
    init = None
    if not ext and not p.eof() and p.peek()[1] != ',':
        init = p.value(ty)
    M.globals[name] = dict(ty=ty, init=init, const=(kind == 'constant'))

def parse_fnhead(M, ln, body):
    p = Parser(tokenize(ln))
    p.next()
    while True:
        k, v = p.peek()
        if k == 'word' and (v in LINKAGE or v in CCONV): p.next()
        else: break
    p.param_attrs()
    ret = p.ty()
    # ret might have swallowed nothing of the param list because '@name' precedes '('
    name = nm(p.next()[1][1:])
    p.expect('(')
    params = []; va = False
    while not p.accept(')'):
        if p.peek()[0] == 'dots': p.next(); va = True
        else:
            t = p.ty(); a = p.param_attrs()
            pn = None
            if p.peek()[0] == 'lid': pn = nm(p.next()[1][1:])
            params.append((t, pn, a))
        p.accept(',')
    f = dict(name=name, ret=ret, params=params, vararg=va, body=body)
    if name in M.funcs and M.funcs[name]['body'] is not None and body is None: return
    M.funcs[name] = f

# ---------------------------------------------------------------- C emission
class Emitter:
    def __init__(s, M):
        s.M = M
        s.tydecl = []      # ordered struct definitions
        s.tyseen = {}      # key -> cname
        s.inprogress = set()
        s.fwd = []
        s.helpers = set()
        s.rename = dict(RENAME)   # per translation (obligations are translated concurrently: no module-level state)

    # ---- type -> C
    def resolve(s, t):
        while isinstance(t, NamedTy):
            t = s.M.named[t.name]
        return t

    def cty(s, t):
        """C type string usable as a prefix type (for pointers to functions use typedef)"""
        if isinstance(t, IntTy):
            b = t.bits
            if b == 1: return 'u8'
            if b <= 8: return 'u8'
            if b <= 16: return 'u16'
            if b <= 32: return 'u32'
            if b <= 64: return 'u64'
            if b <= 128: return 'u128'
            raise NotImplementedError('int width %d' % b)
        if isinstance(t, FloatTy):
            return {'float': 'float', 'double': 'double', 'x86_fp80': 'long double', 'half': 'float', 'fp128': 'long double'}[t.name]
        if isinstance(t, VoidTy): return 'void'
        if isinstance(t, PtrTy):
            to = t.to
            if isinstance(to, FnTy): return s.fnptr_typedef(to)
            if isinstance(to, VoidTy): return 'u8*'
            if isinstance(to, NamedTy):
                s.ensure_fwd(to.name)
                return 'struct ' + s.sname(to.name) + '*'
            return s.cty(to) + '*'
        if isinstance(t, NamedTy):
            s.ensure_def(t.name)
            return 'struct ' + s.sname(t.name)
        if isinstance(t, (StructTy, ArrTy, VecTy)):
            return 'struct ' + s.anon(t)
        if isinstance(t, FnTy):
            return s.fnptr_typedef(t)[:-0]  # should not be used by value
        if isinstance(t, MetaTy): return 'u64'
        raise NotImplementedError(repr(t))

    def sname(s, name): return 'S_' + cid(name)

    def ensure_fwd(s, name):
        k = '%' + name
        if k not in s.tyseen and k not in s.inprogress:
            if ('fwd', name) not in s.tyseen:
                s.tyseen[('fwd', name)] = True
                s.fwd.append('struct %s;' % s.sname(name))

    def int_only(s, t):
        t = s.resolve(t)
        if isinstance(t, IntTy): return True
        if isinstance(t, ArrTy): return s.int_only(t.el)
        if isinstance(t, StructTy): return t.fields is not None and all(s.int_only(f) for f in t.fields)
        return False
    def is_union(s, t):
        """C/C++ unions of integer / byte-array members (e.g. the small-string buffer of std::string) are emitted as plain byte
        arrays: byte accesses then stay array-element accesses (CBMC keeps them field-sensitive and propagates constants)
        instead of byte updates of the widest member."""
        if not isinstance(t, NamedTy) or not t.name.startswith('union.'): return False
        st = s.M.named[t.name]
        return isinstance(st, StructTy) and st.fields is not None and s.int_only(st)
    def field_offset(s, st, i):
        off = 0
        for j, f in enumerate(st.fields):
            sz, al = s.size_align(f)
            if st.packed: al = 1
            off = (off + al - 1) // al * al
            if j == i: return off
            off += sz
        raise IndexError

    def ensure_def(s, name):
        k = '%' + name
        if k in s.tyseen: return
        if k in s.inprogress: raise RuntimeError('recursive by-value type ' + name)
        s.inprogress.add(k)
        s.ensure_fwd(name)
        st = s.M.named[name]
        if isinstance(st, StructTy) and st.fields is None:
            s.tyseen[k] = True; s.inprogress.discard(k); return
        if s.is_union(NamedTy(name)):
            sz, al = s.size_align(st)
            body = '{ u8 b[%d]; } __attribute__((aligned(%d)))' % (sz, al)
        else:
            body = s.struct_body(st)
        s.tydecl.append('struct %s %s;' % (s.sname(name), body))
        s.tyseen[k] = True
        s.inprogress.discard(k)

    def struct_body(s, st):
        if isinstance(st, StructTy):
            fs = []
            for i, f in enumerate(st.fields):
                fs.append('%s f%d;' % (s.cty_field(f), i))
            if not fs: fs = ['u8 empty__[0];']
            return '{ %s }%s' % (' '.join(fs), ' __attribute__((packed))' if st.packed else '')
        if isinstance(st, (ArrTy, VecTy)):
            n = st.n
            return '{ %s a[%d]; }' % (s.cty_field(st.el), n)
        raise NotImplementedError

    def cty_field(s, f):
        return s.cty(f)

    def anon(s, t):
        k = t.key()
        if k in s.tyseen: return s.tyseen[k]
        name = 'L_' + hashlib.md5(k.encode()).hexdigest()[:10]
        s.tyseen[k] = name
        body = s.struct_body(t)
        s.tydecl.append('struct %s %s;' % (name, body))
        return name

    def fnptr_typedef(s, ft):
        k = 'fn:' + ft.key()
        if k in s.tyseen: return s.tyseen[k]
        name = 'FP_' + hashlib.md5(k.encode()).hexdigest()[:10]
        s.tyseen[k] = name
        ps = [s.cty(p) for p in ft.params]
        if ft.vararg: ps.append('...') if ps else None
        if not ps: ps = ['void'] if not ft.vararg else []
        s.tydecl.append('typedef %s (*%s)(%s);' % (s.cty(ft.ret), name, ', '.join(ps)))
        return name

    # ---- sizes (x86-64 data layout)
    def size_align(s, t):
        t0 = t
        t = s.resolve(t)
        if isinstance(t, IntTy):
            b = t.bits
            sz = 1 if b <= 8 else 2 if b <= 16 else 4 if b <= 32 else 8 if b <= 64 else 16
            return sz, sz
        if isinstance(t, FloatTy): return {'float': (4,4), 'double': (8,8), 'x86_fp80': (16,16), 'half': (2,2), 'fp128': (16,16)}[t.name]
        if isinstance(t, PtrTy): return 8, 8
        if isinstance(t, ArrTy):
            sz, al = s.size_align(t.el); return sz * t.n, al
        if isinstance(t, VecTy):
            sz, al = s.size_align(t.el); return sz * t.n, sz * t.n
        if isinstance(t, StructTy):
            off = 0; mal = 1
            for f in t.fields:
                sz, al = s.size_align(f)
                if t.packed: al = 1
                off = (off + al - 1) // al * al
                off += sz; mal = max(mal, al)
            off = (off + mal - 1) // mal * mal
            return off, mal
        raise NotImplementedError(repr(t))

    # ---- constant / value expression
    def vexpr(s, v, fn=None):
        k = v.kind
        t = v.ty
        if k == 'reg': return fn.reg(v.name)
        if k == 'glob':
            n = v.name
            if n in s.M.aliases: return '(%s)(%s)' % (s.cty(t), s.vexpr(s.M.aliases[n], fn))
            s.used_globals.add(n)
            if n in s.M.funcs:
                return '((%s)&%s)' % (s.cty(t), s.fname(n))
            return '((%s)&%s)' % (s.cty(t), s.gname(n))
        if k == 'int':
            rt = s.resolve(t)
            if isinstance(rt, IntTy):
                bits = rt.bits
                val = v.v & ((1 << bits) - 1)
                if bits > 64: return '((u128)%dULL<<64 | %dULL)' % (val >> 64, val & (2**64-1))
                return '((%s)%dULL)' % (s.cty(rt), val)
            raise NotImplementedError
        if k == 'fp':
            return fpconst(v.text, t)
        if k == 'null': return '((%s)0)' % s.cty(t)
        if k in ('undef', 'zero'):
            rt = s.resolve(t)
            if isinstance(rt, (IntTy, PtrTy, FloatTy)): return '((%s)0)' % s.cty(t)
            return '((%s){0})' % s.cty(t)
        if k == 'cstr':
            return '((%s){{%s}})' % (s.cty(t), ','.join(str(b) for b in v.data))
        if k == 'cstruct':
            if s.is_union(t): raise NotImplementedError('constant of union type')
            return '((%s){%s})' % (s.cty(t), ', '.join(s.vexpr(e, fn) for e in v.els) or '0')
        if k == 'carray':
            return '((%s){{%s}})' % (s.cty(t), ', '.join(s.vexpr(e, fn) for e in v.els) or '0')
        if k == 'cgep':
            return s.gep_expr(v.base_ty, v.ops, t, fn)
        if k == 'ccast':
            return s.cast_expr(v.op, v.x, t, fn)
        if k == 'cbin':
            return s.bin_expr(v.op, v.a, v.b, t, fn)
        if k == 'cicmp':
            return s.icmp_expr(v.pred, v.a, v.b, fn)
        if k == 'cselect':
            return '(%s ? %s : %s)' % (s.vexpr(v.c, fn), s.vexpr(v.a, fn), s.vexpr(v.b, fn))
        raise NotImplementedError(k)

    def init_expr(s, v):
        """initializer (brace form, no compound-literal casts at aggregate level)"""
        k = v.kind; t = v.ty
        if k == 'cstr': return '{{%s}}' % ','.join(str(b) for b in v.data)
        if k == 'cstruct':
            if s.is_union(t): raise NotImplementedError('constant of union type')
            return '{%s}' % (', '.join(s.init_expr(e) for e in v.els) or '0')
        if k == 'carray': return '{{%s}}' % (', '.join(s.init_expr(e) for e in v.els) or '0')
        if k in ('undef', 'zero'):
            rt = s.resolve(t)
            if isinstance(rt, (IntTy, PtrTy, FloatTy)): return '0'
            return '{0}'
        return s.vexpr(v, None)

    def gname(s, n): return 'g_' + cid(n) if not re.fullmatch(r'[A-Za-z_][A-Za-z0-9_]*', n) else n
    def fname(s, n):
        return s.rename.get(n, cid(n))

    def gep_expr(s, bt, ops, rty, fn):
        base = s.vexpr(ops[0], fn)
        cur = bt
        first = ops[1]
        e = '(%s)' % base
        idx0 = s.idx_expr(first, fn)
        if idx0 != '0':
            e = '(%s + %s)' % (e, idx0)
        path = ''
        if len(ops) > 2 or idx0 != '0':
            if isinstance(cur, NamedTy): s.ensure_def(cur.name)
        for o in ops[2:]:
            if isinstance(cur, NamedTy): s.ensure_def(cur.name)
            rc = s.resolve(cur)
            if s.is_union(cur):
                assert o.kind == 'int'
                ft = rc.fields[o.v]
                e = '((%s)&(*%s)%s.b[%d])' % (s.cty(PtrTy(ft)), e, path, s.field_offset(rc, o.v)); path = ''
                cur = ft
            elif isinstance(rc, StructTy):
                assert o.kind == 'int'
                path += '.f%d' % o.v
                cur = rc.fields[o.v]
            elif isinstance(rc, (ArrTy, VecTy)):
                path += '.a[%s]' % s.idx_expr(o, fn)
                cur = rc.el
            else:
                raise NotImplementedError('gep into ' + repr(rc))
        if path:
            e = '(&(*%s)%s)' % (e, path)
        return '((%s)%s)' % (s.cty(rty), e)

    def idx_expr(s, o, fn):
        if o.kind == 'int':
            bits = s.resolve(o.ty).bits
            v = o.v & ((1 << bits) - 1)
            if v >= 1 << (bits - 1): v -= 1 << bits
            return str(v)
        bits = s.resolve(o.ty).bits
        return '((i64)(i%d)%s)' % (max(bits, 8) if bits in (8, 16, 32, 64) else 64, s.vexpr(o, fn))

    def cast_expr(s, op, x, t, fn):
        e = s.vexpr(x, fn)
        ct = s.cty(t)
        if op in ('bitcast', 'addrspacecast'):
            rs, rd = s.resolve(x.ty), s.resolve(t)
            if isinstance(rs, PtrTy) and isinstance(rd, PtrTy): return '((%s)%s)' % (ct, e)
            if isinstance(rs, IntTy) and isinstance(rd, IntTy): return e
            s.helpers.add('pun')
            return 'PUN(%s, %s, %s)' % (ct, s.cty(x.ty), e)
        if op == 'inttoptr': return '((%s)(u64)%s)' % (ct, e)
        if op == 'ptrtoint': return '((%s)(u64)%s)' % (ct, e)
        if op == 'trunc': return s.mask('((%s)%s)' % (ct, e), t)
        if op == 'zext': return '((%s)%s)' % (ct, e)
        if op == 'sext':
            sb = s.resolve(x.ty).bits
            if sb == 1: return '((%s)(-(i64)(%s & 1)))' % (ct, e)
            return s.mask('((%s)(i64)(i%d)%s)' % (ct, sb, e), t)
        if op in ('fptoui', 'fptosi', 'uitofp', 'fpext', 'fptrunc'): return '((%s)%s)' % (ct, e)
        if op == 'sitofp':
            sb = s.resolve(x.ty).bits
            return '((%s)(i%d)%s)' % (ct, sb, e)
        raise NotImplementedError(op)

    def mask(s, e, t):
        rt = s.resolve(t)
        if isinstance(rt, IntTy) and rt.bits not in (8, 16, 32, 64, 128):
            return '(%s & %dULL)' % (e, (1 << rt.bits) - 1)
        return e

    def bin_expr(s, op, a, b, t, fn):
        ea, eb = s.vexpr(a, fn), s.vexpr(b, fn)
        rt = s.resolve(t)
        ct = s.cty(t)
        if isinstance(rt, FloatTy):
            o = {'fadd': '+', 'fsub': '-', 'fmul': '*', 'fdiv': '/'}[op]
            return '(%s %s %s)' % (ea, o, eb)
        bits = rt.bits
        sct = 'i%d' % (8 if bits <= 8 else 16 if bits <= 16 else 32 if bits <= 32 else 64 if bits <= 64 else 128)
        def sx(e):
            if bits in (8, 16, 32, 64, 128): return '((%s)%s)' % (sct, e)
            sh = int(sct[1:]) - bits
            return '((%s)((%s)(%s << %d) >> %d))' % (sct, sct, e, sh, sh)
        simple = {'add': '+', 'sub': '-', 'mul': '*', 'and': '&', 'or': '|', 'xor': '^', 'udiv': '/', 'urem': '%'}
        if op in simple: r = '((%s)(%s %s %s))' % (ct, ea, simple[op], eb)
        elif op == 'shl': r = '((%s)(%s << %s))' % (ct, ea, eb)
        elif op == 'lshr': r = '((%s)(%s >> %s))' % (ct, ea, eb)
        elif op == 'ashr': r = '((%s)(%s >> %s))' % (ct, sx(ea), eb)
        elif op == 'sdiv': r = '((%s)(%s / %s))' % (ct, sx(ea), sx(eb))
        elif op == 'srem': r = '((%s)(%s %% %s))' % (ct, sx(ea), sx(eb))
        else: raise NotImplementedError(op)
        return s.mask(r, t)

    def icmp_expr(s, pred, a, b, fn):
        ea, eb = s.vexpr(a, fn), s.vexpr(b, fn)
        rt = s.resolve(a.ty)
        if isinstance(rt, PtrTy):
            ea, eb = '((u8*)%s)' % ea, '((u8*)%s)' % eb
            bits = 64
            if pred in ('slt', 'sle', 'sgt', 'sge'): pred = 'u' + pred[1:]
        else: bits = rt.bits
        if pred in ('eq', 'ne', 'ult', 'ule', 'ugt', 'uge'):
            o = {'eq': '==', 'ne': '!=', 'ult': '<', 'ule': '<=', 'ugt': '>', 'uge': '>='}[pred]
            return '((u8)(%s %s %s))' % (ea, o, eb)
        o = {'slt': '<', 'sle': '<=', 'sgt': '>', 'sge': '>='}[pred]
        w = 8 if bits <= 8 else 16 if bits <= 16 else 32 if bits <= 32 else 64 if bits <= 64 else 128
        def sx(e):
            if bits == w: return '((i%d)%s)' % (w, e)
            sh = w - bits
            return '((i%d)((i%d)(%s << %d) >> %d))' % (w, w, e, sh, sh)
        return '((u8)(%s %s %s))' % (sx(ea), o, sx(eb))

def fpconst(text, t):
    if text.startswith('0x'):
        import struct
        h = text[2:]
        if h[0] in 'KMLHR': return '0.0'
        d = struct.unpack('>d', bytes.fromhex(h.rjust(16, '0')))[0]
        return repr(d)
    return text

RENAME = {'bcmp': 'memcmp', 'nondet_ulong': 'vnd_ulong', 'nondet_uint': 'vnd_uint', 'nondet_uchar': 'vnd_uchar'}

# ---------------------------------------------------------------- function translation
class Fn:
    def __init__(s, E, f):
        s.E = E; s.f = f; s.regs = {}; s.decls = []; s.out = []
        s.pcount = 0
    def reg(s, name):
        return 'r_' + cid(name) if not name.isdigit() else 'r' + name
    def declare(s, name, ty):
        if name in s.regs: return
        s.regs[name] = ty
    def translate(s):
        E = s.E; f = s.f
        # split into basic blocks
        blocks = []; cur = None
        first_unnamed = len([p for p in f['params']])
        for ln in f['body']:
            if not ln.strip(): continue
            m = re.match(r'^([-a-zA-Z$._0-9]+|"[^"]*"):', ln)
            if m and not ln.startswith(' '):
                cur = dict(name=nm(m.group(1)), ins=[]); blocks.append(cur); continue
            if cur is None:
                cur = dict(name='entry__', ins=[]); blocks.append(cur)
            if (ln.strip().startswith(('to label', 'catch ', 'filter ')) or ln.strip() == 'cleanup') and cur['ins']:
                cur['ins'][-1] += ' ' + ln.strip(); continue
            cur['ins'].append(ln.strip())
        # multi-line switch handling: join lines until ']' closes
        for b in blocks:
            joined = []; acc = None
            for ln in b['ins']:
                if acc is not None:
                    acc += ' ' + ln
                    if ln.strip().startswith(']'):      # "]" possibly followed by ", !llvm.loop !N"
                        joined.append(acc); acc = None
                    continue
                if ln.startswith('switch ') and not ln.rstrip().endswith(']'):
                    acc = ln; continue
                joined.append(ln)
            if acc is not None: raise RuntimeError('unterminated switch in block %s of %s' % (b['name'], f['name']))
            b['ins'] = joined
        # parse instructions
        s.blocks = blocks
        s.defs = {}
        for b in blocks:
            b['parsed'] = [s.parse_ins(ln) for ln in b['ins']]
            for I in b['parsed']:
                if I.get('dst') is not None: s.defs[I['dst']] = I
        # integer stack slots that are also viewed as byte arrays (e.g. the 8-byte scratch buffer of ByteString(unsigned long),
        # which clang types as one i64): keep them as byte arrays, full-width accesses are composed from the bytes
        s.byte_allocas = set()
        for b in blocks:
            for I in b['parsed']:
                if I['op'] == 'bitcast' and I['x'].kind == 'reg' and I['x'].name in s.defs:
                    A = s.defs[I['x'].name]
                    if A['op'] == 'alloca' and isinstance(s.E.resolve(A['aty']), IntTy) and s.E.resolve(A['aty']).bits in (16, 32, 64) and (A['cnt'] is None):
                        tt = s.E.resolve(I['ty'])
                        if isinstance(tt, PtrTy) and s.bytes_at(tt.to, s.E.resolve(A['aty']).bits // 8): s.byte_allocas.add(I['x'].name)
        # the entry block label for phi purposes: entry block unnamed gets number = #params (unnamed count)
        # find entry name used by phis: LLVM numbers it after the unnamed params
        if blocks[0]['name'] == 'entry__':
            nparams_unnamed = 0
            for (t, pn, a) in f['params']:
                if pn is None or pn.isdigit(): nparams_unnamed += 1
            blocks[0]['name'] = str(nparams_unnamed)
        # collect phi info
        phis = {}  # (pred, succ) -> list of (dstreg, val)
        for b in blocks:
            for ins in b['parsed']:
                if ins['op'] == 'phi':
                    for (v, pred) in ins['incoming']:
                        phis.setdefault((pred, b['name']), []).append((ins['dst'], v, ins['ty']))
        s.phis = phis
        body = []
        for b in blocks:
            body.append('%s: ;' % s.label(b['name']))
            s.curblock = b['name']
            for ins in b['parsed']:
                s.emit_ins(ins, body)
        # header
        ps = []
        for i, (t, pn, a) in enumerate(f['params']):
            pn = pn if pn is not None else str(i)
            ps.append('%s %s' % (E.cty(t), s.reg(pn)))
        if f['vararg']: ps.append('...')
        head = '%s %s(%s)' % (E.cty(f['ret']), E.fname(f['name']), ', '.join(ps) or 'void')
        decls = []
        pnames = set((pn if pn is not None else str(i)) for i, (t, pn, a) in enumerate(f['params']))
        for r, t in s.regs.items():
            if r in pnames: continue
            decls.append('  %s %s;' % (E.cty(t), s.reg(r)))
        decls += s.decls
        return head, '%s {\n%s\n%s\n}\n' % (head, '\n'.join(decls), '\n'.join('  ' + x for x in body))

    def label(s, n): return 'L_' + cid(n) if not n.isdigit() else 'L' + n

    def parse_ins(s, ln):
        # strip metadata suffixes
        ln = re.sub(r',\s*![a-zA-Z_.0-9]+ ![0-9]+', '', ln)
        ln = re.sub(r',\s*!srcloc ![0-9]+', '', ln)
        p = Parser(tokenize(ln))
        dst = None
        if p.peek()[0] == 'lid' and p.peek(1)[1] == '=':
            dst = nm(p.next()[1][1:]); p.next()
        while p.peek()[1] in CCONV: p.next()
        op = p.next()[1]
        I = dict(op=op, dst=dst, raw=ln)
        if op in ('add','sub','mul','and','or','xor','shl','lshr','ashr','udiv','sdiv','urem','srem','fadd','fsub','fmul','fdiv','frem'):
            while p.peek()[1] in FMF: p.next()
            t = p.ty(); a = p.value(t); p.expect(','); b = p.value(t)
            I.update(ty=t, a=a, b=b)
        elif op == 'icmp' or op == 'fcmp':
            while p.peek()[1] in FMF: p.next()
            pred = p.next()[1]; t = p.ty(); a = p.value(t); p.expect(','); b = p.value(t)
            I.update(pred=pred, ty=IntTy(1), a=a, b=b)
        elif op == 'alloca':
            while p.peek()[1] in ('inalloca',): p.next()
            t = p.ty(); cnt = None
            if p.accept(','):
                if p.peek()[1] == 'align': p.next(); p.next()
                else:
                    cnt = p.tval()
            I.update(aty=t, ty=PtrTy(t), cnt=cnt)
        elif op == 'load':
            while p.peek()[1] in FMF: p.next()
            t = p.ty(); p.expect(','); pt = p.ty(); ptr = p.value(pt)
            I.update(ty=t, ptr=ptr)
        elif op == 'store':
            while p.peek()[1] in FMF: p.next()
            v = p.tval(); p.expect(','); ptr = p.tval()
            I.update(val=v, ptr=ptr)
        elif op == 'getelementptr':
            while p.peek()[1] in FMF: p.next()
            bt = p.ty(); p.expect(',')
            ops = []
            while True:
                ops.append(p.tval())
                if not p.accept(','): break
            I.update(base_ty=bt, ops=ops)
        elif op in ('bitcast','inttoptr','ptrtoint','trunc','zext','sext','fptoui','fptosi','uitofp','sitofp','fpext','fptrunc','addrspacecast'):
            x = p.tval(); p.expect('to'); t = p.ty()
            I.update(x=x, ty=t)
        elif op == 'select':
            while p.peek()[1] in FMF: p.next()
            c = p.tval(); p.expect(','); a = p.tval(); p.expect(','); b = p.tval()
            I.update(c=c, a=a, b=b, ty=a.ty)
        elif op == 'phi':
            while p.peek()[1] in FMF: p.next()
            t = p.ty(); inc = []
            while True:
                p.expect('['); v = p.value(t); p.expect(','); lab = nm(p.next()[1][1:]); p.expect(']')
                inc.append((v, lab))
                if not p.accept(','): break
            I.update(ty=t, incoming=inc)
        elif op == 'br':
            if p.peek()[1] == 'label':
                p.next(); I.update(target=nm(p.next()[1][1:]), cond=None)
            else:
                c = p.tval(); p.expect(','); p.expect('label'); t1 = nm(p.next()[1][1:]); p.expect(','); p.expect('label'); t2 = nm(p.next()[1][1:])
                I.update(cond=c, t=t1, f=t2)
        elif op == 'switch':
            v = p.tval(); p.expect(','); p.expect('label'); d = nm(p.next()[1][1:]); p.expect('[')
            cases = []
            while not p.accept(']'):
                cv = p.tval(); p.expect(','); p.expect('label'); cases.append((cv, nm(p.next()[1][1:])))
            I.update(val=v, default=d, cases=cases)
        elif op == 'ret':
            t = p.ty()
            if isinstance(t, VoidTy): I.update(val=None)
            else: I.update(val=p.value(t))
        elif op in ('call', 'invoke'):
            while p.peek()[1] in FMF or p.peek()[1] in CCONV: p.next()
            p.param_attrs()
            rt = p.ty()
            fty = None
            if isinstance(rt, FnTy): fty = rt; rt = fty.ret
            elif isinstance(rt, PtrTy) and isinstance(rt.to, FnTy) and p.peek()[0] not in ('lid', 'gid'):
                pass
            callee_tok = p.peek()
            if callee_tok[0] in ('lid', 'gid'):
                p.next()
                callee = Val('reg' if callee_tok[0] == 'lid' else 'glob', None, name=nm(callee_tok[1][1:]))
            elif callee_tok[1] in ('bitcast', 'inttoptr'):
                callee = p.value(None)
            elif callee_tok[1] == 'asm':
                I.update(op='asm'); return I
            else: raise SyntaxError('callee? ' + ln)
            p.expect('(')
            args = []
            while not p.accept(')'):
                t = p.ty(); a = p.param_attrs()
                if isinstance(t, MetaTy):
                    # skip metadata arg (remember a string operand: llvm.type.test carries the static class name)
                    depth = 0; mstr = None
                    while not (depth == 0 and p.peek()[1] in (',', ')')):
                        if p.peek()[1] in ('(', '{'): depth += 1
                        if p.peek()[1] in (')', '}'): depth -= 1
                        tk = p.next()
                        if tk[0] == 'str': mstr = tk[1].strip('"')
                    a = dict(a); a['metastr'] = mstr
                    args.append((None, a))
                else:
                    args.append((p.value(t), a))
                p.accept(',')
            I.update(ty=rt, fty=fty, callee=callee, args=args)
            if op == 'invoke':
                # skip attrs until 'to'
                while p.peek()[1] != 'to': p.next()
                p.next(); p.expect('label'); I['normal'] = nm(p.next()[1][1:])
                p.expect('unwind'); p.expect('label'); I['unwind'] = nm(p.next()[1][1:])
        elif op == 'extractvalue':
            a = p.tval(); idx = []
            while p.accept(','): idx.append(int(p.next()[1]))
            I.update(a=a, idx=idx)
        elif op == 'insertvalue':
            a = p.tval(); p.expect(','); b = p.tval(); idx = []
            while p.accept(','): idx.append(int(p.next()[1]))
            I.update(a=a, b=b, idx=idx, ty=a.ty)
        elif op in ('unreachable',): pass
        elif op == 'landingpad': I.update(ty=p.ty())
        elif op == 'resume': pass
        elif op == 'freeze':
            x = p.tval(); I.update(x=x, ty=x.ty)
        elif op == 'fneg':
            while p.peek()[1] in FMF: p.next()
            x = p.tval(); I.update(x=x, ty=x.ty)
        elif op == 'atomicrmw':
            while p.peek()[1] in FMF: p.next()
            bop = p.next()[1]; ptr = p.tval(); p.expect(','); v = p.tval()
            I.update(bop=bop, ptr=ptr, val=v, ty=v.ty)
        elif op == 'cmpxchg':
            while p.peek()[1] in FMF or p.peek()[1] == 'weak': p.next()
            ptr = p.tval(); p.expect(','); c = p.tval(); p.expect(','); n = p.tval()
            I.update(ptr=ptr, cmp=c, new=n, ty=StructTy([c.ty, IntTy(1)], False))
        elif op == 'fence': pass
        else:
            raise NotImplementedError('op %s in %s' % (op, ln))
        return I

    def edge_code(s, pred, succ):
        """phi copies for edge pred->succ then goto"""
        E = s.E
        lst = s.phis.get((pred, succ), [])
        code = []
        if len(lst) == 1:
            d, v, t = lst[0]; s.declare(d, t)
            code.append('%s = %s;' % (s.reg(d), E.vexpr(v, s)))
        elif lst:
            tmps = []
            for d, v, t in lst:
                s.declare(d, t)
                tn = 'phi_tmp_%d' % s.pcount; s.pcount += 1
                s.decls.append('  %s %s;' % (E.cty(t), tn))
                code.append('%s = %s;' % (tn, E.vexpr(v, s)))
                tmps.append((d, tn))
            for d, tn in tmps: code.append('%s = %s;' % (s.reg(d), tn))
        code.append('goto %s;' % s.label(succ))
        return ' '.join(code)

    def emit_ins(s, I, out):
        E = s.E; op = I['op']; d = I['dst']
        def setdst(ty, expr):
            rt = E.resolve(ty)
            s.declare(d, ty)
            out.append('%s = %s;' % (s.reg(d), expr))
        if op in ('add','sub','mul','and','or','xor','shl','lshr','ashr','udiv','sdiv','urem','srem','fadd','fsub','fmul','fdiv'):
            e = E.bin_expr(op, I['a'], I['b'], I['ty'], s)
            if E.resolve(I['ty']).__class__ is IntTy and E.resolve(I['ty']).bits == 1: e = '(%s & 1)' % e
            setdst(I['ty'], e)
        elif op == 'icmp': setdst(IntTy(1), E.icmp_expr(I['pred'], I['a'], I['b'], s))
        elif op == 'fcmp':
            o = {'oeq':'==','one':'!=','olt':'<','ole':'<=','ogt':'>','oge':'>=','ueq':'==','une':'!=','ult':'<','ule':'<=','ugt':'>','uge':'>='}.get(I['pred'])
            setdst(IntTy(1), '((u8)(%s %s %s))' % (E.vexpr(I['a'], s), o, E.vexpr(I['b'], s)))
        elif op == 'alloca':
            sn = 'st_' + s.reg(d)
            if I['cnt'] is None or I['cnt'].kind == 'int':
                n = 1 if I['cnt'] is None else I['cnt'].v
                if d in s.byte_allocas:
                    nb = E.resolve(I['aty']).bits // 8
                    s.decls.append('  u8 %s[%d] __attribute__((aligned(%d)));' % (sn, nb, nb)); e = '((%s)&%s[0])' % (E.cty(I['ty']), sn)
                elif n == 1: s.decls.append('  %s %s;' % (E.cty(I['aty']), sn)); e = '&%s' % sn
                else: s.decls.append('  %s %s[%d];' % (E.cty(I['aty']), sn, n)); e = '&%s[0]' % sn
                setdst(I['ty'], e)
            else:
                sz, _ = E.size_align(I['aty'])
                setdst(I['ty'], '((%s)malloc(%d * (u64)%s))' % (E.cty(I['ty']), sz, E.vexpr(I['cnt'], s)))
        elif op == 'load':
            rt = E.resolve(I['ty']); bo = None
            if isinstance(rt, IntTy) and rt.bits in (16, 32, 64): bo = s.byte_origin(I['ptr'], rt.bits // 8)
            if bo is not None:      # wide load from byte storage: compose from the bytes (little endian)
                ct = E.cty(rt); s.declare(d, I['ty'])
                out.append('{ u8* bp_ = (u8*)%s; %s = %s; }' % (E.vexpr(bo, s), s.reg(d), ' | '.join('((%s)bp_[%d] << %d)' % (ct, i, 8 * i) for i in range(rt.bits // 8))))
            else: setdst(I['ty'], '*%s' % E.vexpr(I['ptr'], s))
        elif op == 'store':
            rt = E.resolve(I['val'].ty); bo = None
            if isinstance(rt, IntTy) and rt.bits in (16, 32, 64): bo = s.byte_origin(I['ptr'], rt.bits // 8)
            if bo is not None:      # wide store into byte storage: byte by byte
                ct = E.cty(rt)
                out.append('{ u8* bp_ = (u8*)%s; %s bv_ = %s; %s }' % (E.vexpr(bo, s), ct, E.vexpr(I['val'], s), ' '.join('bp_[%d] = (u8)(bv_ >> %d);' % (i, 8 * i) for i in range(rt.bits // 8))))
            else: out.append('*%s = %s;' % (E.vexpr(I['ptr'], s), E.vexpr(I['val'], s)))
        elif op == 'getelementptr':
            # result type: compute
            rty = s.gep_type(I['base_ty'], I['ops'])
            I['ty'] = rty
            setdst(rty, E.gep_expr(I['base_ty'], I['ops'], rty, s))
        elif op in ('bitcast','inttoptr','ptrtoint','trunc','zext','sext','fptoui','fptosi','uitofp','sitofp','fpext','fptrunc','addrspacecast'):
            setdst(I['ty'], E.cast_expr(op, I['x'], I['ty'], s))
        elif op == 'select':
            setdst(I['ty'], '(%s ? %s : %s)' % (E.vexpr(I['c'], s), E.vexpr(I['a'], s), E.vexpr(I['b'], s)))
        elif op == 'phi': s.declare(d, I['ty'])
        elif op == 'freeze': setdst(I['ty'], E.vexpr(I['x'], s))
        elif op == 'fneg': setdst(I['ty'], '(-%s)' % E.vexpr(I['x'], s))
        elif op == 'br':
            if I['cond'] is None: out.append(s.edge_code(s.curblock, I['target']))
            else:
                out.append('if (%s) { %s } else { %s }' % (E.vexpr(I['cond'], s), s.edge_code(s.curblock, I['t']), s.edge_code(s.curblock, I['f'])))
        elif op == 'switch':
            v = E.vexpr(I['val'], s)
            out.append('switch (%s) {' % v)
            for cv, lab in I['cases']:
                out.append('  case %s: { %s }' % (E.vexpr(cv, s), s.edge_code(s.curblock, lab)))
            out.append('  default: { %s }' % s.edge_code(s.curblock, I['default']))
            out.append('}')
        elif op == 'ret':
            if I['val'] is None: out.append('return;')
            else: out.append('return %s;' % E.vexpr(I['val'], s))
        elif op == 'unreachable': out.append('IR_UNREACHABLE();')
        elif op in ('call', 'invoke'):
            s.emit_call(I, out)
            if op == 'invoke': out.append(s.edge_code(s.curblock, I['normal']))
        elif op == 'extractvalue':
            t = I['a'].ty; path = ''
            for i in I['idx']:
                rt = E.resolve(t)
                if E.is_union(t): raise NotImplementedError('extractvalue / insertvalue into a union')
                if isinstance(rt, StructTy): path += '.f%d' % i; t = rt.fields[i]
                else: path += '.a[%d]' % i; t = rt.el
            setdst(t, '(%s)%s' % (E.vexpr(I['a'], s), path))
        elif op == 'insertvalue':
            t = I['a'].ty; path = ''
            for i in I['idx']:
                rt = E.resolve(t)
                if E.is_union(t): raise NotImplementedError('extractvalue / insertvalue into a union')
                if isinstance(rt, StructTy): path += '.f%d' % i; t = rt.fields[i]
                else: path += '.a[%d]' % i; t = rt.el
            setdst(I['ty'], E.vexpr(I['a'], s))
            out.append('%s%s = %s;' % (s.reg(d), path, E.vexpr(I['b'], s)))
        elif op == 'landingpad':
            s.declare(d, I['ty']); out.append('IR_LANDINGPAD();')
        elif op == 'resume': out.append('IR_RESUME();')
        elif op == 'atomicrmw':
            p = E.vexpr(I['ptr'], s); v = E.vexpr(I['val'], s)
            setdst(I['ty'], '*%s' % p)
            o = {'add': '+', 'sub': '-', 'and': '&', 'or': '|', 'xor': '^'}.get(I['bop'])
            if I['bop'] == 'xchg': out.append('*%s = %s;' % (p, v))
            else: out.append('*%s = *%s %s %s;' % (p, p, o, v))
        elif op == 'cmpxchg':
            p = E.vexpr(I['ptr'], s)
            s.declare(d, I['ty'])
            out.append('%s.f0 = *%s; %s.f1 = (%s.f0 == %s); if (%s.f1) *%s = %s;' % (s.reg(d), p, s.reg(d), s.reg(d), E.vexpr(I['cmp'], s), s.reg(d), p, E.vexpr(I['new'], s)))
        elif op == 'fence': pass
        elif op == 'asm': out.append('/* inline asm dropped */')
        else: raise NotImplementedError(op)

    def bytes_at(s, T, n):
        """are the first n bytes of a T all 1-byte integer leaves?"""
        E = s.E; rt = E.resolve(T)
        if isinstance(rt, IntTy): return rt.bits == 8 and n >= 1
        if not isinstance(rt, (StructTy, ArrTy)): return False
        if isinstance(rt, StructTy) and rt.fields is None: return False
        lv = []
        try: s.leaves(T, 0, '', lv, n)
        except Exception: return False
        if not lv or any(l is None for l in lv): return False
        return len(lv) >= n and all(sz == 1 and isinstance(t, IntTy) and off == i for i, (off, sz, path, t) in enumerate(lv[:n]))
    def byte_origin(s, ptr, n):
        """if the pointer of an n-byte integer access is (behind bitcasts) a pointer to byte storage, return that pointer value"""
        E = s.E
        v = s.strip_cast(ptr)
        if v.kind == 'reg' and v.name in s.byte_allocas: return v
        if v is ptr: return None
        t = E.resolve(v.ty)
        if not isinstance(t, PtrTy): return None
        rt = E.resolve(t.to)
        if isinstance(rt, IntTy): return v if rt.bits == 8 else None
        return v if s.bytes_at(t.to, n) else None
    def strip_cast(s, v):
        # look through bitcasts / zero GEPs to the original typed pointer
        while v.kind == 'reg' and v.name in s.defs:
            I = s.defs[v.name]
            if I['op'] == 'bitcast' and isinstance(s.E.resolve(I['x'].ty), PtrTy): v = I['x']
            else: break
        while v.kind == 'ccast' and v.op == 'bitcast': v = v.x
        return v
    def leaves(s, t, off, path, out, limit):
        E = s.E
        rt = E.resolve(t)
        if isinstance(t, NamedTy): E.ensure_def(t.name)
        if E.is_union(t):
            for i in range(E.size_align(rt)[0]):
                if off + i >= limit: break
                out.append((off + i, 1, path + '.b[%d]' % i, IntTy(8)))
        elif isinstance(rt, StructTy):
            o = 0
            for i, f in enumerate(rt.fields):
                sz, al = E.size_align(f)
                if rt.packed: al = 1
                o = (o + al - 1) // al * al
                if off + o >= limit: break
                s.leaves(f, off + o, path + '.f%d' % i, out, limit)
                o += sz
        elif isinstance(rt, ArrTy):
            sz, al = E.size_align(rt.el)
            if rt.n > 64: out.append(None); return
            for i in range(rt.n):
                if off + i * sz >= limit: break
                s.leaves(rt.el, off + i * sz, path + '.a[%d]' % i, out, limit)
        else:
            sz, al = E.size_align(rt)
            out.append((off, sz, path, rt))
    def typed_copy(s, dst, src, n):
        E = s.E
        d = s.strip_cast(dst)
        dt = E.resolve(d.ty)
        if not isinstance(dt, PtrTy): return None
        T = dt.to
        if not isinstance(E.resolve(T), (StructTy, ArrTy)): return None
        if isinstance(E.resolve(T), StructTy) and E.resolve(T).fields is None: return None
        if src is not None:
            sv = s.strip_cast(src)
            st = E.resolve(sv.ty)
            if not isinstance(st, PtrTy) or st.to.key() != T.key(): return None
        lv = []
        s.leaves(T, 0, '', lv, n)
        if any(l is None for l in lv): return None
        code = []
        for (off, sz, path, rt) in lv:
            if off + sz > n: return None
            if src is not None: code.append('(*%s)%s = (*%s)%s;' % (E.vexpr(d, s), path, E.vexpr(sv, s), path))
            else: code.append('(*%s)%s = 0;' % (E.vexpr(d, s), path))
        # every byte must be covered except padding: accept (padding bytes carry no value)
        return code
    def gep_type(s, bt, ops):
        E = s.E; cur = bt
        for o in ops[2:]:
            rc = E.resolve(cur)
            if isinstance(rc, StructTy): cur = rc.fields[o.v]
            else: cur = rc.el
        return PtrTy(cur)

    def emit_call(s, I, out):
        E = s.E; c = I['callee']; d = I['dst']
        rt = I['ty']
        args = [a for a in I['args']]
        if c.kind == 'glob' and c.name.startswith('llvm.'):
            return s.emit_intrinsic(I, out)
        if c.kind == 'glob' and c.name in ('_Znwm', '_Znam') and d is not None and args and args[0][0].kind == 'int':
            # typed allocation: if the result is cast to a pointer to a struct of exactly this size, allocate an object
            # of that type (CBMC then keeps the fields as separate SSA symbols instead of a byte array)
            n = args[0][0].v; ty = None
            for b in s.blocks:
                for J in b['parsed']:
                    if J['op'] == 'bitcast' and J['x'].kind == 'reg' and J['x'].name == d:
                        t = E.resolve(J['ty'])
                        if isinstance(t, PtrTy) and isinstance(J['ty'].to if isinstance(J['ty'], PtrTy) else None, NamedTy):
                            st = E.resolve(t.to)
                            if isinstance(st, StructTy) and st.fields is not None and E.size_align(t.to)[0] == n: ty = J['ty'].to; break
                if ty is not None: break
            if ty is not None:
                s.declare(d, rt)
                out.append('%s = (u8*)IR_NEW_TYPED(%s);' % (s.reg(d), E.cty(ty)))
                return
        if c.kind == 'glob' and c.name == '__cxa_atexit':
            if d is not None: s.declare(d, rt); out.append('%s = 0;' % s.reg(d))
            return
        if c.kind == 'glob' and c.name in ('vassert_', 'vassume_', 'vreach_'):
            A = [a[0] for a in args]
            if c.name == 'vassume_': out.append('VASSUME(%s);' % E.vexpr(A[0], s)); return
            idv = A[-1]
            if idv.kind != 'int': raise NotImplementedError('non-constant id in %s' % c.name)
            if c.name == 'vassert_': out.append('VASSERT(%s, %d);' % (E.vexpr(A[0], s), idv.v))
            else: out.append('VREACH(%d);' % idv.v)
            return
        # build arg expressions; if callee is a known function, cast args to its declared param types
        aexprs = []
        target_params = None
        if c.kind == 'glob':
            n = c.name
            if n in E.M.aliases and E.M.aliases[n].kind == 'glob': n = E.M.aliases[n].name
            E.used_funcs.add(n)
            if n in E.M.funcs:
                target_params = E.M.funcs[n]['params']
            fexpr = E.fname(n)
        else:
            # indirect: callee is a typed function pointer value; build type from call
            fty = I['fty'] or FnTy(rt, [a[0].ty for a in args if a[0] is not None], False)
            dv = s.devirtualise(I, fty, args, out) if c.kind == 'reg' else False
            if dv: return
            if c.kind in ('reg',):
                fexpr = '((%s)%s)' % (E.fnptr_typedef(fty), s.reg(c.name))
            else:
                c.ty = PtrTy(fty) if c.ty is None else c.ty
                fexpr = '((%s)%s)' % (E.fnptr_typedef(fty), E.vexpr(c, s))
        for i, (a, attrs) in enumerate(args):
            if a is None: aexprs.append('0'); continue
            e = E.vexpr(a, s)
            if 'byval' in attrs:
                tn = 'byval_tmp_%d' % s.pcount; s.pcount += 1
                s.decls.append('  %s %s;' % (E.cty(attrs['byval']), tn))
                out.append('%s = *%s;' % (tn, e))
                e = '&' + tn
            if target_params is not None and i < len(target_params):
                pt = target_params[i][0]
                if pt.key() != a.ty.key():
                    e = '((%s)%s)' % (E.cty(pt), e)
            aexprs.append(e)
        call = '%s(%s)' % (fexpr, ', '.join(aexprs))
        if isinstance(E.resolve(rt), VoidTy) or d is None:
            out.append(call + ';')
        else:
            s.declare(d, rt)
            if c.kind == 'glob' and n in E.M.funcs and E.M.funcs[n]['ret'].key() != rt.key():
                call = '((%s)%s)' % (E.cty(rt), call)
            out.append('%s = %s;' % (s.reg(d), call))


    def vtables(s):
        """all vtable globals of the module: list of (global name, array index, [element Val...])"""
        E = s.E
        if hasattr(E, '_vtables'): return E._vtables
        vts = []
        for g, gi in E.M.globals.items():
            if not g.startswith('_ZTV') or gi['init'] is None or gi['init'].kind != 'cstruct': continue
            for ai, arr in enumerate(gi['init'].els):
                if arr.kind == 'carray': vts.append((g, ai, arr.els))
        E._vtables = vts
        return vts



    def type_test_class(s, vtreg):
        """static class of a virtual call from clang's llvm.type.test(vtable, !"_ZTS<class>") (-fwhole-program-vtables)"""
        if not hasattr(s, '_tt'):
            s._tt = {}
            for b in s.blocks:
                for J in b['parsed']:
                    if J['op'] == 'call' and J['callee'].kind == 'glob' and J['callee'].name.startswith(('llvm.type.test', 'llvm.public.type.test')) and len(J['args']) == 2:
                        a0 = J['args'][0][0]; ms = J['args'][1][1].get('metastr')
                        if a0 is None or not ms or not ms.startswith('_ZTS'): continue
                        v = a0
                        while v.kind == 'reg' and v.name in s.defs and s.defs[v.name]['op'] == 'bitcast': v = s.defs[v.name]['x']
                        if v.kind == 'reg': s._tt[v.name] = ms[4:]
        c = s._tt.get(vtreg)
        if c and ('_ZTI' + c) in s.E.M.globals: return c
        return None

    def static_class(s, fty, this_i=0):
        """mangled class name of the static receiver type of a virtual call (None if unknown / unreliable)"""
        E = s.E
        if len(fty.params) <= this_i: return None
        t = fty.params[this_i]
        if not isinstance(t, PtrTy) or not isinstance(t.to, NamedTy): return None
        nme = t.to.name
        m = re.match(r'^(class|struct)\.([A-Za-z_][A-Za-z0-9_]*)(\.\d+)?$', nme)
        if not m: return None
        st = E.resolve(t.to)
        # vptr-only classes are structurally identical: llvm-link may have merged them under another class's name
        if not isinstance(st, StructTy) or st.fields is None or len(st.fields) <= 1: return None
        cls = m.group(2); mang = '%d%s' % (len(cls), cls)
        if ('_ZTI' + mang) not in E.M.globals: return None
        return mang

    def derived_classes(s, mang):
        """set of mangled class names equal to or derived from mang (from the typeinfo objects of the module)"""
        E = s.E
        if not hasattr(E, '_bases'):
            bases = {}
            for g, gi in E.M.globals.items():
                if not g.startswith('_ZTI') or gi['init'] is None or gi['init'].kind != 'cstruct': continue
                bs = []
                for e in gi['init'].els[2:]:
                    x = e
                    while x.kind == 'ccast': x = x.x
                    if x.kind == 'glob' and x.name.startswith('_ZTI'): bs.append(x.name[4:])
                bases[g[4:]] = bs
            E._bases = bases
        res = set()
        def isder(c, seen=()):
            if c == mang: return True
            return any(isder(b, seen + (c,)) for b in E._bases.get(c, []) if b not in seen)
        for c in E._bases:
            if isder(c): res.add(c)
        res.add(mang)
        return res

    def devirtualise(s, I, fty, args, out):
        """virtual call pattern: f = load (gep (load vptr), k); call f(...)  ->  cascade over the vtables of the module
        whose slot k holds a function of the same signature (CBMC's own function-pointer removal considers every
        address-taken function of a compatible type, which makes symex explore dozens of unrelated callees)."""
        E = s.E; c = I['callee']
        D = s.defs.get(c.name)
        if D is None or D['op'] != 'load': return False
        pv = D['ptr']; k = 0
        if pv.kind != 'reg': return False
        G = s.defs.get(pv.name)
        if G is None: return False
        if G['op'] == 'getelementptr':
            if len(G['ops']) != 2 or G['ops'][1].kind != 'int' or G['ops'][0].kind != 'reg': return False
            k = G['ops'][1].v; vt = G['ops'][0]
            V = s.defs.get(vt.name)
        else:
            V = G; vt = pv
        if V is None or V['op'] != 'load': return False
        # vt must be a pointer to pointer to function
        t = E.resolve(V['ty'])
        if not (isinstance(t, PtrTy) and isinstance(E.resolve(t.to), PtrTy) and isinstance(E.resolve(E.resolve(t.to).to), FnTy)): return False
        cands = []
        nparams = len([a for a in args])
        this_i = 1 if (args and 'sret' in args[0][1] and len(args) > 1) else 0
        static_cls = s.type_test_class(vt.name) or s.static_class(fty, this_i)
        allowed = s.derived_classes(static_cls) if static_cls else None
        for (g, ai, els) in s.vtables():
            idx = 2 + k
            if idx >= len(els): continue
            e = els[idx]
            while e.kind == 'ccast': e = e.x
            if e.kind != 'glob' or e.name not in E.M.funcs: continue
            f = E.M.funcs[e.name]
            if e.name == '__cxa_pure_virtual': continue
            if allowed is not None and g[4:] not in allowed: continue
            if len(f['params']) != nparams or f['ret'].key() != fty.ret.key(): continue
            ok = True
            for pi, ((pt, pn, pa), (a, aa)) in enumerate(zip(f['params'], args)):
                if pi == this_i: continue
                if a is not None and pt.key() != a.ty.key():
                    # pointer-to-struct params may differ by llvm-link type renaming: accept any pointer pair
                    if not (isinstance(E.resolve(pt), PtrTy) and isinstance(E.resolve(a.ty), PtrTy)): ok = False
            if ok: cands.append((g, ai, e.name))
        if not cands: return False
        d = I['dst']; rt = I['ty']
        isvoid = isinstance(E.resolve(rt), VoidTy) or d is None
        if not isvoid: s.declare(d, rt)
        vp = '((u8*)%s)' % s.reg(vt.name)
        first = True
        seen = set()
        for (g, ai, fn) in cands:
            E.used_globals.add(g); E.used_funcs.add(fn)
            tp = E.M.funcs[fn]['params']
            aexprs = []
            for i, (a, attrs) in enumerate(args):
                e = E.vexpr(a, s)
                if i < len(tp) and tp[i][0].key() != a.ty.key(): e = '((%s)%s)' % (E.cty(tp[i][0]), e)
                aexprs.append(e)
            call = '%s(%s)' % (E.fname(fn), ', '.join(aexprs))
            if not isvoid:
                if E.M.funcs[fn]['ret'].key() != rt.key(): call = '((%s)%s)' % (E.cty(rt), call)
                call = '%s = %s' % (s.reg(d), call)
            gt = E.M.globals[g]['ty']
            addr = '((u8*)&%s.f%d.a[2])' % (E.gname(g), ai)
            out.append('%sif (%s == %s) { %s; }' % ('' if first else 'else ', vp, addr, call))
            first = False
        out.append('else { IR_BAD_VPTR(); }')
        return True

    def emit_intrinsic(s, I, out):
        E = s.E; n = I['callee'].name; d = I['dst']; A = [a[0] for a in I['args']]
        def ex(i): return E.vexpr(A[i], s)
        if n.startswith(('llvm.lifetime', 'llvm.dbg', 'llvm.experimental.noalias', 'llvm.invariant', 'llvm.prefetch', 'llvm.stackrestore', 'llvm.var.annotation', 'llvm.donothing')): return
        if n.startswith(('llvm.memcpy', 'llvm.memmove')) and A[2].kind == 'int':
            r = s.typed_copy(A[0], A[1], A[2].v)
            if r is not None: out.extend(r); return
        if n.startswith('llvm.memset') and A[2].kind == 'int' and A[1].kind == 'int' and A[1].v == 0:
            r = s.typed_copy(A[0], None, A[2].v)
            if r is not None: out.extend(r); return
        dyn = len(A) > 2 and A[2].kind != 'int'   # symbolic length: explicit byte loop (CBMC's built-in memcpy with a symbolic size does not scale)
        if n.startswith('llvm.memcpy'): out.append('%s((u8*)%s, (u8*)%s, %s);' % ('ir_memcpy' if dyn else 'memcpy', ex(0), ex(1), ex(2))); return
        if n.startswith('llvm.memmove'): out.append('%s((u8*)%s, (u8*)%s, %s);' % ('ir_memmove' if dyn else 'memmove', ex(0), ex(1), ex(2))); return
        if n.startswith('llvm.memset'): out.append('%s((u8*)%s, %s, %s);' % ('ir_memset' if dyn else 'memset', ex(0), ex(1), ex(2))); return
        if n.startswith(('llvm.type.test', 'llvm.public.type.test')): s.declare(d, I['ty']); out.append('%s = 1;' % s.reg(d)); return
        if n.startswith('llvm.assume'): out.append('IR_ASSUME(%s);' % ex(0)); return
        if n.startswith('llvm.trap'): out.append('IR_TRAP();'); return
        if n.startswith('llvm.expect'): s.declare(d, I['ty']); out.append('%s = %s;' % (s.reg(d), ex(0))); return
        if n.startswith('llvm.objectsize'): s.declare(d, I['ty']); out.append('%s = (%s)-1;' % (s.reg(d), E.cty(I['ty']))); return
        if n.startswith('llvm.is.constant'): s.declare(d, I['ty']); out.append('%s = 0;' % s.reg(d)); return
        if n.startswith('llvm.stacksave'): s.declare(d, I['ty']); out.append('%s = 0;' % s.reg(d)); return
        m = re.match(r'llvm\.(u|s)(add|sub|mul)\.with\.overflow\.i(\d+)', n)
        if m:
            sg, o, b = m.group(1), m.group(2), int(m.group(3))
            s.declare(d, I['ty'])
            bi = {'add': '__builtin_add_overflow', 'sub': '__builtin_sub_overflow', 'mul': '__builtin_mul_overflow'}[o]
            ct = ('u%d' if sg == 'u' else 'i%d') % b
            tn = 'ovf_tmp_%d' % s.pcount; s.pcount += 1
            s.decls.append('  %s %s;' % (ct, tn))
            out.append('%s.f1 = %s((%s)%s, (%s)%s, &%s); %s.f0 = (u%d)%s;' % (s.reg(d), bi, ct, ex(0), ct, ex(1), tn, s.reg(d), b, tn)); return
        m = re.match(r'llvm\.(umin|umax|smin|smax)\.i(\d+)', n)
        if m:
            o, b = m.group(1), int(m.group(2)); s.declare(d, I['ty'])
            ct = ('u%d' if o[0] == 'u' else 'i%d') % b
            cmp = '<' if o.endswith('min') else '>'
            out.append('%s = ((%s)%s %s (%s)%s) ? %s : %s;' % (s.reg(d), ct, ex(0), cmp, ct, ex(1), ex(0), ex(1))); return
        m = re.match(r'llvm\.abs\.i(\d+)', n)
        if m:
            b = int(m.group(1)); s.declare(d, I['ty'])
            out.append('%s = ((i%d)%s < 0) ? (u%d)(0 - %s) : %s;' % (s.reg(d), b, ex(0), b, ex(0), ex(0))); return
        m = re.match(r'llvm\.bswap\.i(\d+)', n)
        if m:
            s.declare(d, I['ty']); out.append('%s = __builtin_bswap%s(%s);' % (s.reg(d), m.group(1), ex(0))); return
        m = re.match(r'llvm\.(ctlz|cttz|ctpop)\.i(\d+)', n)
        if m:
            s.declare(d, I['ty']); E.helpers.add('bits')
            out.append('%s = ir_%s%s(%s);' % (s.reg(d), m.group(1), m.group(2), ex(0))); return
        m = re.match(r'llvm\.fsh(l|r)\.i(\d+)', n)
        if m:
            b = int(m.group(2)); s.declare(d, I['ty'])
            sh = '(%s %% %d)' % (ex(2), b)
            if m.group(1) == 'l': out.append('%s = %s ? ((%s << %s) | (%s >> (%d - %s))) : %s;' % (s.reg(d), sh, ex(0), sh, ex(1), b, sh, ex(0)))
            else: out.append('%s = %s ? ((%s >> %s) | (%s << (%d - %s))) : %s;' % (s.reg(d), sh, ex(1), sh, ex(0), b, sh, ex(1)))
            return
        if n.startswith('llvm.eh.typeid.for'): s.declare(d, I['ty']); out.append('%s = 0;' % s.reg(d)); return
        if n.startswith(('llvm.va_start', 'llvm.va_end', 'llvm.va_copy')): out.append('/* %s dropped */' % n); return
        raise NotImplementedError('intrinsic ' + n)

PRELUDE = r'''
#include <stdint.h>
#include <stddef.h>
#include <string.h>
#include <stdlib.h>
#include <errno.h>
typedef uint8_t u8; typedef uint16_t u16; typedef uint32_t u32; typedef uint64_t u64;
typedef int8_t i8; typedef int16_t i16; typedef int32_t i32; typedef int64_t i64;
typedef unsigned __int128 u128; typedef __int128 i128;
#ifdef __CPROVER__
#define IR_ASSUME(c) __CPROVER_assume(c)
#define IR_UNREACHABLE() __CPROVER_assume(0)
#define IR_TRAP() __CPROVER_assert(0, "llvm.trap reached")
#define IR_LANDINGPAD() __CPROVER_assume(0)
#define IR_RESUME() __CPROVER_assume(0)
#define IR_BAD_VPTR() do { __CPROVER_assert(0, "vassert L0 virtual call on an object with unknown vtable"); __CPROVER_assume(0); } while (0)
#else
#define IR_ASSUME(c) ((void)0)
#define IR_UNREACHABLE() __builtin_trap()
#define IR_TRAP() __builtin_trap()
#define IR_LANDINGPAD() __builtin_trap()
#define IR_RESUME() __builtin_trap()
#define IR_BAD_VPTR() __builtin_trap()
#endif
#ifdef __CPROVER__
#define VASSERT(c, n) __CPROVER_assert(c, "vassert L" #n)
#define VASSUME(c) __CPROVER_assume(c)
#define VREACH(n) __CPROVER_assert(0, "vreach L" #n)
#else
void vassert_(int c, int id); void vassume_(int c); void vreach_(int id);
#define VASSERT(c, n) vassert_(c, n)
#define VASSUME(c) vassume_(c)
#define VREACH(n) vreach_(n)
#endif
static void ir_memcpy(u8* d, const u8* s, u64 n) { for (u64 i = 0; i < n; i++) d[i] = s[i]; }
static void ir_memmove(u8* d, const u8* s, u64 n) { if (d <= s) { for (u64 i = 0; i < n; i++) d[i] = s[i]; } else { for (u64 i = n; i > 0; i--) d[i - 1] = s[i - 1]; } }
static void ir_memset(u8* d, u8 c, u64 n) { for (u64 i = 0; i < n; i++) d[i] = c; }
#ifdef __CPROVER__
#define IR_NEW_TYPED(T) ({ T* ir_p__ = (T*)malloc(sizeof(T)); __CPROVER_assume(ir_p__ != 0); ir_p__; })
#else
#define IR_NEW_TYPED(T) ((T*)malloc(sizeof(T)))
#endif
#define PUN(DT, ST, e) ({ ST pun_s__ = (e); DT pun_d__; memcpy(&pun_d__, &pun_s__, sizeof(DT)); pun_d__; })
'''

def translate(text, roots, stubs=(), rename=None):
    M = parse_module(text)
    E = Emitter(M)
    E.used_globals = set(); E.used_funcs = set()
    if rename: E.rename.update(rename)
    roots = list(roots) + list(M.ctors)
    done = {}; work = list(roots); order = []
    fbodies = {}
    while work:
        n = work.pop()
        if n in M.aliases and M.aliases[n].kind == 'glob': n = M.aliases[n].name
        if n in done: continue
        done[n] = True
        f = M.funcs.get(n)
        if f is None: sys.stderr.write('warning: unknown function %s\n' % n); continue
        if f['body'] is None or n in stubs:
            continue
        before_f = set(E.used_funcs); before_g = set(E.used_globals)
        fn = Fn(E, f)
        head, body = fn.translate()
        fbodies[n] = (head, body); order.append(n)
        for m in E.used_funcs - before_f: work.append(m)
        # globals may reference functions (vtables): handle below
        newg = list(E.used_globals - before_g)
        while newg:
            g = newg.pop()
            if g in M.funcs: work.append(g); continue
            gi = M.globals.get(g)
            if gi is None or gi['init'] is None: continue
            b2 = set(E.used_globals)
            E.init_expr(gi['init'])   # discovers further references
            for x in E.used_globals - b2:
                newg.append(x)
    # emit
    out = [PRELUDE]
    protos = []
    for n in sorted(E.used_funcs | set(done)):
        if n in M.aliases and M.aliases[n].kind == 'glob': continue
        f = M.funcs.get(n)
        if f is None or n.startswith('llvm.') or n in stubs: continue
        if n in ('memcpy', 'memset', 'memmove', 'malloc', 'free', 'strlen', 'memcmp', 'abort', 'calloc', 'realloc', 'strcmp', 'strncmp', 'strcpy', 'strncpy', 'memchr', 'bcmp', 'strtoul', 'strtol', 'atoi', 'printf', 'snprintf', 'sprintf', 'fprintf', 'getpid', 'time', 'strchr', 'strrchr', 'strstr', 'strdup', 'getenv', 'syslog', 'strcasecmp', 'strncasecmp', 'strerror', 'toupper', 'tolower', 'isspace', 'exit', '__errno_location', 'gmtime', 'strftime'): continue
        ps = [E.cty(t) for (t, pn, a) in f['params']]
        if f['vararg']: ps.append('...')
        protos.append('%s %s(%s);' % (E.cty(f['ret']), E.fname(n), ', '.join(ps) or 'void'))
    gdefs = []; gdecl = []; vraw = []
    for g in sorted(E.used_globals):
        if g in M.funcs: continue
        gi = M.globals.get(g)
        if gi is None: sys.stderr.write('warning: unknown global %s\n' % g); continue
        ct = E.cty(gi['ty'])
        if gi['init'] is None and g.startswith('vraw_'):
            # typed storage declared `extern T vraw_x` by a harness: defined here, zero-initialised, NO constructor is run
            gdecl.append('extern %s %s;' % (ct, E.gname(g))); gdefs.append('%s %s;' % (ct, E.gname(g)))
            vraw.append((g, E.size_align(gi['ty'])[0]))
        elif gi['init'] is None: gdecl.append('extern %s %s;' % (ct, E.gname(g)))
        else:
            gdecl.append('extern %s %s;' % (ct, E.gname(g)))
            gdefs.append('%s %s = %s;' % (ct, E.gname(g), E.init_expr(gi['init'])))
    bodies = [fbodies[n][1] for n in order]
    bodies.append('void ir_run_global_ctors(void) {\n%s}\nvoid ir_entry(void) { ir_run_global_ctors(); harness(); }\n' % ''.join('  %s();\n' % E.fname(c) for c in M.ctors if c in fbodies))
    out += E.fwd + E.tydecl + protos + gdecl + gdefs + bodies
    return '\n'.join(out), dict(vraw=vraw, functions=order, externals=sorted(n for n in E.used_funcs if n not in fbodies and not n.startswith('llvm.')))

if __name__ == '__main__':
    import argparse, json
    ap = argparse.ArgumentParser()
    ap.add_argument('ll'); ap.add_argument('-o', required=True)
    ap.add_argument('--root', action='append', default=[])
    ap.add_argument('--stub', action='append', default=[])
    a = ap.parse_args()
    c, info = translate(open(a.ll).read(), a.root, set(a.stub))
    open(a.o, 'w').write(c)
    json.dump(info, open(a.o + '.json', 'w'), indent=1)
    sys.stderr.write('translated %d functions, %d externals\n' % (len(info['functions']), len(info['externals'])))
