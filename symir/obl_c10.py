"""C10 - the part of 'cryptographic results correct / verification sound / multi-part == single-part' that lives in
SoftHSM's own code: the glue around the OpenSSL primitives, over functional models of the OpenSSL C API
(harness/C10/*_model.h).  Imported by obligations.py (plug-in hook)."""
from run import Ob

BS = 'data_mgr/ByteString.cpp'
MAC_REAL = ['crypto/OSSLEVPMacAlgorithm.cpp', 'crypto/OSSLEVPCMacAlgorithm.cpp', 'crypto/MacAlgorithm.cpp', 'crypto/SymmetricKey.cpp', BS]
_BYTE_LOOPS = r'ByteString|ir_mem|memcmp|vector|model_mac|mac_ctx'


def _mac(kind, cmac):
    what = {'sign': ('signInit + <= 3 signUpdate + signFinal', 'the MAC returned is exactly model(key, whole message) for every split of the message into <= 3 parts (empty parts, fewer parts): every byte reaches the primitive exactly once, in order, under the caller\'s key - multi-part == single-part; a failing primitive fails the call and ends the operation'),
            'verify': ('verifyInit + <= 3 verifyUpdate + verifyFinal', 'the signature is accepted iff it has exactly the MAC length and equals the model MAC in every byte (any changed bit, a truncated, extended or empty signature is rejected), for every split'),
            'state': ('operation state machine', 'update/final without init fail and never reach the primitive; calls of the other kind and a second init are refused without disturbing the running operation; after final the operation is gone and the context was released exactly once')}[kind]
    cls = 'OSSLEVPCMacAlgorithm' if cmac else 'OSSLEVPMacAlgorithm'
    return Ob('%s_%s' % ('cmac' if cmac else 'hmac', kind), 'C10/mac_unit.cpp', MAC_REAL,
              defines={'OP': {'sign': 0, 'verify': 1, 'state': 2}[kind], 'CMAC': cmac, 'BS_CAP': 8, 'MSGCAP': 4}, unwind=10, caps='C10/caps.h',
              desc='%s (real) %s over the functional %s model: %s' % (cls, what[0], 'CMAC_*' if cmac else 'HMAC_*', what[1]),
              bounds='message 0..4 symbolic bytes in <= 3 parts (all splits), key 2 symbolic bytes, model MAC of 6 bytes, signature 0..8 symbolic bytes; primitive failures symbolic')


CIPHER_REAL = ['crypto/OSSLEVPSymmetricAlgorithm.cpp', 'crypto/SymmetricAlgorithm.cpp', 'crypto/OSSLUtil.cpp', 'crypto/SymmetricKey.cpp', BS]
MODES = {'cbc': 1, 'cfb': 2, 'ctr': 3, 'ecb': 4, 'gcm': 5, 'ofb': 6}


def _cipher(name, op, mode, desc, bounds, extra=None, **kw):
    d = {'OP': op, 'MODE': MODES[mode], 'BS_CAP': 12, 'BLK': 2, 'MSGCAP': 4, 'TAGCAP': 2, 'AADCAP': 2, 'INCAP': 7, 'EVP_RECORD_INPUT': 1 if op == 2 else 0}
    d.update(extra or {})
    return Ob(name, 'C10/cipher_unit.cpp', CIPHER_REAL, defines=d, unwind=16, caps='C10/caps.h',
              desc='OSSLEVPSymmetricAlgorithm (real; subclass with a model cipher of block size 2, mode %s) ' % mode.upper() + desc, bounds=bounds, **kw)


DERIVE_TU = {0: ('dh', 'OSSLDH', 'crypto/OSSLDH.cpp', 'DH_compute_key'), 1: ('ecdh', 'OSSLECDH', 'crypto/OSSLECDH.cpp', 'ECDH_compute_key'), 2: ('eddsa', 'OSSLEDDSA', 'crypto/OSSLEDDSA.cpp', 'EVP_PKEY_derive (X25519/X448)')}


def _derive(alg):
    n, cls, tu, prim = DERIVE_TU[alg]
    return Ob('%s_derive_padding' % n, 'C10/derive_unit.cpp', [tu, 'crypto/SymmetricKey.cpp', BS] + (['crypto/ECPublicKey.cpp'] if alg == 1 else []), defines={'ALG': alg, 'BS_CAP': 6, 'NMAX': 4}, unwind=8, caps='C10/caps.h',
              desc='%s::deriveKey (real) over the documented contract of %s: the derived key has exactly the length N of the prime / field, = (N - k) zero bytes followed by the k bytes the primitive produced, in order (the primitive strips leading zeros; the secret is the fixed-length big-endian value); a failing primitive or a missing key gives false and no key object; the primitive gets the given private key and the peer\'s public value' % (cls, prim),
              bounds='N = 1..4 symbolic, returned length k = -1, 0..N symbolic, secret bytes and the unspecified rest of the output buffer symbolic; key wrapper accessors (getOSSLKey) are models')


def register(reg):
    obs = [_derive(0), _derive(1), _derive(2)]
    for m in ('cbc', 'ecb', 'ctr', 'gcm'):
        obs.append(_cipher('sym_encrypt_' + m, 0, m, 'encryptInit + <= 3 encryptUpdate + encryptFinal: concatenated output == model ciphertext of the whole message for every split (PKCS#7 block when padding, partial block refused without; GCM: tag of the whole ciphertext appended after it); key / IV (zero block when absent) / AAD / padding flag reach the primitive as given; getBufferSize() == bytes held by the primitive; no write beyond the allocated output',
                           'message 0..4 symbolic bytes (two blocks) in <= 3 parts (all splits), key 2 bytes, IV 0 or 2 bytes (GCM 0..2), AAD 0..2 bytes, tag 1..2 bytes, padding flag symbolic'))
    for m in ('cbc', 'ecb', 'ctr'):
        obs.append(_cipher('sym_decrypt_' + m, 1, m, 'decryptInit + <= 3 decryptUpdate + decryptFinal: accepted iff the model accepts the whole input (alignment, PKCS#7), concatenated output == model plaintext of the whole input, for every split',
                           'input 0..4 symbolic bytes (two blocks) in <= 3 parts (all splits), key / IV / padding flag symbolic'))
    obs.append(_cipher('gcm_decrypt', 2, 'gcm', 'GCM decrypt: updates hand nothing to the primitive and return nothing; decryptFinal refuses input shorter than the tag, else exactly the first n - tagBytes bytes are the ciphertext and exactly the last tagBytes bytes the expected tag; result == tag verdict of the model (any changed bit of ciphertext, tag, AAD, IV: refused); accepted => plaintext of exactly those bytes',
                       'input 0..6 symbolic bytes in <= 3 parts (all splits), tag 1..2 bytes, IV 0..2 bytes, AAD 0..2 bytes'))
    for dr, dn in ((0, 'enc'), (1, 'dec')):
      obs.append(_cipher('ctr_counter_budget_' + dn, 5, 'ctr', 'counter budget: checkMaximumBytes(b) == (processed + b <= (2^counterBits - counter field of the IV) * block size), before and after <= 2 updates, encrypt and decrypt; always true for counterBits == 0',
                       'counterBits 0..8, IV 2 symbolic bytes, <= 4 bytes processed in <= 2 updates, b < 2^32; BN_* modelled over 64-bit integers', extra={'DIR': dr}))
    for m in ('cbc', 'gcm'):
        obs.append(_cipher('sym_state_' + m, 6, m, 'state machine: update/final without init fail without reaching the primitive; an IV that is neither empty nor one block is refused (non-GCM) before the primitive is touched; second init refused, operation undisturbed; after final the operation is gone and the context released once',
                           'IV 0..2 bytes (every length), one 1-byte part; %s direction' % ('encrypt' if m == 'cbc' else 'decrypt'), extra={'DIR': 0 if m == 'cbc' else 1}))
    for (n, op, m) in (('sym_fail_encrypt_cbc', 0, 'cbc'), ('sym_fail_decrypt_cbc', 1, 'cbc'), ('sym_fail_encrypt_gcm', 0, 'gcm'), ('gcm_fail_decrypt', 2, 'gcm')):
        obs.append(_cipher(n, op, m, 'with a failing primitive (Init / Update incl. the AAD update / Final fail symbolically): the call returns false, the operation is gone, the context is released exactly once, nothing else reaches the primitive; otherwise the same result as without failures',
                           'split 1 + 0 + 3 bytes (GCM decrypt: 1 + 0 + 3 incl. tag); everything else as in the obligation without failures', extra={'FAILS': 1, 'L0': 1, 'L1': 0, 'L2': 3}))
    for cmac in (0, 1):
        for kind in ('sign', 'verify', 'state'):
            obs.append(_mac(kind, cmac))
    reg.OBLIGATIONS['C10'] = obs
    reg.META['C10'] = dict(
        outside='the arithmetic of OpenSSL (AES, DES, SHA, HMAC, CMAC, GCM, RSA ...: binary code, replaced by functional models) and hence equality with an independent implementation of the standards',
        assumptions=['functional models of the OpenSSL C API in harness/C10/*_model.h (contracts from the OpenSSL 3.0 manual pages)'],
        claim='glue only', note='', technique='P-UNIT over functional models')
