"""C10 - the part of 'cryptographic results correct / verification sound / multi-part == single-part' that lives in
SoftHSM's own code: the glue around the OpenSSL primitives, over functional models of the OpenSSL C API
(harness/C10/*_model.h).  Imported by obligations.py (plug-in hook)."""
from run import Ob

BS = 'data_mgr/ByteString.cpp'
MAC_REAL = ['crypto/OSSLEVPMacAlgorithm.cpp', 'crypto/OSSLEVPCMacAlgorithm.cpp', 'crypto/MacAlgorithm.cpp', 'crypto/SymmetricKey.cpp', BS]


def _mac(kind, cmac):
    what = {'sign': ('signInit + <= 3 signUpdate + signFinal', 'the MAC returned is exactly model(key, whole message) for every split of the message into <= 3 parts (empty parts, fewer parts): every byte reaches the primitive exactly once, in order, under the caller\'s key - multi-part == single-part; a failing primitive fails the call and ends the operation'),
            'verify': ('verifyInit + <= 3 verifyUpdate + verifyFinal', 'the signature is accepted iff it has exactly the MAC length and equals the model MAC in every byte (any changed bit, a truncated, extended or empty signature is rejected), for every split'),
            'state': ('operation state machine', 'update/final without init fail and never reach the primitive; calls of the other kind and a second init are refused without disturbing the running operation; after final the operation is gone and the context was released exactly once')}[kind]
    cls = 'OSSLEVPCMacAlgorithm' if cmac else 'OSSLEVPMacAlgorithm'
    return Ob('%s_%s' % ('cmac' if cmac else 'hmac', kind), 'C10/mac_unit.cpp', MAC_REAL,
              defines={'OP': {'sign': 0, 'verify': 1, 'state': 2}[kind], 'CMAC': cmac, 'BS_CAP': 8, 'MSGCAP': 4}, unwind=10, caps='C10/caps.h',
              desc='%s (real) %s over the functional %s model: %s' % (cls, what[0], 'CMAC_*' if cmac else 'HMAC_*', what[1]),
              bounds='message 0..4 symbolic bytes in <= 3 parts (all splits), key 2 symbolic bytes, model MAC of 6 bytes, signature 0..8 symbolic bytes; primitive failures symbolic')


CIPHER_REAL = ['crypto/OSSLEVPSymmetricAlgorithm.cpp', 'crypto/SymmetricAlgorithm.cpp', 'crypto/OSSLUtil.cpp', 'crypto/SymmetricKey.cpp', BS]
MODES = {'cbc': 1, 'cfb': 2, 'ctr': 3, 'ecb': 4, 'gcm': 5, 'ofb': 6}


def _cipher(name, op, mode, desc, bounds, extra=None, **kw):
    d = {'OP': op, 'MODE': MODES[mode], 'BS_CAP': 8, 'BLK': 2, 'MSGCAP': 4, 'TAGCAP': 2, 'AADCAP': 2, 'INCAP': 7, 'EVP_RECORD_INPUT': 1 if op == 2 else 0}
    d.update(extra or {})
    return Ob(name, 'C10/cipher_unit.cpp', CIPHER_REAL, defines=d, unwind=16, caps='C10/caps.h',
              desc='OSSLEVPSymmetricAlgorithm (real; subclass with a model cipher of block size 2, mode %s) ' % mode.upper() + desc, bounds=bounds, **kw)


DERIVE_TU = {0: ('dh', 'OSSLDH', 'crypto/OSSLDH.cpp', 'DH_compute_key'), 1: ('ecdh', 'OSSLECDH', 'crypto/OSSLECDH.cpp', 'ECDH_compute_key'), 2: ('eddsa', 'OSSLEDDSA', 'crypto/OSSLEDDSA.cpp', 'EVP_PKEY_derive (X25519/X448)')}


def _derive(alg):
    n, cls, tu, prim = DERIVE_TU[alg]
    return Ob('%s_derive_padding' % n, 'C10/derive_unit.cpp', [tu, 'crypto/SymmetricKey.cpp', BS] + (['crypto/ECPublicKey.cpp'] if alg == 1 else []), defines={'ALG': alg, 'BS_CAP': 6, 'NMAX': 4}, unwind=8, caps='C10/caps.h',
              desc='%s::deriveKey (real) over the documented contract of %s: the derived key has exactly the length N of the prime / field, = (N - k) zero bytes followed by the k bytes the primitive produced, in order (the primitive strips leading zeros; the secret is the fixed-length big-endian value); a failing primitive or a missing key gives false and no key object; the primitive gets the given private key and the peer\'s public value' % (cls, prim),
              bounds='N = 1..4 symbolic, returned length k = -1, 0..N symbolic, secret bytes and the unspecified rest of the output buffer symbolic; key wrapper accessors (getOSSLKey) are models')


def register(reg):
    obs = [_derive(0), _derive(1), _derive(2)]
    for m in ('cbc', 'ecb', 'ctr', 'gcm'):
        obs.append(_cipher('sym_encrypt_' + m, 0, m, 'encryptInit + <= 3 encryptUpdate + encryptFinal: concatenated output == model ciphertext of the whole message for every split (PKCS#7 block when padding, partial block refused without; GCM: tag of the whole ciphertext appended after it); key / IV (zero block when absent) / AAD / padding flag reach the primitive as given; getBufferSize() == bytes held by the primitive; no write beyond the allocated output',
                           'message 0..4 symbolic bytes (two blocks) in <= 3 parts (all splits), key 2 bytes, IV 0 or 2 bytes (GCM 0..2), AAD 0..2 bytes, tag 1..2 bytes, padding flag symbolic'))
    for m in ('cbc', 'ecb', 'ctr'):
        obs.append(_cipher('sym_decrypt_' + m, 1, m, 'decryptInit + <= 3 decryptUpdate + decryptFinal: accepted iff the model accepts the whole input (alignment, PKCS#7), concatenated output == model plaintext of the whole input, for every split',
                           'input 0..4 symbolic bytes (two blocks) in <= 3 parts (all splits), key / IV / padding flag symbolic'))
    # GCM decrypt in two layers (decryptFinal depends on the updates only through the state that the first layer pins down)
    obs.append(_cipher('gcm_decrypt_buffer', 2, 'gcm', 'GCM decryptInit + <= 3 decryptUpdate, every split: no update hands data to the primitive or returns plaintext; afterwards the AEAD buffer is exactly the whole input in order and buffer size / tag length / mode / context are what decryptFinal expects',
                       'input 0..6 symbolic bytes in <= 3 parts (all splits), tag 1..2 bytes, IV 0..2 bytes, AAD 0..2 bytes', extra={'GCMPHASE': 1}))
    obs.append(_cipher('gcm_decrypt_final', 2, 'gcm', 'GCM decryptFinal (after one update with the whole input): input shorter than the tag refused without touching the primitive; else exactly the first n - tagBytes bytes are the ciphertext and exactly the last tagBytes bytes the expected tag; result == tag verdict of the model (any changed bit of ciphertext, tag, AAD, IV: refused); accepted => plaintext of exactly those bytes',
                       'input 0..6 symbolic bytes, tag 1..2 bytes, IV 0..2 bytes, AAD 0..2 bytes', extra={'GCMPHASE': 2}))
    for dr, dn in ((0, 'enc'), (1, 'dec')):
        obs.append(_cipher('ctr_counter_budget_' + dn, 5, 'ctr', 'counter budget: checkMaximumBytes(b) == (processed + b <= (2^counterBits - counter field of the IV) * block size), before and after <= 2 updates, encrypt and decrypt; always true for counterBits == 0',
                           'counterBits 0..8, IV 2 symbolic bytes, <= 4 bytes processed in <= 2 updates, b < 2^32; BN_* modelled over 64-bit integers', extra={'DIR': dr}))
    for m in ('cbc', 'gcm'):
        obs.append(_cipher('sym_state_' + m, 6, m, 'state machine: update/final without init fail without reaching the primitive; an IV that is neither empty nor one block is refused (non-GCM) before the primitive is touched; second init refused, operation undisturbed; after final the operation is gone and the context released once',
                           'IV 0..2 bytes (every length), one 1-byte part; %s direction' % ('encrypt' if m == 'cbc' else 'decrypt'), extra={'DIR': 0 if m == 'cbc' else 1}))
    for (n, op, m) in (('sym_fail_encrypt_cbc', 0, 'cbc'), ('sym_fail_decrypt_cbc', 1, 'cbc'), ('sym_fail_encrypt_gcm', 0, 'gcm'), ('gcm_fail_decrypt', 2, 'gcm')):
        obs.append(_cipher(n, op, m, 'with a failing primitive (Init / Update incl. the AAD update / Final fail symbolically): the call returns false, the operation is gone, the context is released exactly once, nothing else reaches the primitive; otherwise the same result as without failures',
                           'split 1 + 0 + 3 bytes (GCM decrypt: 1 + 0 + 3 incl. tag); everything else as in the obligation without failures', extra={'FAILS': 1, 'L0': 1, 'L1': 0, 'L2': 3}))
    obs.append(Ob('rsa_verify', 'C10/rsa_unit.cpp', ['crypto/OSSLRSA.cpp', 'crypto/RSAPublicKey.cpp', 'crypto/AsymmetricAlgorithm.cpp', BS], defines={'OP': 0, 'BS_CAP': 6, 'NMOD': 4}, unwind=8, caps='C10/caps.h',
                  desc='OSSLRSA::verify (real) for CKM_RSA_PKCS and raw RSA over the documented contract of RSA_public_decrypt: accepted iff the primitive succeeds and the recovered data equals the expected data in length and in every byte (a proper prefix either way, a changed byte, a failing primitive: rejected); the primitive gets exactly the caller\'s signature bytes and length, the given key and the padding mode of the mechanism; a key of another type is refused before the primitive',
                  bounds='modulus 4 bytes; expected data and signature 0..6 symbolic bytes; recovered data (length 0..3 for PKCS#1, 4 raw), its bytes and the unspecified rest of the output buffer symbolic'))
    obs.append(Ob('asym_compose', 'C10/rsa_unit.cpp', ['crypto/AsymmetricAlgorithm.cpp', BS], defines={'OP': 1, 'BS_CAP': 6}, unwind=8, caps='C10/caps.h',
                  desc='AsymmetricAlgorithm::sign / verify (real default single-part implementations: DSA, ECDSA, EdDSA, hashing RSA mechanisms) == init(key, mechanism, parameters) && update(whole data, once) && final(caller\'s signature), short-circuit: single-part == multi-part with one part',
                  bounds='data and signature 0..6 symbolic bytes, mechanism 0..31, results of the three steps symbolic'))
    obs.append(Ob('alg_select', 'C10/select_unit.cpp', ['crypto/OSSLAES.cpp', 'crypto/OSSLDES.cpp', 'crypto/OSSLHMAC.cpp', 'crypto/OSSLCMAC.cpp', 'crypto/SymmetricKey.cpp', BS], defines={'BS_CAP': 4}, unwind=6, caps='C10/caps.h',
                  desc='algorithm selection (real OSSLAES/OSSLDES::getCipher, OSSLHMAC*::getEVPHash/getMacSize, OSSLCMAC*::getEVPCipher/getMacSize): for every key bit length and every cipher mode the EVP cipher / digest selected is the one of the mechanism (AES-128/192/256 x CBC/ECB/CTR/GCM, DES/2-key/3-key x CBC/ECB/OFB/CFB, CMAC = CBC cipher of the key size, HMAC digest with MAC size = digest size), NULL for everything else',
                  bounds='key bit length: all 2^64 values; mode 0..7; EVP getters are descriptors'))
    for cmac in (0, 1):
        for kind in ('sign', 'verify', 'state'):
            obs.append(_mac(kind, cmac))
    # thorough tier: block size 4, messages up to 6 / 8 / 9 bytes, split shapes pinned (values symbolic)
    big = {'BLK': 4, 'MSGCAP': 6, 'TAGCAP': 3, 'AADCAP': 3, 'INCAP': 10, 'BS_CAP': 18}
    for (l0, l1, l2) in ((1, 0, 5), (3, 3, 0), (4, 1, 1), (0, 6, 0), (2, 2, 2), (5, 0, 1), (0, 0, 0), (1, 1, 1)):
        for (n, op, m) in (('sym_encrypt_cbc', 0, 'cbc'), ('sym_decrypt_cbc', 1, 'cbc'), ('sym_encrypt_gcm', 0, 'gcm'), ('gcm_decrypt', 2, 'gcm')):
            e = dict(big); e.update({'L0': l0, 'L1': l1, 'L2': l2 + (2 if (op == 1 and l0 + l1 + l2 == 6) else 0)})
            o = _cipher('%s_b4_%d_%d_%d' % (n, l0, l1, e['L2']), op, m, 'block size 4, split %d + %d + %d: same claim as %s' % (l0, l1, e['L2'], n), 'split shape fixed, all byte values / IV / AAD / tag length / padding flag symbolic', extra=e, tiers=('thorough',))
            o.unwind = 22
            obs.append(o)
    # recorded observation (not in the quick / thorough tiers): run with --tier finding
    obs.append(Ob('cmac_init_nocipher', 'C10/mac_unit.cpp', MAC_REAL, defines={'OP': 3, 'CMAC': 1, 'BS_CAP': 8, 'MSGCAP': 4}, unwind=10, caps='C10/caps.h', tiers=('finding',),
                  desc='OSSLEVPCMacAlgorithm::signInit / verifyInit refused because getEVPCipher() is NULL (key length without a cipher) must leave no operation: verifyInit calls MacAlgorithm::signFinal instead of verifyFinal and stays in state VERIFY with a NULL context (a later verifyUpdate would hand NULL to CMAC_Update). Not reachable through SoftHSM.cpp, which recycles the object after a failed init',
                  bounds='one call'))
    reg.OBLIGATIONS['C10'] = obs
    # C13 (a derived key has exactly the value the mechanism defines): the shared secret is left-padded to the group size
    reg.OBLIGATIONS['C13'] = reg.OBLIGATIONS['C13'] + [o for o in obs if o.name.endswith('_derive_padding')]
    reg.META['C10'] = dict(
        level='model_checking',
        claim='PARTIAL: only the part of C10 that lives in SoftHSM\'s own code - the glue between the crypto abstraction classes and the OpenSSL C API - is claimed: byte streams (every byte once, in order, any split == single part), parameters (key, IV, AAD, tag, padding, counter width) handed over unmodified, buffering of block / AEAD data, placement and comparison of MACs / tags / recovered signatures (lengths included), left-padding of derived secrets, selection of the EVP algorithm per key size and mode, operation state. That the primitives compute AES, SHA, RSA ... as the standards say is NOT claimed',
        outside='the arithmetic of OpenSSL (AES, DES, SHA, HMAC, CMAC, GCM, RSA, DH, EC: binary code, replaced by the functional models named in the assumptions) and therefore equality with an independent implementation of the standards; messages / keys / IVs longer than the stated bounds (model block size 2, thorough tier 4; real block sizes 8 / 16 only through the pure size arithmetic of the wrapper); splits into more than 3 parts; the hashing RSA / DSA / ECDSA / EdDSA sign and verify bodies, RSA-PSS / OAEP parameter handling, OSSLEVPHashAlgorithm, DER helpers, AES key wrap, the Botan back end; the mechanism -> algorithm / parameter parsing in SoftHSM.cpp (Sym*/Asym*/Mac*Init: covered for guards by C07/C12, not for parameter values); allocation failures of OpenSSL objects',
        assumptions=['functional model of HMAC_* / CMAC_* (harness/C10/mac_model.h): deterministic MAC injective in (message bytes, their positions, length) and sensitive to every key byte; OpenSSL 3.0 manual page contract for return values and output lengths',
                     'functional model of the EVP cipher API and of BN_* over 64-bit integers (harness/C10/evp_model.h): position-dependent xor stream; EVP buffering contract for block / stream / GCM modes, PKCS#7 in the primitive, GCM tag = function of key, IV, AAD, every ciphertext byte and the lengths; DecryptFinal fails iff the installed tag differs in any byte',
                     'documented contracts of DH_compute_key / ECDH_compute_key / EVP_PKEY_derive (X25519, X448) and RSA_public_decrypt with symbolic results (harness/C10/derive_unit.cpp, rsa_unit.cpp); key wrapper accessors (getOSSLKey, getOrderLength, isOfType) are models',
                     'EVP_aes_* / EVP_des_* / EVP_<digest> getters are descriptors (harness/C10/select_unit.cpp)'],
        note='recorded observations (not violations of C10 at the PKCS#11 interface): (1) OSSLEVPCMacAlgorithm::verifyInit with a key length that has no cipher calls MacAlgorithm::signFinal instead of verifyFinal and stays in state VERIFY with a NULL context (obligation cmac_init_nocipher, tier finding; SoftHSM.cpp recycles the object after a failed init). (2) OSSLEVPSymmetricAlgorithm::decryptFinal leaves the unauthenticated GCM plaintext in its output parameter when the tag check fails; it returns false and SoftHSM.cpp copies nothing on false. (3) a call of the wrong direction (e.g. decryptUpdate on an encrypt operation) frees the EVP context but leaves the operation active; SoftHSM.cpp checks the operation type first. (4) HMAC_CTX_new / CMAC_CTX_new returning NULL leaves the operation active with a NULL context',
        technique='P-UNIT: real wrapper classes in isolation over functional models of the OpenSSL C API written in the harness TU; all splits of the message symbolic in the quick tier (block size 2), pinned split shapes with block size 4 in the thorough tier')
