#!/usr/bin/env python3
"""Offline setup: checks the tool versions the checks rely on and byte-compiles the runner. Fetches nothing."""
import subprocess, sys, py_compile, os
V = os.path.dirname(os.path.abspath(__file__))
ok = True
for tool, arg in [('cbmc', '--version'), ('clang++-14', '--version'), ('llvm-link-14', '--version'), ('opt-14', '--version'), ('g++', '--version'), ('gcc', '--version')]:
    try:
        out = subprocess.run([tool, arg], stdout=subprocess.PIPE, stderr=subprocess.STDOUT, timeout=60).stdout.decode().split('\n')[0]
        print('%-14s %s' % (tool, out))
    except Exception as e:
        print('%-14s MISSING (%s)' % (tool, e)); ok = False
for f in ('ir2c.py', 'run.py', 'obligations.py'):
    py_compile.compile(os.path.join(V, f), doraise=True)
os.makedirs(os.path.join(os.path.dirname(V), 'evidence'), exist_ok=True)
sys.exit(0 if ok else 1)
