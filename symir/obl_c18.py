"""C18 - thread safety with locking enabled, claimed as a LOCK DISCIPLINE + sequential interference check
(harness/C18/lock_ind.cpp, harness/C18/lock_model.h).  Plug-in of obligations.py: register(reg)."""
from run import Ob

HM = ['handle_mgr/HandleManager.cpp', 'handle_mgr/Handle.cpp']
LM_RULES = [(r'^harness', 40), (r'Mutex|lm_', 8), (r'env_step|snapshot', 8)]


def _hm(op, name, what, cap=2):
    return Ob('lock_hm_' + name, 'C18/lock_ind.cpp', HM, defines={'CLS': 1, 'OP': op, 'VSTL_CAP': cap, 'LM_N': 1, 'VSTL_ACCESS_HOOK': 1}, unwind=cap + 2,
              unwind_rules=LM_RULES,
              desc='HandleManager::%s, one call from an arbitrary INV table with interference of other threads before the acquisition and after the release of handlesMutex: '
                   'handles/objects only touched under handlesMutex, one critical section, released on every path, no re-acquisition; %s' % (name, what),
              bounds='handle table <= %d entries at entry (thorough: 3) + entries added by the environment, 4 slots, 8 object addresses; counter below 2^64-16' % cap,
              thorough={'defines': {'VSTL_CAP': 3}, 'unwind': 5}, timeout=300)


_HM_OPS = [
    (0, 'addSession', 'returned handle is above every handle existing at entry and still denotes exactly the inserted session entry after other threads ran'),
    (1, 'getSession', 'result is what the handle denoted while the lock was held'),
    (2, 'addSessionObject', 'returned handle maps to the passed object (fresh: counter at lock time + 1; registered: the existing one; stale other-slot mapping: refused and forgotten)'),
    (3, 'addTokenObject', 'returned handle maps to the passed object (fresh / existing / stale as for session objects)'),
    (4, 'getObject', 'result is what the handle denoted while the lock was held'),
    (5, 'getObjectHandle', 'result is the mapping at lock time'),
    (6, 'destroyObject', 'the object handle is gone; nothing re-acquired'),
    (7, 'sessionClosed', 'session, its session objects and (last session of the slot) everything of the slot removed in ONE critical section; the nested allSessionsClosed(slot, true) does not lock again'),
    (8, 'allSessionsClosed', 'isLocked=false: takes the lock once; isLocked=true (caller holds it): takes none and leaves the caller\'s hold untouched'),
    (9, 'tokenLoggedOut', 'private object handles of the slot removed under the lock'),
    (10, 'lifecycle', 'constructor obtains the mutex and holds nothing; destructor recycles it and holds nothing'),
]


SM = ['session_mgr/SessionManager.cpp', 'session_mgr/Session.cpp', 'slot_mgr/Slot.cpp', 'slot_mgr/Token.cpp', 'data_mgr/SecureDataManager.cpp', 'data_mgr/ByteString.cpp']
SM_STUBS = {'_ZN7Session7resetOpEv': 'stub_resetOp'}


def _sm(op, name, what, nsess=3):
    return Ob('lock_sm_' + name, 'C18/lock_ind.cpp', SM, defines={'CLS': 2, 'OP': op, 'NSESS': nsess, 'BS_CAP': 4, 'LM_N': 5, 'VSTL_ACCESS_HOOK': 1}, unwind=nsess + 2,
              unwind_rules=LM_RULES, stubs=SM_STUBS, caps='C18/caps.h', noinline=True,
              desc='SessionManager::%s, one call from an arbitrary session table (2 tokens) with interference of other threads (they open / close sessions of their own) before the acquisition '
                   'and after the release of sessionsMutex: the sessions vector only touched under sessionsMutex, one critical section, nested Token::tokenMutex -> SecureDataManager::dataMgrMutex '
                   'in the written order, everything released; %s' % (name, what),
              bounds='session table <= %d entries (thorough: 4) including sessions opened by the environment, 2 tokens; Session::resetOp cut' % nsess,
              thorough={'defines': {'NSESS': 4}, 'unwind': 6}, timeout=300)


_SM_OPS = [
    (0, 'openSession', 'returned id denotes exactly the session created by this call in a spot that was free at lock time; the SO test for RO sessions runs inside the critical section'),
    (1, 'closeSession', 'exactly the caller\'s session goes; logout of the token happens iff no other session of the slot existed at lock time, inside the same critical section'),
    (2, 'closeAllSessions', 'every session of the slot existing at lock time goes, token logged out once, other slot untouched, inside one critical section'),
    (3, 'getSessionInfo', 'table lock released before the token is asked (no sessionsMutex -> tokenMutex nesting), info describes the caller\'s session'),
    (4, 'getSession', 'result is the table entry at lock time'),
    (5, 'haveSession', 'answer describes the table at lock time'),
    (6, 'haveROSession', 'answer describes the table at lock time'),
    (10, 'lifecycle', 'constructor obtains the mutex and holds nothing; destructor recycles it and holds nothing'),
]


def register(reg):
    obs = [_hm(*o) for o in _HM_OPS] + [_sm(*o) for o in _SM_OPS]
    reg.OBLIGATIONS['C18'] = obs
    reg.META['C18'] = dict(
        technique='lock-discipline + rely/guarantee interference, one inductive step per public method, decided by CBMC over the real sources',
        claim='for every pre-state within the capacities and every argument: (a) each access to a shared table happens under the mutex that guards it, '
              '(b) every method releases what it took on every path, (c) no mutex is re-acquired while held, (d) nested acquisitions follow one written global order, '
              '(e) the sequential contract of the return value holds although other threads change the guarded state arbitrarily (admissibly) whenever the mutex is not held',
        outside='real thread schedules and preemption inside a critical section; linearizability of whole C_* calls that are composed of several critical sections '
                '(e.g. C_CloseSession = HandleManager::getSession + SessionManager::closeSession + notifications); memory-model effects (visibility/reordering without a lock); '
                'that the OS / application mutex callbacks really exclude; the SQLite backend; accesses through raw vector iterators after begin() and scalar fields are only checked '
                'through the interference contract, not through the access hook; constructors/destructors are exclusive by contract (C_Initialize/C_Finalize)',
        assumptions=['mutexes are ghost counters (harness/C18/lock_model.h); other threads are modelled as one arbitrary admissible step on the guarded state at every acquisition from depth 0 and every release to depth 0',
                     'representation invariants of the managers (C11 / C03) hold at entry and are preserved by the environment steps (asserted)',
                     'written global lock order: sessionsMutex < storeMutex < Token::tokenMutex < OSToken::tokenMutex < objectMutex < dataMgrMutex < handlesMutex'],
        note='C18 as stated (all schedules of 2..16 threads) is not decided; this is the sequential discipline that makes each manager method atomic')
