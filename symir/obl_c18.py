"""C18 - thread safety with locking enabled, claimed as a LOCK DISCIPLINE + sequential interference check
(harness/C18/lock_ind.cpp, harness/C18/lock_model.h).  Plug-in of obligations.py: register(reg)."""
from run import Ob

HM = ['handle_mgr/HandleManager.cpp', 'handle_mgr/Handle.cpp']
LM_RULES = [(r'^harness', 40), (r'Mutex|lm_', 8), (r'env_step|snapshot', 8)]


def _hm(op, name, what, cap=2):
    return Ob('lock_hm_' + name, 'C18/lock_ind.cpp', HM, defines={'CLS': 1, 'OP': op, 'VSTL_CAP': cap, 'LM_N': 1, 'VSTL_ACCESS_HOOK': 1}, unwind=cap + 2,
              unwind_rules=LM_RULES,
              desc='HandleManager::%s, one call from an arbitrary INV table with interference of other threads before the acquisition and after the release of handlesMutex: '
                   'handles/objects only touched under handlesMutex, one critical section, released on every path, no re-acquisition; %s' % (name, what),
              bounds='handle table <= %d entries at entry (thorough: 3) + entries added by the environment, 4 slots, 8 object addresses; counter below 2^64-16' % cap,
              thorough={'defines': {'VSTL_CAP': 3}, 'unwind': 5, 'timeout': 900}, timeout=300)


_HM_OPS = [
    (0, 'addSession', 'returned handle is above every handle existing at entry and still denotes exactly the inserted session entry after other threads ran'),
    (1, 'getSession', 'result is what the handle denoted while the lock was held'),
    (2, 'addSessionObject', 'returned handle maps to the passed object (fresh: counter at lock time + 1; registered: the existing one; stale other-slot mapping: refused and forgotten)'),
    (3, 'addTokenObject', 'returned handle maps to the passed object (fresh / existing / stale as for session objects)'),
    (4, 'getObject', 'result is what the handle denoted while the lock was held'),
    (5, 'getObjectHandle', 'result is the mapping at lock time'),
    (6, 'destroyObject', 'the object handle is gone; nothing re-acquired'),
    (7, 'sessionClosed', 'session, its session objects and (last session of the slot) everything of the slot removed in ONE critical section; the nested allSessionsClosed(slot, true) does not lock again'),
    (8, 'allSessionsClosed', 'isLocked=false: takes the lock once; isLocked=true (caller holds it): takes none and leaves the caller\'s hold untouched'),
    (9, 'tokenLoggedOut', 'private object handles of the slot removed under the lock'),
    (10, 'lifecycle', 'constructor obtains the mutex and holds nothing; destructor recycles it and holds nothing'),
]


SM = ['session_mgr/SessionManager.cpp', 'session_mgr/Session.cpp', 'slot_mgr/Slot.cpp', 'slot_mgr/Token.cpp', 'data_mgr/SecureDataManager.cpp', 'data_mgr/ByteString.cpp']
SM_STUBS = {'_ZN7Session7resetOpEv': 'stub_resetOp'}


def _sm(op, name, what, nsess=3):
    return Ob('lock_sm_' + name, 'C18/lock_ind.cpp', SM, defines={'CLS': 2, 'OP': op, 'NSESS': nsess, 'BS_CAP': 4, 'LM_N': 5, 'VSTL_ACCESS_HOOK': 1}, unwind=nsess + 2,
              unwind_rules=LM_RULES, stubs=SM_STUBS, caps='C18/caps.h', noinline=True,
              desc='SessionManager::%s, one call from an arbitrary session table (2 tokens) with interference of other threads (they open / close sessions of their own) before the acquisition '
                   'and after the release of sessionsMutex: the sessions vector only touched under sessionsMutex, one critical section, nested Token::tokenMutex -> SecureDataManager::dataMgrMutex '
                   'in the written order, everything released; %s' % (name, what),
              bounds='session table <= %d entries (thorough: 4) including sessions opened by the environment, 2 tokens; Session::resetOp cut' % nsess,
              thorough={'defines': {'NSESS': 4}, 'unwind': 6, 'timeout': 900}, timeout=300)


_SM_OPS = [
    (0, 'openSession', 'returned id denotes exactly the session created by this call in a spot that was free at lock time; the SO test for RO sessions runs inside the critical section'),
    (1, 'closeSession', 'exactly the caller\'s session goes; logout of the token happens iff no other session of the slot existed at lock time, inside the same critical section'),
    (2, 'closeAllSessions', 'every session of the slot existing at lock time goes, token logged out once, other slot untouched, inside one critical section'),
    (3, 'getSessionInfo', 'table lock released before the token is asked (no sessionsMutex -> tokenMutex nesting), info describes the caller\'s session'),
    (4, 'getSession', 'result is the table entry at lock time'),
    (5, 'haveSession', 'answer describes the table at lock time'),
    (6, 'haveROSession', 'answer describes the table at lock time'),
    (10, 'lifecycle', 'constructor obtains the mutex and holds nothing; destructor recycles it and holds nothing'),
]


SOS = ['object_store/SessionObjectStore.cpp', 'object_store/SessionObject.cpp', 'object_store/OSAttribute.cpp', 'data_mgr/ByteString.cpp']


def _sos(op, name, what, cap=3, tiers=('quick', 'thorough')):
    return Ob('lock_sos_' + name, 'C18/lock_ind.cpp', SOS, defines={'CLS': 3, 'OP': op, 'VSTL_CAP': cap, 'BS_CAP': 4, 'LM_N': cap + 2, 'VSTL_ACCESS_HOOK': 1}, unwind=cap + 2,
              unwind_rules=LM_RULES, caps='C18/caps.h', tiers=tiers,
              desc='SessionObjectStore::%s, one call from an arbitrary store (objects subset of allObjects) with interference of other threads (they destroy / create session objects of their own) '
                   'around the critical section: objects / allObjects only touched under storeMutex, SessionObject::attributes only under that object\'s objectMutex, nesting storeMutex -> objectMutex, '
                   'one critical section, everything released; %s' % (name, what),
              bounds='%d session objects with <= 1 attribute + 1 object of another thread, sets of capacity %d (thorough: 4)' % (cap - 1, cap),
              thorough={'defines': {'VSTL_CAP': 4, 'LM_N': 6}, 'unwind': 6, 'timeout': 900, 'mem': 16}, timeout=300)


_SOS_OPS = [
    (0, 'createObject', 'the new object is in both sets at return and stays there'),
    (1, 'deleteObject', 'result == membership at lock time; removal and invalidation in the same critical section'),
    (2, 'sessionClosed', 'exactly the objects of the session (at lock time) are removed and invalidated'),
    (3, 'allSessionsClosed', 'exactly the objects of the slot (at lock time) are removed and invalidated'),
    (4, 'tokenLoggedOut', 'exactly the private objects of the slot (at lock time) are removed and invalidated'),
    (5, 'getObjects', 'the answer is the content at lock time'),
    (6, 'getObjectsSlot', 'the answer is the content for the slot at lock time'),
    (7, 'clearStore', 'both sets emptied and the objects destroyed inside one critical section'),
    (10, 'lifecycle', 'constructor obtains the mutex and holds nothing; destructor recycles it and holds nothing'),
]


TOK = ['slot_mgr/Token.cpp', 'data_mgr/SecureDataManager.cpp', 'data_mgr/ByteString.cpp', 'crypto/SymmetricAlgorithm.cpp', 'crypto/SymmetricKey.cpp', 'crypto/AESKey.cpp']
TOK_STUBS = {'_ZN17SecureDataManager5loginERK10ByteStringS2_': 'stub_sdm_login', '_ZN17SecureDataManager14reAuthenticateERK10ByteStringS2_': 'stub_sdm_reauth'}


def _tok(op, name, what):
    crypt = op in (7, 8)
    return Ob('lock_tok_' + name, 'C18/lock_ind.cpp', TOK, defines={'CLS': 4, 'OP': op, 'BS_CAP': 40 if crypt else 4, 'KEYLEN': 32 if crypt else 4, 'LM_N': 2, 'VSTL_ACCESS_HOOK': 1},
              unwind=42 if crypt else 6, unwind_rules=[(r'^harness', 40), (r'Mutex|lm_', 4)], stubs=TOK_STUBS, caps='C18/caps.h',
              desc='Token::%s, one call from an arbitrary login state with interference of other threads (they log in / out on the same token) before the acquisition and after the release of tokenMutex: '
                   'login flags, masked key, PIN blobs and the token\'s single AES instance / RNG only used under tokenMutex, dataMgrMutex nested inside it, one critical section, everything released; %s' % (name, what),
              bounds='one token; PIN <= 2 bytes; PBE/AES internals of SecureDataManager::login / reAuthenticate cut to a lock-faithful contract; AES = monitor with symbolic results',
              timeout=300)


_TOK_OPS = [
    (0, 'isValid', 'answer under the lock'),
    (1, 'isSOLoggedIn', 'answer is the flag at lock time'),
    (2, 'isUserLoggedIn', 'answer is the flag at lock time'),
    (3, 'loginSO', 'nobody-logged-in test, PIN check and flag update in one critical section: result and state at release explained by the state at lock time'),
    (4, 'loginUser', 'nobody-logged-in test, PIN check and flag update in one critical section'),
    (5, 'reAuthenticate', 'never changes who is logged in; result explained by the state at lock time'),
    (6, 'logout', 'flags cleared and key wiped under tokenMutex -> dataMgrMutex'),
    (7, 'decrypt', 'login test, key unmasking (dataMgrMutex) and AES use inside one tokenMutex section'),
    (8, 'encrypt', 'login test, key unmasking (dataMgrMutex), RNG and AES use inside one tokenMutex section'),
]


def _smr(op, name, what):
    return Ob('lock_smr_' + name, 'C18/lock_ind.cpp', ['data_mgr/SecureMemoryRegistry.cpp'], defines={'CLS': 5, 'OP': op, 'VSTL_CAP': 3, 'LM_N': 1, 'VSTL_ACCESS_HOOK': 1}, unwind=5,
              unwind_rules=[(r'^harness', 40), (r'Mutex|lm_', 4)], caps='C18/caps.h',
              desc='SecureMemoryRegistry::%s, one call from an arbitrary registry with interference of other threads (they register / unregister blocks of their own): registry only touched under its mutex, '
                   'one critical section, released; %s' % (name, what),
              bounds='registry <= 3 entries, blocks <= 2 bytes', timeout=300)


_SMR_OPS = [(0, 'add', 'the block is registered with the given size'), (1, 'remove', 'returns the size registered at lock time; entry gone'), (2, 'wipe', 'blocks registered at lock time are zeroed under the lock')]


def register(reg):
    obs = [_hm(*o) for o in _HM_OPS] + [_sm(*o) for o in _SM_OPS] + [_sos(*o) for o in _SOS_OPS] + [_tok(*o) for o in _TOK_OPS] + [_smr(*o) for o in _SMR_OPS]
    # KNOWN: SessionObjectStore::getObjectCount() reads objects.size() without storeMutex (L9001).  In no tier: run with --any-tier --only lock_sos_getObjectCount
    obs.append(_sos(8, 'getObjectCount', 'KNOWN unguarded read of objects.size()', tiers=()))
    reg.OBLIGATIONS['C18'] = obs
    # C03: the SessionManager obligations also carry the functional contracts (exactly the caller's session / every session of the slot goes, the other token's table entries keep their place, logout exactly on the last close)
    reg.OBLIGATIONS['C03'] = reg.OBLIGATIONS['C03'] + [o for o in obs if o.name in ('lock_sm_openSession', 'lock_sm_closeSession', 'lock_sm_closeAllSessions')]
    # C01 / C11: logout-on-last-close and the notifications of C_CloseSession decide whether private objects stay reachable / which handles die
    for _p in ('C01', 'C11'):
        reg.OBLIGATIONS[_p] = reg.OBLIGATIONS[_p] + [o for o in obs if o.name == 'lock_sm_closeSession'] + [o for o in reg.OBLIGATIONS['C03'] if o.name == 'sess_close_s1_t0']
    # Token PIN functions (real Token::setUserPIN / setSOPIN / initUserPIN, harness/C04/token_pin.cpp): the whole operation is ONE critical section of tokenMutex
    reg.OBLIGATIONS['C18'] = reg.OBLIGATIONS['C18'] + [o for o in reg.OBLIGATIONS['C04'] if o.name in ('tokpin_setuserpin', 'tokpin_setsopin', 'tokpin_inituserpin')]
    reg.META['C18'] = dict(
        technique='lock discipline + rely/guarantee interference, one inductive step per public method (P-IND), decided by CBMC over the real sources; '
                  'container models report every access (vstl_access hook), the mutex model keeps ghost hold counters, checks recursion / order / balance and lets the environment '
                  'run at every acquisition from depth 0 and every release to depth 0',
        claim='for HandleManager, SessionManager, SessionObjectStore (+ SessionObject attribute maps), Token + SecureDataManager and SecureMemoryRegistry, for every pre-state within the capacities and every argument: '
              '(a) each access to a shared table happens under the mutex that guards it (L9001), (b) every method releases what it took on every path and never unlocks what it does not hold (L9003), '
              '(c) no mutex is re-acquired while held (L9002: self-deadlock on non-recursive OS mutexes), (d) nested acquisitions follow one written global order (L9004; the nestings sessionsMutex -> tokenMutex -> dataMgrMutex and '
              'storeMutex -> objectMutex are witnessed), (e) each method is ONE critical section over its table and the sequential contract of its return value / of the state at release holds although other threads change the '
              'guarded state arbitrarily (admissibly) whenever the mutex is not held - which refutes values read before the lock or after the unlock (e.g. a counter re-read for the return value) and check-then-act splits',
        outside='real thread schedules and preemption; linearizability of whole C_* calls that are composed of several critical sections (e.g. C_CloseSession = HandleManager::getSession + SessionManager::closeSession + '
                'two notifications; every SoftHSM.cpp wrapper uses the Session* after sessionsMutex / handlesMutex were released and relies on "a thread uses its own session"); memory-model effects; that the OS / application '
                'mutex callbacks exclude (MutexFactory.cpp / osmutex.cpp are replaced by the ghost model); OSToken / ObjectFile / Directory / Generation / SlotManager / SoftHSM.cpp (no obligations yet); the SQLite backend; '
                'scalar fields and elements reached through raw vector iterators are not seen by the access hook, only by the interference contracts; constructors / destructors and the lazily created singletons '
                '(MutexFactory::i, SecureMemoryRegistry::i, CryptoFactory::i: unlocked check-then-create) are exclusive by contract (C_Initialize / C_Finalize); '
                'PBE/AES internals of SecureDataManager::login / reAuthenticate (cut to a lock-faithful contract); Session::resetOp (cut)',
        assumptions=['mutexes are ghost counters (harness/C18/lock_model.h); other threads are one arbitrary admissible step on the guarded state at every acquisition from depth 0 and every release to depth 0 '
                     '(environment steps written per class in harness/C18/lock_ind.cpp; they preserve the representation invariant - asserted)',
                     'what the calling thread owns (its session, the object it passes in, the block it registers) is not removed by other threads: C18 quantifies over threads that use different sessions',
                     'representation invariants of the managers (C11 / C03) at entry',
                     'written global lock order: sessionsMutex < storeMutex < Token::tokenMutex < OSToken::tokenMutex < objectMutex < dataMgrMutex < handlesMutex < SecMemRegistryMutex',
                     'SecureDataManager state (login flags, masked key, PIN blobs, AES instance) is guarded by the owning Token::tokenMutex: SecureDataManager itself reads the flags and maskedKey.size() outside dataMgrMutex'],
        note='C18 as stated (all schedules of 2..16 threads, results explained by a sequential order) is NOT decided; this is the sequential discipline that makes each manager method atomic. '
             'KNOWN: SessionObjectStore::getObjectCount() reads objects.size() without storeMutex (obligation lock_sos_getObjectCount, in no tier; only the unit test calls it)')
