#!/usr/bin/env python3
"""symir runner: decides the obligations of one property by bounded symbolic execution of
the real SoftHSMv2 sources (clang IR -> ir2c -> CBMC), with reachability witnesses,
translator validation, native replay of counterexamples, known-findings handling and
evidence output.  See /verif/DESIGN.md.

usage: run.py <PROPERTY> [--tier quick|thorough] [--only NAME[,NAME]] [--keep] [--jobs N]
       run.py <PROPERTY> --replay <replay.json>
exit 0 = every obligation proved within its bounds (KNOWN-FINDING lines allowed)
exit 1 = replay-confirmed violation not listed in known-findings.txt (VIOLATION line printed)
exit 2 = machinery error / no verdict (budget, vacuous harness, translator divergence,
         unconfirmed counterexample) - never reported as success
"""
import os, sys, json, time, subprocess, shutil, hashlib, re, argparse, tempfile, resource, threading
from concurrent.futures import ThreadPoolExecutor

VERIF = os.path.dirname(os.path.dirname(os.path.abspath(__file__)))
REPO = os.environ.get('VERIF_REPO', '/repo')
sys.path.insert(0, os.path.join(VERIF, 'symir'))
import ir2c  # noqa

SRC = os.path.join(REPO, 'src', 'lib')
REPO_INC = ['', 'common', 'crypto', 'data_mgr', 'handle_mgr', 'object_store', 'pkcs11', 'session_mgr', 'slot_mgr']
CLANG_FLAGS = ['-std=c++20', '-O1', '-fno-vectorize', '-fno-slp-vectorize', '-fno-unroll-loops',
               '-fno-threadsafe-statics', '-fno-strict-aliasing', '-Wno-everything', '-DNDEBUG', '-DHAVE_CONFIG_H',
               '-flto', '-fwhole-program-vtables', '-fvisibility=hidden']   # the last three make clang record the static class of every virtual call (llvm.type.test)
EVIDENCE_DIR = os.path.join(VERIF, 'evidence')
KNOWN = os.path.join(VERIF, 'known-findings.txt')
print_lock = threading.Lock()


def log(*a):
    with print_lock:
        print(*a, flush=True)


def inc_flags():
    dirs = [os.path.join(VERIF, 'vstl'), os.path.join(VERIF, 'harness', 'common'), os.path.join(VERIF, 'symir', 'config')]
    dirs += [os.path.join(SRC, d) for d in REPO_INC]
    return ['-I' + d for d in dirs]


def run(cmd, cwd=None, timeout=None, mem_gb=None, stdout=None, stdin=None):
    def pre():
        os.setsid()
        if mem_gb:
            b = int(mem_gb * (1 << 30)); resource.setrlimit(resource.RLIMIT_AS, (b, b))
    t0 = time.time()
    p = subprocess.Popen(cmd, cwd=cwd, stdout=stdout or subprocess.PIPE, stderr=subprocess.PIPE, preexec_fn=pre, stdin=stdin)
    try:
        so, se = p.communicate(timeout=timeout)
        return p.returncode, (so or b'').decode(errors='replace') if stdout is None else '', (se or b'').decode(errors='replace'), time.time() - t0
    except subprocess.TimeoutExpired:
        # kill the whole process group (the command may be wrapped, e.g. /usr/bin/time cbmc ...): no orphan solver keeps running
        try: os.killpg(p.pid, 9)
        except Exception: pass
        try: so, se = p.communicate(timeout=10)
        except Exception: so, se = b'', b''
        return -9, (so or b'').decode(errors='replace') if stdout is None else '', 'TIMEOUT', time.time() - t0


class Ob:
    """One obligation = one harness configuration = one CBMC run."""
    def __init__(s, name, harness, real=(), defines=None, unwind=6, unwindset=None, stubs=None, flags=(),
                 desc='', bounds='', tiers=('quick', 'thorough'), thorough=None, timeout=None, mem=None,
                 diff=None, throw_assert=False, checks=False, expect_unreached=(), extra_c=(), encodes=(), caps=None, unwind_rules=(), noinline=False):
        s.name = name; s.harness = harness; s.real = list(real); s.defines = dict(defines or {})
        s.unwind = unwind; s.unwindset = dict(unwindset or {}); s.stubs = dict(stubs or {}); s.flags = list(flags)
        s.desc = desc; s.bounds = bounds; s.tiers = tiers; s.thorough = thorough or {}
        s.timeout = timeout; s.mem = mem; s.diff = diff; s.throw_assert = throw_assert; s.checks = checks
        s.noinline = noinline; s.unwind_rules = list(unwind_rules); s.caps = caps; s.expect_unreached = set(expect_unreached); s.extra_c = list(extra_c); s.encodes = list(encodes)

    def for_tier(s, tier):
        if tier == 'thorough' and s.thorough:
            o = Ob.__new__(Ob); o.__dict__.update(s.__dict__)
            o.defines = dict(s.defines)
            for k, v in s.thorough.items():
                if k == 'defines': o.defines.update(v)
                else: setattr(o, k, v)
            return o
        return s


def define_flags(d, ob=None):
    inc = ['-include', os.path.join(VERIF, 'harness', ob.caps)] if ob is not None and ob.caps else []
    return inc + ['-D%s=%s' % (k, v) if v is not None else '-D' + k for k, v in d.items()]


def build_ir(ob, W):
    """compile harness + real TUs of the CURRENT /repo tree to one normalised IR module"""
    lls = []
    srcs = [os.path.join(VERIF, 'harness', ob.harness)] + [os.path.join(SRC, r) for r in ob.real]
    for i, src in enumerate(srcs):
        out = os.path.join(W, 'tu%d.ll' % i)
        cmd = ['clang++-14'] + CLANG_FLAGS + (['-fno-inline'] if ob.noinline else []) + inc_flags() + define_flags(ob.defines, ob) + ['-S', '-emit-llvm', src, '-o', out]   # -fno-inline: a cut (--stub) function must not have been inlined into its callers
        rc, so, se, dt = run(cmd, timeout=300)
        if rc != 0: raise RuntimeError('clang failed on %s:\n%s' % (src, se[-3000:]))
        lls.append(out)
    allll = os.path.join(W, 'all.ll')
    rc, so, se, dt = run(['llvm-link-14', '-S'] + lls + ['-o', allll], timeout=120)
    if rc != 0: raise RuntimeError('llvm-link failed:\n' + se[-3000:])
    norm = os.path.join(W, 'norm.ll')
    rc, so, se, dt = run(['opt-14', '-S', '-passes=loop-simplify', allll, '-o', norm], timeout=120)
    if rc != 0: raise RuntimeError('opt failed:\n' + se[-3000:])
    return norm


def translate(ob, W, norm):
    text = open(norm).read()
    rename = dict(ob.stubs)
    roots = ['harness'] + [v for v in ob.stubs.values()]
    c, info = ir2c.translate(text, roots, set(ob.stubs.keys()), rename)
    gen = os.path.join(W, 'gen.c')
    open(gen, 'w').write(c)
    with open(os.path.join(W, 'vraw_defs.c'), 'w') as f:   # definitions of the harness's raw typed storage for the native C++ build
        for name, size in info.get('vraw', []): f.write('char %s[%d] __attribute__((aligned(16)));\n' % (name, size))
    return gen, info


CBMC_BASE = ['--function', 'ir_entry', '--unwinding-assertions', '--drop-unused-functions', '--json-ui',
             '--object-bits', '10', '--sat-solver', 'cadical']


DEFAULT_UNWIND_RULES = [(r'GLOBAL__sub_I|__cxx_global_var_init', 40)]


def loop_unwindset(ob, W, gen):
    """per-loop bounds: loops whose id matches a rule get that bound (static initialisers, harness set-up loops, ...)"""
    cache = os.path.join(W, 'unwindset.txt')
    if os.path.exists(cache): return open(cache).read().strip()
    rules = list(ob.unwind_rules) + DEFAULT_UNWIND_RULES
    rc, so, se, dt = run(['cbmc', gen, os.path.join(VERIF, 'harness', 'common', 'env_cbmc.c'), '--show-loops'], cwd=W, timeout=300)
    sets = dict(ob.unwindset)
    for m in re.finditer(r'^Loop (\S+):', so, re.M):
        lid = m.group(1)
        for rx, b in rules:
            if re.search(rx, lid) and lid not in sets: sets[lid] = b; break
    txt = ','.join('%s:%d' % kv for kv in sets.items())
    open(cache, 'w').write(txt)
    return txt


def cbmc_cmd(ob, W, gen, extra=(), slice_formula=True):
    cmd = ['cbmc', gen, os.path.join(VERIF, 'harness', 'common', 'env_cbmc.c')] + [os.path.join(VERIF, 'harness', x) for x in ob.extra_c]
    cmd += CBMC_BASE + ['--unwind', str(ob.unwind)]
    if slice_formula: cmd += ['--slice-formula']   # not for trace runs: slicing drops nondet inputs outside the cone of influence from the trace
    us = loop_unwindset(ob, W, gen)
    if us: cmd += ['--unwindset', us]
    if not ob.checks: cmd += ['--no-standard-checks']
    else: cmd += ['--pointer-check', '--bounds-check', '--div-by-zero-check', '--no-signed-overflow-check',
                  '--no-pointer-primitive-check', '--no-undefined-shift-check', '--no-malloc-may-fail']
    if ob.throw_assert: cmd += ['-DTHROW_IS_ASSERT']
    if 'VSTL_ACCESS_HOOK' in ob.defines: cmd += ['-DVSTL_ACCESS_HOOK']
    cmd += list(ob.flags) + list(extra)
    return cmd


def parse_cbmc_json(txt):
    try:
        data = json.loads(txt)
    except Exception:
        # truncated output (timeout / OOM): no verdict
        return None, None, txt[-2000:]
    results = None; status = None; msgs = []
    for el in data:
        if isinstance(el, dict):
            if 'result' in el: results = el['result']
            if 'cProverStatus' in el: status = el['cProverStatus']
            if el.get('messageType') in ('ERROR', 'WARNING') and 'messageText' in el: msgs.append(el['messageText'])
    return results, status, '\n'.join(msgs)[-3000:]


def classify(desc):
    m = re.match(r'vassert L(\d+)', desc)
    if m: return 'vassert', int(m.group(1))
    m = re.match(r'vreach L(\d+)', desc)
    if m: return 'vreach', int(m.group(1))
    if 'unwinding assertion' in desc: return 'unwind', 0
    if 'recursion' in desc: return 'unwind', 0
    return 'check', 0


def extract_stream(trace):
    """nondet input stream from a CBMC trace.  Every call of a vnd_* wrapper appears as a function-call step (also when the
    formula was sliced); its value is the (non-hidden) assignment to `vnd_value` inside it - absent when slicing found the input
    irrelevant for the property, in which case any value will do (0)."""
    vals = []
    for st in trace:
        t = st.get('stepType')
        if t == 'function-call':
            fn = st.get('function', {}).get('identifier', '') or st.get('function', {}).get('displayName', '')
            if fn in ('vnd_ulong', 'vnd_uint', 'vnd_uchar'): vals.append(0)
            continue
        if t != 'assignment' or st.get('hidden'): continue
        if st.get('lhs', '') != 'vnd_value': continue
        fn = st.get('sourceLocation', {}).get('function', '')
        if not fn.startswith('vnd_'): continue
        v = st.get('value', {})
        x = 0
        if 'binary' in v: x = int(v['binary'], 2)
        elif 'data' in v:
            try: x = int(str(v['data']).rstrip('ul')) & (2**64 - 1)
            except ValueError: x = 0
        if vals: vals[-1] = x
        else: vals.append(x)
    return vals


def link_with_stubs(link, W, mode):
    """link; functions of translation units that are not part of the obligation (unreachable from the harness)
    get aborting definitions so that the executable links"""
    rc, so, se, dt = run(link, timeout=600)
    if rc == 0: return
    und = sorted(set(re.findall(r"undefined reference to `([A-Za-z0-9_]+)'", se)))
    if not und: raise RuntimeError('link failed:\n' + se[-3000:])
    stub = os.path.join(W, 'undef_stubs_%s.c' % mode)
    with open(stub, 'w') as f:
        f.write('#include <stdlib.h>\n#include <stdio.h>\n')
        for u in und:
            if u.startswith(('_ZTV', '_ZTI', '_ZTS')): f.write('char %s[512];\n' % u)
            else: f.write('void %s(void) { fprintf(stderr, "unlinked function %s reached\\n"); abort(); }\n' % (u, u))
    so_ = os.path.join(W, 'undef_stubs_%s.o' % mode)
    rc, so, se, dt = run(['gcc', '-c', '-w', stub, '-o', so_], timeout=60)
    if rc != 0: raise RuntimeError('stub compile failed:\n' + se[-2000:])
    rc, so, se, dt = run(link + [so_], timeout=600)
    if rc != 0: raise RuntimeError('link failed:\n' + se[-3000:])

def native_build(ob, W, mode):
    """mode 'cxx': g++ build of harness + real sources (the real code, real compiler);
       mode 'c'  : gcc build of the generated C (what CBMC analysed)."""
    env_native = os.path.join(VERIF, 'harness', 'common', 'env_native.c')
    envo = os.path.join(W, 'env_native_%s.o' % mode)
    hook = ['-DVSTL_ACCESS_HOOK'] if 'VSTL_ACCESS_HOOK' in ob.defines else []
    san = ['-fsanitize=address,undefined', '-fno-sanitize-recover=undefined', '-fno-sanitize=vptr'] if mode == 'cxx_san' else []
    rc, so, se, dt = run(['gcc', '-O1', '-g', '-c', env_native, '-o', envo] + hook + san, timeout=120)
    if rc != 0: raise RuntimeError('gcc env_native failed: ' + se[-2000:])
    exe = os.path.join(W, 'native_' + mode)
    if os.path.exists(exe): return exe
    if mode in ('cxx', 'cxx_san'):
        srcs = [os.path.join(VERIF, 'harness', ob.harness)] + [os.path.join(SRC, r) for r in ob.real]
        objs = []
        for i, src in enumerate(srcs):
            o = os.path.join(W, 'n%s_%d.o' % (mode, i))
            cmd = ['g++', '-std=c++20', '-O1', '-fno-inline', '-g', '-w', '-fno-strict-aliasing', '-fpermissive', '-DNDEBUG', '-DHAVE_CONFIG_H'] + san + inc_flags() + define_flags(ob.defines, ob) + ['-c', src, '-o', o]
            rc, so, se, dt = run(cmd, timeout=600)
            if rc != 0: raise RuntimeError('g++ failed on %s:\n%s' % (src, se[-3000:]))
            if ob.stubs and i > 0:
                # same cuts as in the encoding: the stubbed functions become weak, a shim redirects them to the harness monitor
                rc, so, se, dt = run(['objcopy'] + ['--weaken-symbol=' + k for k in ob.stubs] + [o], timeout=60)
                if rc != 0: raise RuntimeError('objcopy failed: ' + se[-1000:])
            objs.append(o)
        if ob.stubs:
            shim = os.path.join(W, 'shim_%s.s' % mode)
            with open(shim, 'w') as f:
                f.write('\t.text\n')
                for k, v in ob.stubs.items(): f.write('\t.globl %s\n\t.type %s, @function\n%s:\n\tjmp %s\n' % (k, k, k, v))
                f.write('\t.section .note.GNU-stack,"",@progbits\n')
            so_ = os.path.join(W, 'shim_%s.o' % mode)
            rc, so, se, dt = run(['gcc', '-c', shim, '-o', so_], timeout=60)
            if rc != 0: raise RuntimeError('shim failed: ' + se[-1000:])
            objs.append(so_)
        vr = os.path.join(W, 'vraw_defs.o')
        rc, so, se, dt = run(['gcc', '-c', os.path.join(W, 'vraw_defs.c'), '-o', vr], timeout=60)
        if rc != 0: raise RuntimeError('vraw_defs failed: ' + se[-1000:])
        objs.append(vr)
        link_with_stubs(['g++', '-o', exe] + san + objs + [envo] + ['-Wl,--allow-multiple-definition', '-Wl,--no-demangle'], W, mode)
    else:
        extra = [os.path.join(VERIF, 'harness', x) for x in ob.extra_c]
        cmd = ['gcc', '-O1', '-g', '-w', '-fno-strict-aliasing', '-o', exe, os.path.join(W, 'gen.c'), os.path.join(VERIF, 'harness', 'common', 'env_native_rt.c'), envo] + extra + hook + ['-lstdc++']
        link_with_stubs(cmd + ['-Wl,--no-demangle'], W, mode)
    return exe


def differential(ob, W, seed, n):
    """translator validation: generated C (gcc) vs the real C++ (g++) on the same pseudo-random nondet streams"""
    a = native_build(ob, W, 'cxx'); b = native_build(ob, W, 'c')
    env = dict(os.environ, ASAN_OPTIONS='detect_leaks=0')
    ra = subprocess.run([a, '--fuzz', str(seed), str(n)], stdout=subprocess.PIPE, stderr=subprocess.DEVNULL, env=env, timeout=600).stdout.decode()
    rb = subprocess.run([b, '--fuzz', str(seed), str(n)], stdout=subprocess.PIPE, stderr=subprocess.DEVNULL, env=env, timeout=600).stdout.decode()
    la, lb = ra.strip().split('\n'), rb.strip().split('\n')
    diverge = [(x, y) for x, y in zip(la, lb) if x != y]
    if len(la) != len(lb): diverge.append(('len %d' % len(la), 'len %d' % len(lb)))
    kinds = {}
    for x in la:
        k = x.split()[1] if len(x.split()) > 1 else '?'
        kinds[k] = kinds.get(k, 0) + 1
    return dict(streams=n, divergences=len(diverge), first_divergence=diverge[:1], outcomes=kinds)


def replay_native(ob, W, stream, sanitize=True):
    exe = native_build(ob, W, 'cxx_san' if sanitize else 'cxx')
    sf = os.path.join(W, 'stream.txt')
    open(sf, 'w').write('\n'.join(str(v) for v in stream) + '\n')
    env = dict(os.environ, ASAN_OPTIONS='detect_leaks=0:abort_on_error=0', UBSAN_OPTIONS='print_stacktrace=1')
    p = subprocess.run([exe, '--replay', sf], stdout=subprocess.PIPE, stderr=subprocess.PIPE, env=env, timeout=300)
    out = p.stdout.decode(errors='replace'); err = p.stderr.decode(errors='replace')
    return p.returncode, out, err


def expand_key(key):
    m = re.search(r'\{([0-9.,]+)\}', key)
    if not m: return [key]
    out = []
    for part in m.group(1).split(','):
        if '..' in part:
            a, b = part.split('..'); out += list(range(int(a), int(b) + 1))
        else: out.append(int(part))
    return [key[:m.start()] + str(n) + key[m.end():] for n in out]


def load_known():
    findings = []; fixed = []
    if os.path.exists(KNOWN):
        for ln in open(KNOWN):
            ln = ln.strip()
            if not ln or ln.startswith('#'): continue
            m = re.match(r'finding:\s+property=(\S+)\s+key=(\S+)\s+(.*)', ln)
            if m:
                # a key may enumerate instances of one obligation family explicitly: name_{0..15,25..32}:L126
                for k in expand_key(m.group(2)): findings.append(dict(prop=m.group(1), key=k, text=m.group(3)))
                continue
            m = re.match(r'fixed:\s+property=(\S+)\s+(\S+)\s+(.*)', ln)
            if m: fixed.append(dict(prop=m.group(1), commit=m.group(2), text=m.group(3)))
    return findings, fixed


def decide(prop, ob, tier, seed, workroot, keep=False):
    """run one obligation; returns a result dict"""
    t0 = time.time()
    W = os.path.join(workroot, ob.name); os.makedirs(W, exist_ok=True)
    R = dict(name=ob.name, desc=ob.desc, bounds=ob.bounds, harness=ob.harness, real_tus=ob.real, defines=ob.defines,
             unwind=ob.unwind, status='error', detail='', violations=[], known=[], props=0, proved=0, reach=0, asserts_proved=0,
             functions=[], cbmc_s=0.0, rss_kb=0, diff=None, stubs=ob.stubs)
    try:
        norm = build_ir(ob, W)
        gen, info = translate(ob, W, norm)
        R['functions'] = [f for f in info['functions']]
        R['externals'] = info['externals']
        timeout = ob.timeout or (240 if tier == 'quick' else 1500)
        mem = ob.mem or (12 if tier == 'quick' else 28)
        timef = os.path.join(W, 'time.txt')
        cmd = ['/usr/bin/time', '-f', '%e %M', '-o', timef] + cbmc_cmd(ob, W, gen)
        outf = os.path.join(W, 'cbmc.json')
        with open(outf, 'wb') as fo:
            rc, so, se, dt = run(cmd, cwd=W, timeout=timeout, mem_gb=mem, stdout=fo)
        R['cbmc_s'] = round(dt, 2)
        try:
            R['rss_kb'] = int(open(timef).read().split()[-1])
        except Exception: pass
        txt = open(outf, errors='replace').read()
        results, status, msgs = parse_cbmc_json(txt)
        if rc == -9 or results is None:
            R['status'] = 'budget' if rc == -9 or 'std::bad_alloc' in se or 'Out of memory' in txt or rc in (-6, 134, 137, -9) else 'error'
            R['detail'] = 'no verdict within %ds/%dGB (rc=%s) %s %s' % (timeout, mem, rc, msgs, se[-500:])
            return R
        failed_asserts = []; unreached = []; other_fail = []; unknown = []
        nreach = 0
        for r in results:
            kind, line = classify(r.get('description', ''))
            R['props'] += 1
            st = r['status']
            if kind == 'vreach':
                nreach += 1
                if st == 'FAILURE': R['reach'] += 1
                elif line not in ob.expect_unreached: unreached.append(line)
            elif st not in ('SUCCESS', 'FAILURE'):
                unknown.append(r['property'])      # CBMC reports UNKNOWN for properties behind a failing one: neither proved nor refuted
            elif kind == 'vassert':
                if st == 'SUCCESS': R['proved'] += 1; R['asserts_proved'] += 1
                else: failed_asserts.append((r['property'], line, r.get('description', '')))
            elif kind == 'unwind':
                if st == 'SUCCESS': R['proved'] += 1
                else: other_fail.append('unwinding bound too small: %s %s' % (r['property'], r.get('sourceLocation', {}).get('function', '')))
            else:
                if st == 'SUCCESS': R['proved'] += 1
                else: failed_asserts.append((r['property'], -1, r.get('description', '')))
        if other_fail:
            R['status'] = 'error'; R['detail'] = '; '.join(other_fail[:5]); return R
        if unknown and not failed_asserts:
            R['status'] = 'error'; R['detail'] = '%d properties with status UNKNOWN and no refuted one (e.g. %s)' % (len(unknown), unknown[0]); return R
        if nreach == 0:
            R['status'] = 'error'; R['detail'] = 'harness has no reachability witness'; return R
        if unreached and not failed_asserts:
            R['status'] = 'vacuous'; R['detail'] = 'reachability witnesses not reachable: lines %s' % unreached; return R
        if failed_asserts:
            findings, fixed = load_known()
            failed_lines = set(l for (_, l, _) in failed_asserts if l > 0)
            seen_keys = set()
            # memory-safety checks (line -1): one corrupted write makes hundreds of later checks fail - a few traces are enough; the first
            # one that reproduces natively (sanitizer report / crash) is THE violation, checks whose trace cannot be obtained are skipped
            mem_checks = [f for f in failed_asserts if f[1] == -1]
            failed_asserts = [f for f in failed_asserts if f[1] != -1] + mem_checks[:4]
            mem_confirmed = False; mem_tried = 0
            for (pname, line, desc) in failed_asserts:
                if line == -1 and mem_confirmed: continue
                key = '%s:L%d' % (ob.name, line)
                # counterexample trace for this property
                # (a sliced trace may take arbitrary branches outside the cone of influence of the property, which misaligns the nondet stream:
                #  when the stream of the sliced trace does not reproduce natively, the trace is computed once more WITHOUT slicing)
                for use_slice in (True, False):
                    cmd2 = cbmc_cmd(ob, W, gen, ['--property', pname, '--trace'], slice_formula=use_slice)
                    o2 = os.path.join(W, 'trace_%s%s.json' % (re.sub(r'\W', '_', pname), '' if use_slice else '_noslice'))
                    with open(o2, 'wb') as fo:
                        rc2, _, se2, dt2 = run(cmd2, cwd=W, timeout=timeout * 2, mem_gb=mem, stdout=fo)
                    res2, st2, _ = parse_cbmc_json(open(o2, errors='replace').read())
                    trace = None
                    for r in (res2 or []):
                        if r.get('property') == pname and r.get('status') == 'FAILURE': trace = r.get('trace')
                    if trace is None:
                        if not use_slice: break    # no unsliced trace within the budget: the verdict of the sliced pass (unconfirmed) stands
                        if line == -1: break       # try the next failing memory check
                        R['status'] = 'error'; R['detail'] = 'could not obtain trace for %s' % pname; return R
                    stream = extract_stream(trace)
                    rcn, outn, errn = replay_native(ob, W, stream)
                    confirmed = False; how = ''
                    mfail = re.search(r'ASSERT-FAIL (\d+) ', outn)
                    if line > 0 and ('ASSERT-FAIL %d ' % line) in outn: confirmed = True; how = 'native assertion L%d failed' % line
                    elif line > 0 and mfail and int(mfail.group(1)) in failed_lines:
                        # the native run stops at the FIRST failing assertion; an earlier harness assertion that CBMC also refuted fails first
                        confirmed = True; how = 'native run fails the earlier assertion L%s (also refuted by CBMC) before reaching L%d' % (mfail.group(1), line)
                        line = int(mfail.group(1)); key = '%s:L%d' % (ob.name, line)
                    elif line > 0 and mem_checks and (rcn not in (0, 10, 12) or 'ERROR: AddressSanitizer' in errn or 'runtime error' in errn):
                        # the native run dies of a memory error before it reaches the harness assertion, and CBMC refuted memory checks as well: that IS the violation
                        confirmed = True; how = 'native run crashed / sanitizer report before reaching L%d (CBMC also refutes %d memory checks): %s' % (line, len(mem_checks), errn.strip().split('\n')[0] if errn.strip() else 'rc=%d' % rcn)
                        line = -1; key = '%s:L-1' % ob.name; mem_confirmed = True
                    elif line == 0 and ('THROW' in outn or 'OOB' in outn or 'terminate' in errn): confirmed = True; how = 'native run: ' + ('out-of-range container access' if 'OOB' in outn else 'C++ exception thrown') + ': ' + outn.strip()[-100:]
                    elif line == -1 and (rcn not in (0, 10, 12) or 'ERROR: AddressSanitizer' in errn or 'runtime error' in errn):
                        confirmed = True; how = 'native run crashed / sanitizer report: ' + (errn.strip().split('\n')[0] if errn.strip() else 'rc=%d' % rcn)
                    if confirmed: break
                if line == -1:
                    mem_tried += 1
                    if trace is None or not confirmed:
                        if mem_tried < len(mem_checks[:4]): continue     # another failing check may reproduce
                        if trace is None: R['status'] = 'error'; R['detail'] = 'could not obtain a trace for any of the failing memory checks (%s ...)' % pname; return R
                    else: mem_confirmed = True
                rp = dict(property=prop, obligation=ob.name, tier=tier, assertion_line=line, cbmc_property=pname, description=desc,
                          stream=stream, native_output=outn[-500:], native_stderr=errn[-1500:], confirmed=confirmed, how=how,
                          harness=ob.harness, defines=ob.defines)
                os.makedirs(os.path.join(VERIF, 'replays'), exist_ok=True)
                rpath = os.path.join(VERIF, 'replays', '%s_%s_L%d.json' % (prop, ob.name, line))
                json.dump(rp, open(rpath, 'w'), indent=1)
                if not confirmed:
                    R['status'] = 'unconfirmed'; R['detail'] = 'counterexample for %s (L%d) did not reproduce natively: %s | %s' % (pname, line, outn.strip()[-200:], errn.strip()[-300:]); R['replay'] = rpath
                    return R
                if key in seen_keys: continue
                seen_keys.add(key)
                kf = [f for f in findings if f['prop'] == prop and f['key'] == key]
                if kf: R['known'].append(dict(key=key, text=kf[0]['text'], replay=rpath))
                else: R['violations'].append(dict(key=key, line=line, desc=desc, replay=rpath, how=how))
            R['status'] = 'violation' if R['violations'] else 'ok'
            if unreached and not R['violations']:
                R['status'] = 'vacuous'; R['detail'] = 'reachability witnesses not reachable: lines %s' % unreached
            return R
        R['status'] = 'ok'
        # translator validation
        n = ob.diff if ob.diff is not None else (300 if tier == 'quick' else 5000)
        if n:
            d = differential(ob, W, seed, n); R['diff'] = d
            if d['divergences']:
                R['status'] = 'divergence'; R['detail'] = 'generated C and native C++ disagree: %s' % (d['first_divergence'],)
        return R
    except Exception as e:
        R['status'] = 'error'; R['detail'] = '%s: %s' % (type(e).__name__, str(e)[-3000:])
        return R
    finally:
        R['wall_s'] = round(time.time() - t0, 2)
        if not keep: shutil.rmtree(W, ignore_errors=True)


def main():
    ap = argparse.ArgumentParser()
    ap.add_argument('prop'); ap.add_argument('--tier', default=os.environ.get('VERIF_TIER', 'quick'))
    ap.add_argument('--only', default=''); ap.add_argument('--keep', action='store_true')
    ap.add_argument('--jobs', type=int, default=int(os.environ.get('VERIF_JOBS', '12')))
    ap.add_argument('-D', action='append', default=[], help='override a harness define K=V (experiments)'); ap.add_argument('--timeout', type=int, default=0)
    ap.add_argument('--any-tier', action='store_true', help='with --only: also obligations that are in no tier (experiments)'); ap.add_argument('--replay', default=None); ap.add_argument('--no-evidence', action='store_true')
    a = ap.parse_args()
    seed = int(os.environ.get('VERIF_SEED', '1'))
    import obligations
    obs_all = obligations.OBLIGATIONS.get(a.prop)
    if obs_all is None:
        print('unknown property', a.prop); sys.exit(2)
    workroot = tempfile.mkdtemp(prefix='symir-%s-' % a.prop)
    t0 = time.time()
    if a.replay:
        rp = json.load(open(a.replay))
        ob = [o for o in obs_all if o.name == rp['obligation']][0].for_tier(rp.get('tier', 'quick'))
        W = os.path.join(workroot, ob.name); os.makedirs(W)
        rc, out, err = replay_native(ob, W, rp['stream'])
        print(out.strip()); print(err.strip()[-2000:])
        line = rp['assertion_line']
        bad = ('ASSERT-FAIL %d ' % line) in out if line > 0 else ('THROW' in out or rc not in (0,))
        shutil.rmtree(workroot, ignore_errors=True)
        if bad: print('VIOLATION property=%s replay=%s' % (a.prop, a.replay)); sys.exit(1)
        print('replay did not reproduce the violation on the current tree'); sys.exit(0)
    obs = [o.for_tier(a.tier) for o in obs_all if a.tier in o.tiers or (a.any_tier and a.only)]
    if a.only:
        import fnmatch; want = a.only.split(','); obs = [o for o in obs if any(fnmatch.fnmatchcase(o.name, w) for w in want)]
    for o in obs:
        for kv in a.D:
            k, _, v = kv.partition('='); o.defines[k] = v
        if a.timeout: o.timeout = a.timeout
    results = []
    with ThreadPoolExecutor(max_workers=a.jobs) as ex:
        futs = [ex.submit(decide, a.prop, o, a.tier, seed, workroot, a.keep) for o in obs]
        for f, o in zip(futs, obs):
            r = f.result(); results.append(r)
            log('[%s] %-28s %-10s props=%d proved=%d reach=%d cbmc=%.1fs rss=%dMB %s' % (a.prop, r['name'], r['status'], r['props'], r['proved'], r['reach'], r['cbmc_s'], r['rss_kb'] // 1024, r['detail'][:300]))
    if not a.keep: shutil.rmtree(workroot, ignore_errors=True)
    wall = time.time() - t0
    viol = [v for r in results for v in r['violations']]
    known = [k for r in results for k in r['known']]
    errors = [r for r in results if r['status'] not in ('ok', 'violation')]
    for k in known:
        print('KNOWN-FINDING: property=%s %s [%s]' % (a.prop, k['text'], k['key']))
    if not a.no_evidence and not a.only:
        write_evidence(a.prop, a.tier, seed, results, wall, viol, known, errors)
    for v in viol:
        print('VIOLATION property=%s replay=%s' % (a.prop, v['replay']))
        print('  obligation %s: %s (%s)' % (v['key'], v['desc'], v['how']))
    if viol: sys.exit(1)
    if errors:
        for r in errors: print('ERROR %s %s: %s' % (r['status'], r['name'], r['detail'][:1500]))
        sys.exit(2)
    print('%s: %d obligations, all proved within bounds%s (%.0fs)' % (a.prop, len(results), ' except %d known finding(s) listed above' % len(known) if known else '', wall))
    sys.exit(0)


def write_evidence(prop, tier, seed, results, wall, viol, known, errors):
    import obligations
    meta = obligations.META.get(prop, {})
    evals = sum(r['props'] for r in results)
    nontriv = sum(r['asserts_proved'] for r in results if r['status'] == 'ok' and r['reach'] > 0)
    funcs = sorted(set(f for r in results for f in r['functions']))
    real_funcs = [f for f in funcs if not f.startswith(('harness', '_ZN3std', '_ZNSt', '_ZNKSt', '_ZSt', '_ZN9__gnu_cxx', '_ZNK9__gnu_cxx'))]
    samples = []
    for r in results:
        samples.append(dict(obligation=r['name'], what=r['desc'], bounds=r['bounds'], harness=r['harness'], real_tus=r['real_tus'],
                            defines=r['defines'], unwind=r['unwind'], status=r['status'], solver_properties=r['props'],
                            proved=r['proved'], harness_assertions_proved=r['asserts_proved'], witnesses_reached=r['reach'], cbmc_s=r['cbmc_s'], peak_rss_kb=r['rss_kb'],
                            translator_diff=r['diff'], functions_encoded=len(r['functions']), stubs=r['stubs']))
    ev = dict(property_id=prop, tier=tier, seed=seed, level=meta.get('level', 'model_checking'),
              coverage=dict(
                  evaluations=evals, distinct_nontrivial=nontriv,
                  rule='evaluations = CBMC properties (harness assertions, reachability witnesses, unwinding assertions, memory-safety checks where enabled) decided by the SAT back end in this run over the C translation of the current /repo sources; distinct_nontrivial = distinct harness assertions (each a different clause of the property at a different entry point / operation / shape) that were proved in harness configurations whose reachability witnesses were all shown reachable (non-vacuous); coverage.obligations counts the harness configurations',
                  samples=samples, obligations=len(results), discharged=sum(1 for r in results if r['status'] == 'ok'),
                  functions_encoded=real_funcs[:400], functions_encoded_count=len(funcs),
                  solver='cbmc 6.11 (CaDiCaL SAT back end), --unwinding-assertions', solver_time_s=round(sum(r['cbmc_s'] for r in results), 1),
                  peak_rss_kb=max([r['rss_kb'] for r in results] or [0]),
                  translator_diff_runs=sum((r['diff'] or {}).get('streams', 0) for r in results),
                  traces_validated_against_impl=sum((r['diff'] or {}).get('streams', 0) for r in results),   # input streams executed by BOTH the encoding (generated C) and a native build of the real sources, outcomes compared
                  outside_bounds=meta.get('outside', ''), known_findings_hit=[k['key'] for k in known],
                  errors=[dict(obligation=r['name'], status=r['status'], detail=r['detail'][:500]) for r in errors],
                  explanation=meta.get('explanation', ''), exhaustive=False),
              assumptions=meta.get('assumptions', []) + COMMON_ASSUMPTIONS,
              wall_s=round(wall, 1), violations=len(viol))
    os.makedirs(EVIDENCE_DIR, exist_ok=True)
    json.dump(ev, open(os.path.join(EVIDENCE_DIR, prop + '.json'), 'w'), indent=1)


COMMON_ASSUMPTIONS = [
    'trusted base: clang 14 front end (-std=c++20 -O1), llvm-link, opt loop-simplify, ir2c translator, CBMC 6.11 + SAT back end',
    'containers std::map/set/vector/list replaced by the fixed-capacity models in /verif/vstl (capacities are bounds)',
    'C++ exceptions are not executed: a throw ends the path (assume false) except in C17 obligations where it is an assertion failure',
    'single-threaded execution; mutexes are ghost counters',
    'configuration pinned by /verif/symir/config/config.h (OpenSSL backend, file store, ECC, EDDSA, no GOST, no SQLite)',
]

if __name__ == '__main__':
    main()
