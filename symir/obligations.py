"""Registry of obligations per property (see DESIGN.md section 4)."""
import os, sys
from run import Ob

OBLIGATIONS = {}
META = {}

# ----------------------------------------------------------------------------- C11
HM = ['handle_mgr/HandleManager.cpp', 'handle_mgr/Handle.cpp']
_hm_ops = [(100, 'init', 'freshly constructed HandleManager satisfies INV'),
           (0, 'addSession', 'new session handle > every handle ever issued; no other handle changes'),
           (1, 'addSessionObject', 'new or existing object handle; never re-labels another handle'),
           (2, 'addTokenObject', 'new or existing object handle; never re-labels another handle'),
           (3, 'sessionClosed', 'exactly the session, its session objects, and on last close everything of the slot die'),
           (4, 'allSessionsClosed', 'exactly the handles of the slot die'),
           (5, 'tokenLoggedOut', 'exactly the private object handles of the slot die'),
           (6, 'destroyObject', 'exactly that object handle dies'),
           (7, 'lookups', 'getSession/getObject/getObjectHandle resolve exactly what the handle denotes and change nothing')]
OBLIGATIONS['C11'] = [
    Ob('hm_' + n, 'C11/hm_ind.cpp', HM, defines={'OP': op, 'VSTL_CAP': 3}, unwind=5,
       desc='HandleManager::%s one inductive step from an arbitrary INV state: %s' % (n, d),
       bounds='handle table <= 3 entries (thorough: 4), 4 slots, 8 object addresses; handleCounter < 2^64-16',
       thorough={'defines': {'VSTL_CAP': 4}, 'unwind': 6})
    for (op, n, d) in _hm_ops]
META['C11'] = dict(
    outside='handle tables with more entries than the capacity; 2^64 counter wrap-around; the SoftHSM.cpp wrappers beyond the obligations listed',
    assumptions=['representation invariant INV of HandleManager (harness/C11/hm_ind.cpp: keys in [1,counter], distinct, kinds valid, objects map is a sub-relation of the inverse of handles) - proved inductive by the same obligations'])

# ----------------------------------------------------------------------------- C07
ENTRY_REAL = ['SoftHSM.cpp', 'access.cpp', 'session_mgr/Session.cpp', 'slot_mgr/Token.cpp', 'data_mgr/SecureDataManager.cpp',
              'handle_mgr/HandleManager.cpp', 'handle_mgr/Handle.cpp', 'data_mgr/ByteString.cpp', 'object_store/OSAttribute.cpp',
              'crypto/SymmetricAlgorithm.cpp', 'crypto/AsymmetricAlgorithm.cpp', 'crypto/MacAlgorithm.cpp', 'crypto/HashAlgorithm.cpp',
              'crypto/SymmetricKey.cpp']
GETKEY_STUBS = {n: 'sink_getKey' for n in [
    '_ZN7SoftHSM15getSymmetricKeyEP12SymmetricKeyP5TokenP8OSObject', '_ZN7SoftHSM15getRSAPublicKeyEP12RSAPublicKeyP5TokenP8OSObject',
    '_ZN7SoftHSM16getRSAPrivateKeyEP13RSAPrivateKeyP5TokenP8OSObject', '_ZN7SoftHSM16getDSAPrivateKeyEP13DSAPrivateKeyP5TokenP8OSObject',
    '_ZN7SoftHSM15getECPrivateKeyEP12ECPrivateKeyP5TokenP8OSObject', '_ZN7SoftHSM15getEDPrivateKeyEP12EDPrivateKeyP5TokenP8OSObject',
    '_ZN7SoftHSM15getDSAPublicKeyEP12DSAPublicKeyP5TokenP8OSObject', '_ZN7SoftHSM14getECPublicKeyEP11ECPublicKeyP5TokenP8OSObject',
    '_ZN7SoftHSM14getEDPublicKeyEP11EDPublicKeyP5TokenP8OSObject', '_ZN7SoftHSM15getDHPrivateKeyEP12DHPrivateKeyP5TokenP8OSObject']}
OBLIGATIONS['C07'] = [
    Ob('init_' + n, 'C07/init_guard.cpp', ENTRY_REAL, defines={'OP': op}, unwind=18, stubs=GETKEY_STUBS, caps='common/entry_caps.h',
       desc='%s: rv==CKR_OK or key material/crypto reached => usage flag, key type fits mechanism, CKA_ALLOWED_MECHANISMS and advertised list honoured; private key only for logged-in user; operation gate' % fn,
       bounds='mechanism: all 2^64 values; parameter <= 64 bytes (IV <= 16); key attribute table: 8 symbolic attributes; advertised list <= 2 entries; allowed set <= 2 entries')
    for (op, n, fn) in [(0, 'encrypt', 'C_EncryptInit'), (1, 'decrypt', 'C_DecryptInit'), (2, 'sign', 'C_SignInit'), (3, 'verify', 'C_VerifyInit')]]
META['C07'] = dict(outside='translation of the slots.mechanisms string into the advertised list (prepareSupportedMechanisms); OpenSSL', assumptions=[])

# ----------------------------------------------------------------------------- C01
ENTRY_REAL_NOP11 = ENTRY_REAL + ['slot_mgr/Slot.cpp']
STORE_STUBS = {'_ZN5Token12createObjectEv': 'sink_token_createObject', '_ZN18SessionObjectStore12createObjectEmmb': 'sink_sos_createObject',
               '_ZN5Token7decryptERK10ByteStringRS0_': 'sink_token_decrypt', '_ZN5Token7encryptERK10ByteStringRS0_': 'sink_token_encrypt'}
_c01_ops = [(0, 'destroy', 'C_DestroyObject'), (1, 'getsize', 'C_GetObjectSize'), (2, 'getattr', 'C_GetAttributeValue'),
            (3, 'setattr', 'C_SetAttributeValue'), (4, 'copy', 'C_CopyObject'), (5, 'digestkey', 'C_DigestKey')]
C01_OBJ = [Ob('obj_' + n, 'C01/obj_entry.cpp', ENTRY_REAL_NOP11, defines={'OP': op}, unwind=18, stubs=STORE_STUBS, caps='common/entry_caps.h',
              desc='%s on an arbitrary object from an arbitrary session/login state: private object and user not logged in => refused, no sink reached, outputs untouched; token object and RO session => no modification; object-level gates' % fn,
              bounds='template <= 2 entries, values <= 8 bytes; one object with the full symbolic attribute table of entry_env.h')
           for (op, n, fn) in _c01_ops]
OBLIGATIONS['C01'] = C01_OBJ + OBLIGATIONS['C07']
META['C01'] = dict(outside='templates longer than the bound; the bodies behind the sinks (C02/C07/C08/C12/C13)', assumptions=['C_GetObjectSize: no handle of a private object exists while the user is not logged in (purge invariant proved by C11 hm_tokenLoggedOut)'])

# ----------------------------------------------------------------------------- C03
C03_REAL = ['SoftHSM.cpp', 'session_mgr/SessionManager.cpp', 'session_mgr/Session.cpp', 'slot_mgr/Slot.cpp', 'slot_mgr/Token.cpp',
            'data_mgr/SecureDataManager.cpp', 'handle_mgr/HandleManager.cpp', 'handle_mgr/Handle.cpp', 'data_mgr/ByteString.cpp',
            'crypto/SymmetricAlgorithm.cpp', 'crypto/AsymmetricAlgorithm.cpp', 'crypto/MacAlgorithm.cpp', 'crypto/HashAlgorithm.cpp',
            'crypto/SymmetricKey.cpp', 'crypto/AESKey.cpp', 'access.cpp']
C03_STUBS = {'_ZN11SlotManager7getSlotEm': 'stub_getSlot', '_ZN18SessionObjectStore13sessionClosedEm': 'stub_sos_sessionClosed',
             '_ZN18SessionObjectStore17allSessionsClosedEm': 'stub_sos_allSessionsClosed', '_ZN18SessionObjectStore14tokenLoggedOutEm': 'stub_sos_tokenLoggedOut',
             '_ZN17SecureDataManager6remaskER10ByteString': 'stub_remask', '_ZN7RFC488012PBEDeriveKeyERK10ByteStringRS0_PP6AESKey': 'stub_pbe',
             '_ZN4Slot9initTokenER10ByteStringPh': 'stub_initToken',
             '_ZN17SecureDataManager5loginERK10ByteStringS2_': 'stub_sdm_login', '_ZN17SecureDataManager14reAuthenticateERK10ByteStringS2_': 'stub_sdm_reauth',
             '_ZN13HandleManager10getSessionEm': 'stub_hm_getSession', '_ZN13HandleManager10addSessionEmPv': 'stub_hm_addSession',
             '_ZN13HandleManager13sessionClosedEm': 'stub_hm_sessionClosed', '_ZN13HandleManager17allSessionsClosedEmb': 'stub_hm_allSessionsClosed',
             '_ZN13HandleManager14tokenLoggedOutEm': 'stub_hm_tokenLoggedOut'}
_c03_ops = [(0, 'open', 'C_OpenSession'), (1, 'close', 'C_CloseSession'), (2, 'closeall', 'C_CloseAllSessions'),
            (4, 'logout', 'C_Logout'), (5, 'sameclass', 'C_GetSessionInfo on two sessions of one token'), (6, 'inittoken_gate', 'C_InitToken session gate')]
def _c03_sess(op, n, fn, target, tok, tiers):
    suffix = '' if target is None else '_s%d_t%d' % (target, tok)
    d = {'OP': op, 'NSESS': 4, 'BS_CAP': 4, 'TARGET': 1 if target is None else target, 'TARGET2': 2, 'TARGET_TOK': 0 if tok is None else tok}
    return Ob('sess_' + n + suffix, 'C03/login_ind.cpp', C03_REAL, defines=d, unwind=5, stubs=C03_STUBS, caps='C03/caps.h', flags=['--no-array-field-sensitivity'], tiers=tiers,
              desc='%s: one inductive step from an arbitrary session table / login state satisfying INV (PKCS#11 login rules); INV preserved, per-call contract, failing call changes nothing, other token untouched%s' % (fn, '' if target is None else ' [call addresses table entry %d on token %d or an unknown handle]' % (target, tok)),
              bounds='<= 4 session-table entries, 2 tokens, PIN <= 4 bytes; HandleManager / SessionObjectStore notifications observed as calls', timeout=600, mem=14)
OBLIGATIONS['C03'] = [_c03_sess(0, 'open', 'C_OpenSession', None, None, ('quick', 'thorough')),
                      _c03_sess(2, 'closeall', 'C_CloseAllSessions', None, None, ('quick', 'thorough')),   # (budget raised below)
                      _c03_sess(5, 'sameclass', 'C_GetSessionInfo on two sessions of one token', None, None, ('quick', 'thorough')),
                      _c03_sess(6, 'inittoken_gate', 'C_InitToken session gate', None, None, ('quick', 'thorough'))]
for (op, n, fn) in [(1, 'close', 'C_CloseSession'), (4, 'logout', 'C_Logout')]:
    for target in range(4):
        for tok in range(2):
            OBLIGATIONS['C03'].append(_c03_sess(op, n, fn, target, tok, ('quick', 'thorough') if (target, tok) in ((1, 0), (2, 1)) else ('thorough',)))
SDM_LOGIN_STUBS = {'_ZN17SecureDataManager5loginERK10ByteStringS2_': 'stub_sdm_login', '_ZN17SecureDataManager14reAuthenticateERK10ByteStringS2_': 'stub_sdm_reauth'}
for _o in OBLIGATIONS['C03']:
    if _o.name == 'sess_closeall': _o.mem = 30; _o.timeout = 1200
OBLIGATIONS['C03'] += [
    Ob('tok_' + n, 'C03/token_login.cpp', ['slot_mgr/Token.cpp', 'data_mgr/SecureDataManager.cpp', 'data_mgr/ByteString.cpp'], defines={'OP': op, 'BS_CAP': 4}, unwind=5,
       stubs=SDM_LOGIN_STUBS, caps='C03/caps.h',
       desc='Token::%s from an arbitrary login state of one token: succeeds only from the public state with an accepted PIN and then logs in exactly that user; a failed call changes no login flag' % n,
       bounds='one token; PIN <= 4 bytes; PIN acceptance is a symbolic boolean (contract of SecureDataManager::login: logs out first, then accepts or not)')
    for (op, n) in [(0, 'loginSO'), (1, 'loginUser'), (2, 'reAuthenticate'), (3, 'logout')]]
OBLIGATIONS['C03'] += [
    Ob('clogin', 'C03/clogin_entry.cpp', ENTRY_REAL_NOP11, defines={}, unwind=18, caps='common/entry_caps.h',
       stubs={'_ZN5Token7loginSOER10ByteString': 'sink_loginSO', '_ZN5Token9loginUserER10ByteString': 'sink_loginUser',
              '_ZN5Token14reAuthenticateER10ByteString': 'sink_reAuth', '_ZN14SessionManager13haveROSessionEm': 'sink_haveRO'},
       desc='C_Login wrapper: user type -> Token call, SO login not attempted while an RO session exists, caller PIN passed unmodified, re-authentication flag cleared only by an accepted context-specific login',
       bounds='PIN <= 16 bytes; one session')]
META['C03'] = dict(outside='more than 4 simultaneously open sessions; the cryptographic PIN check itself (C04); C_InitPIN/C_SetPIN (C04); Slot::initToken body (C14)',
                   assumptions=['INV (harness/C03/login_ind.cpp): not both SO and user logged in; SO logged in => no RO session on the token; somebody logged in => the token has a session; session table entry i has internal handle i+1 - proved inductive by the same obligations'])

# ----------------------------------------------------------------------------- C13
PAD_REAL = ['SoftHSM.cpp', 'data_mgr/ByteString.cpp']
OBLIGATIONS['C13'] = []
for blk in (8, 16):
    for (op, n, d) in [(0, 'pad_unpad', 'RFC5652Pad output is PKCS#7 and RFC5652Unpad(RFC5652Pad(x)) == x'),
                       (1, 'unpad_any', 'RFC5652Unpad accepts exactly the PKCS#7-valid buffers (reference from RFC 5652), strips exactly the padding, never indexes out of range')]:
        OBLIGATIONS['C13'].append(Ob('%s_b%d' % (n, blk), 'C13/pad_leaf.cpp', PAD_REAL, defines={'OP': op, 'BLK': blk, 'BS_CAP': 3 * blk + 2}, unwind=3 * blk + 4, caps='C13/caps.h',
                                     desc=d + ' (block size %d)' % blk, bounds='every input of 0..%d bytes' % (2 * blk + 1 if op == 0 else 3 * blk), throw_assert=True))
OBLIGATIONS['C13'] += [
    Ob('rfc3394pad', 'C13/pad_leaf.cpp', PAD_REAL, defines={'OP': 2, 'BLK': 8, 'BS_CAP': 26}, unwind=28, caps='C13/caps.h', desc='RFC3394Pad = zero padding to the next multiple of 8, data preserved', bounds='every input of 0..17 bytes', throw_assert=True),
    Ob('odd_parity', 'C13/pad_leaf.cpp', PAD_REAL, defines={'OP': 3, 'BLK': 8, 'BS_CAP': 8}, unwind=10, caps='C13/caps.h', desc='odd_parity[] (DES key parity adjustment): all 256 entries have odd parity and keep the upper 7 bits', bounds='all 256 table entries')]
META['C13'] = dict(outside='conformance of the primitives (AES-KW RFC 3394/5649, RSA-OAEP, CBC) to an independent implementation; inputs longer than the stated bounds', assumptions=[])

# ----------------------------------------------------------------------------- C05
FILE_REAL = ['object_store/File.cpp', 'data_mgr/ByteString.cpp', 'object_store/OSAttribute.cpp']
OBLIGATIONS['C05'] = [
    Ob('bytestring_ulong', 'C05/file_codec.cpp', FILE_REAL, defines={'OP': 0, 'BS_CAP': 16, 'FCAP': 48}, unwind=18, caps='C05/caps.h', throw_assert=True,
       desc='ByteString(unsigned long) is the 8-byte big-endian encoding and long_val() inverts it', bounds='all 2^64 values'),
] + [
    Ob('file_format_pin_n%d_m%d' % (nb, hm), 'C05/file_codec.cpp', FILE_REAL, defines={'OP': 1, 'BS_CAP': 16, 'FCAP': 48, 'NBYTES': nb, 'HASMECH': hm}, unwind=18, caps='C05/caps.h', throw_assert=True,
       unwind_rules=[(r'^harness\.', 50)],
       desc='File::writeULong/writeBool/writeByteString/writeMechanismTypeSet produce exactly the documented bytes (reference encoder) and the read calls return the written values', bounds='byte string of %d bytes, mechanism set of %d element(s); contents symbolic' % (nb, hm))
    for (nb, hm) in ((0, 0), (3, 1), (6, 1))
] + [
    Ob('attrmap_%s' % name, 'C05/file_codec.cpp', FILE_REAL, tiers=('quick', 'thorough') if cnt < 2 else (), defines={'OP': 2, 'BS_CAP': 16, 'FCAP': 64, 'CNT': cnt, 'K0': k0, 'K1': k1, 'BL': bl}, unwind=18, caps='C05/caps.h', throw_assert=True,
       unwind_rules=[(r'^harness\.', 82)],
       desc='nested attribute map (CKA_WRAP_TEMPLATE style): writeAttributeMap produces exactly the documented bytes, readAttributeMap returns the same map and consumes exactly the written bytes; shape: %s' % name,
       bounds='%d entries, kinds (%d,%d) [0 bool,1 ulong,2 bytes,3 mechanism set], byte strings of %d bytes; keys and values symbolic' % (cnt, k0, k1, bl))
    for (name, cnt, k0, k1, bl) in (('empty', 0, 0, 0, 0), ('bool', 1, 0, 0, 0), ('ulong', 1, 1, 0, 0), ('bytes0', 1, 2, 0, 0), ('bytes3', 1, 2, 0, 3), ('mech', 1, 3, 0, 0), ('ulong_bytes2', 2, 1, 2, 2), ('bytes0_bool', 2, 2, 0, 0), ('bool_mech', 2, 0, 3, 0), ('bytes4_bytes4', 2, 2, 2, 4))
]
OBLIGATIONS['C05'] += [
    Ob('decode_any_%s_n%d' % (('bytestring', 'mechset', 'attrmap')[w], n), 'C05/file_codec.cpp', FILE_REAL, defines={'OP': 3, 'BS_CAP': 16, 'FCAP': 32, 'FILE_BYTES': n, 'WHICH': w}, unwind=24, caps='C05/caps.h', throw_assert=True,
       tiers=('quick', 'thorough') if (w, n) in ((0, 12), (1, 16), (2, 17)) else ('thorough',), unwind_rules=[(r'^harness\.', 40)],
       desc='File::%s on a file of %d ARBITRARY bytes: no exception (it would reach exit()), no out-of-range access, a value is only returned when the bytes were all there' % (('readByteString', 'readMechanismTypeSet', 'readAttributeMap')[w], n),
       bounds='file of exactly %d arbitrary bytes' % n)
    for w in (0, 1, 2) for n in (0, 5, 8, 12, 16, 17, 25) if not (w == 2 and n == 25)]   # (attribute map on 25 bytes: no verdict in 1500 s)
META['C05'] = dict(outside='SQLite backend; files larger than the bounds; directory index; real file-system semantics beyond the model of harness/common/vio_model.h', assumptions=['model file system / stdio of harness/common/vio_model.h'])

# ----------------------------------------------------------------------------- C02 / C08 / C06 (attribute policy engine)
P11_REAL = ['P11Objects.cpp', 'P11Attributes.cpp', 'slot_mgr/Token.cpp', 'data_mgr/SecureDataManager.cpp', 'handle_mgr/HandleManager.cpp', 'handle_mgr/Handle.cpp',
            'data_mgr/ByteString.cpp', 'object_store/OSAttribute.cpp', 'session_mgr/Session.cpp', 'crypto/SymmetricAlgorithm.cpp', 'crypto/AsymmetricAlgorithm.cpp',
            'crypto/MacAlgorithm.cpp', 'crypto/HashAlgorithm.cpp', 'crypto/SymmetricKey.cpp']
TAG_STUBS = {'_ZN5Token7decryptERK10ByteStringRS0_': 'tag_token_decrypt', '_ZN5Token7encryptERK10ByteStringRS0_': 'tag_token_encrypt'}
ATTR_REAL = ['P11Attributes.cpp', 'slot_mgr/Token.cpp', 'data_mgr/SecureDataManager.cpp', 'handle_mgr/HandleManager.cpp', 'handle_mgr/Handle.cpp',
             'data_mgr/ByteString.cpp', 'object_store/OSAttribute.cpp', 'session_mgr/Session.cpp', 'crypto/SymmetricAlgorithm.cpp', 'crypto/AsymmetricAlgorithm.cpp',
             'crypto/MacAlgorithm.cpp', 'crypto/HashAlgorithm.cpp', 'crypto/SymmetricKey.cpp', 'crypto/AESKey.cpp', 'crypto/DESKey.cpp']
CK = dict(ck1=1, ck4=8, ck6=0x20, ck7=0x40)
_SECRET_CK = CK['ck1'] | CK['ck4'] | CK['ck6'] | CK['ck7']
ATTR_UNITS = [  # (name, constructor expression, attribute type, is secret-key/private-key composition, needs RSA slots)
    ('value_secret', 'new P11AttrValue(&o, %d)' % _SECRET_CK, 'CKA_VALUE', 1, 0),
    ('private_exponent', 'new P11AttrPrivateExponent(&o)', 'CKA_PRIVATE_EXPONENT', 1, 1), ('prime1', 'new P11AttrPrime1(&o)', 'CKA_PRIME_1', 1, 1),
    ('prime2', 'new P11AttrPrime2(&o)', 'CKA_PRIME_2', 1, 1), ('exponent1', 'new P11AttrExponent1(&o)', 'CKA_EXPONENT_1', 1, 1),
    ('exponent2', 'new P11AttrExponent2(&o)', 'CKA_EXPONENT_2', 1, 1), ('coefficient', 'new P11AttrCoefficient(&o)', 'CKA_COEFFICIENT', 1, 1),
    ('sensitive', 'new P11AttrSensitive(&o)', 'CKA_SENSITIVE', 0, 0), ('extractable', 'new P11AttrExtractable(&o)', 'CKA_EXTRACTABLE', 0, 0),
    ('wrap_with_trusted', 'new P11AttrWrapWithTrusted(&o)', 'CKA_WRAP_WITH_TRUSTED', 0, 0), ('trusted', 'new P11AttrTrusted(&o)', 'CKA_TRUSTED', 0, 0),
    ('local', 'new P11AttrLocal(&o)', 'CKA_LOCAL', 0, 0), ('key_gen_mechanism', 'new P11AttrKeyGenMechanism(&o)', 'CKA_KEY_GEN_MECHANISM', 0, 0),
    ('always_sensitive', 'new P11AttrAlwaysSensitive(&o)', 'CKA_ALWAYS_SENSITIVE', 0, 0), ('never_extractable', 'new P11AttrNeverExtractable(&o)', 'CKA_NEVER_EXTRACTABLE', 0, 0),
    ('modifiable', 'new P11AttrModifiable(&o)', 'CKA_MODIFIABLE', 0, 0), ('copyable', 'new P11AttrCopyable(&o)', 'CKA_COPYABLE', 0, 0),
    ('destroyable', 'new P11AttrDestroyable(&o)', 'CKA_DESTROYABLE', 0, 0), ('private', 'new P11AttrPrivate(&o)', 'CKA_PRIVATE', 0, 0),
    ('token', 'new P11AttrToken(&o)', 'CKA_TOKEN', 0, 0), ('label', 'new P11AttrLabel(&o)', 'CKA_LABEL', 0, 0)]
def _attr(name, ctor, atype, secret, rsa, op):
    d = {'OP': op, 'ATTR_NEW': ctor, 'ATYPE': atype, 'SECRET_CLASS': secret, 'BS_CAP': 10, 'MODEL_OUT_MAX': 4, 'BYTES_ATTR': 1 if (secret or name == 'label') else 0}
    if rsa: d['SYMOBJ_RSA'] = 1
    return Ob('attr_%s_%s' % (name, 'retrieve' if op == 0 else 'update'), 'C02/attr_unit.cpp', ATTR_REAL, defines=d, unwind=18, stubs=TAG_STUBS, caps='common/entry_caps.h',
              desc='%s::%s (real P11Attributes.cpp) on a symbolic object: %s' % (ctor.split('(')[0][4:], 'retrieve' if op == 0 else 'update + updateAttr',
                   'reveal guard (ck7): sensitive or unextractable => CKR_ATTRIBUTE_SENSITIVE, length unavailable, buffer untouched, no decryption; never more bytes than announced' if op == 0 else
                   'one-way flags, read-only / history attributes, CKA_TRUSTED only by the SO, canonical booleans, private byte strings stored encrypted, refused update stores nothing'),
              bounds='value <= 8 bytes, NULL/non-NULL pointer, operation kind symbolic (copy/create/derive/generate/set/unwrap), stored values <= 3 bytes')
_secret_units = [u for u in ATTR_UNITS if u[3]]
OBLIGATIONS['C02'] = [_attr(*u, 0) for u in _secret_units] + [_attr(*u, 1) for u in ATTR_UNITS if u[0] in ('sensitive', 'extractable', 'wrap_with_trusted', 'value_secret')]
OBLIGATIONS['C08'] = [_attr(*u, 1) for u in ATTR_UNITS if not u[3] or u[0] == 'value_secret']
OBLIGATIONS['C06'] = [_attr(*u, 1) for u in ATTR_UNITS if u[0] in ('value_secret', 'label', 'private_exponent', 'prime1')]
OBLIGATIONS['C06'] += [o for o in C01_OBJ if o.name == 'obj_copy']   # C_CopyObject: the template is stored according to the COPY's privacy
META['C08'] = dict(outside='attribute composition of every class (which class registers which attribute with which footnote flags) beyond the compositions instantiated here; templates (order effects) are covered by saveTemplate obligation of C09', assumptions=['tagging model of Token::encrypt/decrypt'])
META['C06'] = dict(outside='that AES-CBC / the PBE really hide the plaintext; SQLite backend; file permission bits are obligation file_mode when present', assumptions=['tagging model of Token::encrypt/decrypt: encrypt(x) = TAG||x'])
META['C02'] = dict(outside='global non-interference over all output buffers of all calls (we prove the per-call refusal); derive-mechanism inheritance of the flags is obligation derive_* when present', assumptions=['tagging model of Token::encrypt/decrypt'])

# ----------------------------------------------------------------------------- C12
_c12_fns = ['C_Encrypt', 'C_EncryptUpdate', 'C_EncryptFinal', 'C_Decrypt', 'C_DecryptUpdate', 'C_DecryptFinal', 'C_Digest', 'C_DigestUpdate', 'C_DigestFinal',
            'C_Sign', 'C_SignUpdate', 'C_SignFinal', 'C_Verify', 'C_VerifyUpdate', 'C_VerifyFinal', 'C_FindObjects', 'C_FindObjectsFinal']
OBLIGATIONS['C12'] = [
    Ob('flow_' + fn[2:].lower(), 'C12/op_flow.cpp', ENTRY_REAL_NOP11 + ['object_store/FindOperation.cpp'], defines={'FN': i, 'BS_CAP': 40, 'MODEL_OUT_MAX': 24}, unwind=42, caps='common/entry_caps.h',
       desc='%s from an arbitrary session state: wrong/absent operation => CKR_OPERATION_NOT_INITIALIZED and no crypto call; length query / CKR_BUFFER_TOO_SMALL leave the operation active and call no crypto; finished or failed operation is gone; never writes beyond the announced length; no private-key output while re-authentication is pending' % fn,
       bounds='input <= 20 bytes, announced output length <= 32 (buffer 40 with canaries), block size 8/16, tag <= 16, buffered < block', timeout=600)
    for i, fn in enumerate(_c12_fns)]
OBLIGATIONS['C12'] += [o for o in OBLIGATIONS['C07'] if o.name.startswith('init_')]
OBLIGATIONS['C12'] += [Ob('find_init_fail', 'C12/find_fail.cpp', ENTRY_REAL_NOP11 + ['object_store/FindOperation.cpp'], defines={'BS_CAP': 6, 'MODEL_OUT_MAX': 4, 'VSTL_CAP': 2}, unwind=8, caps='common/entry_caps.h',
    stubs={'_ZN5Token10getObjectsERSt3setIP8OSObjectSt4lessIS2_EvE': 'stub_token_getObjects', '_ZN18SessionObjectStore10getObjectsEmRSt3setIP8OSObjectSt4lessIS2_EvE': 'stub_sos_getObjects', '_ZN5Token7decryptERK10ByteStringRS0_': 'det_token_decrypt'},
    desc='C_FindObjectsInit over one concrete private token object whose encrypted label may fail to decrypt: a failing Init leaves no active operation; a succeeding one captures the object exactly when the decrypted label equals the template value', bounds='one concrete object, template (CKA_LABEL, 1 symbolic byte)')]
META['C12'] = dict(outside='what OpenSSL returns where it deviates from the sizes the SoftHSM code itself computes; call sequences longer than one step (each call is run from an arbitrary state of the session)', assumptions=['crypto back end = sink monitors with nondeterministic results and output lengths (harness/common/crypto_model.h)'])

# ----------------------------------------------------------------------------- C19
FIND_STUBS = {'_ZN5Token10getObjectsERSt3setIP8OSObjectSt4lessIS2_EvE': 'stub_token_getObjects',
              '_ZN18SessionObjectStore10getObjectsEmRSt3setIP8OSObjectSt4lessIS2_EvE': 'stub_sos_getObjects',
              '_ZN5Token7decryptERK10ByteStringRS0_': 'det_token_decrypt', '_ZN5Token7encryptERK10ByteStringRS0_': 'tag_token_encrypt'}
OBLIGATIONS['C19'] = [
    Ob('findop_batching', 'C19/findop_unit.cpp', ['object_store/FindOperation.cpp'], defines={}, unwind=6, caps='C19/caps.h',
       desc='FindOperation::retrieveHandles + eraseHandles from an arbitrary pending set: a batch returns the min(n,max) smallest handles in order, removes exactly those, writes nothing beyond the count; an empty batch loses nothing', bounds='<= 3 pending handles, batch size 0..4'),
] + [
    Ob('find_%s' % name, 'C19/find_entry.cpp', ENTRY_REAL_NOP11 + ['object_store/FindOperation.cpp'], defines={'BS_CAP': 9, 'MODEL_OUT_MAX': 4, 'NOBJ': 1, 'TCNT': cnt, 'T0': t0, 'T1': t1, 'SHAPE_CAN_MATCH': 0 if name == 'unknown' else 1, 'SHAPE_DECRYPTS': 1 if 'label' in name else 0}, unwind=5, stubs=FIND_STUBS, caps='common/entry_caps.h', thorough={'defines': {'NOBJ': 2}, 'timeout': 1500},
       unwind_rules=[(r'^harness', 40), (r'ByteString|ir_mem|memcmp|model_fill|havoc|token_decrypt|token_encrypt|ref_match', 11)],
       desc='C_FindObjectsInit + C_FindObjects over one object (thorough tier: two) (values symbolic: valid, private, token, class, 1-byte label - encrypted when private, possibly undecryptable; object 0 has an empty CKA_ID, object 1 none) with template types (%s) and symbolic lengths/values: captured handle set == reference matcher (sound and complete); private objects invisible unless the user is logged in (no handle issued); batches; a failed Init leaves no operation' % name,
       bounds='1 object (thorough: 2) of the stated shape, template of %d entries with lengths in {0,1,2,8}, batch size 0..2' % cnt, timeout=900, mem=16,
       tiers=('quick', 'thorough') if name in ('empty', 'label', 'unknown') else ('thorough',))
    for (name, cnt, t0, t1) in (('empty', 0, 0, 0), ('label', 1, 'CKA_LABEL', 0), ('class', 1, 'CKA_CLASS', 0), ('token_label', 2, 'CKA_TOKEN', 'CKA_LABEL'), ('id', 1, 'CKA_ID', 0), ('unknown', 1, '0x80001234UL', 0))]
META['C19'] = dict(outside='populations of more than 2 objects / templates of more than 2 entries; candidate collection inside OSToken / SessionObjectStore (the two sources are cut: they deliver the objects of this token / slot)', assumptions=['tagging model of Token::decrypt'])

# ----------------------------------------------------------------------------- C09
OBLIGATIONS['C09'] = [
    Ob('savetemplate_tx_%s' % name, 'C09/savetemplate_unit.cpp', ATTR_REAL + ['P11Objects.cpp'], defines={'P11MAP_CAP': 4, 'BS_CAP': 6, 'MODEL_OUT_MAX': 4, 'TCNT': cnt, 'T0': t0, 'T1': t1}, unwind=5, stubs=TAG_STUBS, caps='C02/caps.h',
       unwind_rules=[(r'^harness', 20), (r'ByteString|ir_mem|memcmp|model_fill|havoc|token_decrypt|token_encrypt', 8)],
       desc='P11Object::saveTemplate (real) with two real attributes, template types (%s): every error exit - unknown type, read-only, wrong size, gate - aborts the transaction (also when an earlier template entry was already applied), success commits exactly once' % name,
       bounds='template of %d entries with the stated types; lengths <= 4, values, NULL pointers and operation kind symbolic' % cnt)
    for (name, cnt, t0, t1) in (('label', 1, 'CKA_LABEL', 0), ('unknown', 1, '0x80001234UL', 0), ('label_unknown', 2, 'CKA_LABEL', '0x80001234UL'), ('label_sensitive', 2, 'CKA_LABEL', 'CKA_SENSITIVE'), ('sensitive_label', 2, 'CKA_SENSITIVE', 'CKA_LABEL'))
] + [
    Ob('sessobj_prefix', 'C09/sessobj_prefix.cpp', ATTR_REAL + ['P11Objects.cpp', 'object_store/SessionObject.cpp'], defines={'P11MAP_CAP': 4, 'BS_CAP': 6, 'MODEL_OUT_MAX': 4, 'VSTL_CAP': 3}, unwind=5, stubs=TAG_STUBS, caps='C02/caps.h',
       unwind_rules=[(r'^harness', 20), (r'ByteString|ir_mem|memcmp|model_fill|havoc|token_decrypt|token_encrypt', 8)],
       desc='rejected template (CKA_LABEL, unknown type) on a real SessionObject through the real saveTemplate: the label must keep its old value', bounds='one session object with at most the label attribute, 1-byte values', timeout=900, mem=28),
    Ob('create_object', 'C09/create_entry.cpp', ENTRY_REAL_NOP11, defines={}, unwind=18, stubs=STORE_STUBS, caps='common/entry_caps.h', unwind_rules=[(r'ir_memcpy', 100)],
       desc='C_CreateObject: a failed call leaves no handle and destroys the half-built object; private objects only for the logged-in user, token objects only through RW sessions; imported keys get LOCAL/ALWAYS_SENSITIVE/NEVER_EXTRACTABLE false',
       bounds='template of 1..3 entries (CKA_CLASS in {DATA, SECRET_KEY/AES}); creation / init / saveTemplate are sinks with symbolic results')]
META['C09'] = dict(outside='SQLite backend; multi-object effects of key-pair generation; the policy engine behind saveTemplate (C02/C08)', assumptions=[])

# ----------------------------------------------------------------------------- C04 / C14 (Token level)
PIN_STUBS = {'_ZN17SecureDataManager10initObjectEv': 'stub_initObject', '_ZN17SecureDataManager13pbeEncryptKeyERK10ByteStringRS0_': 'stub_pbe',
             '_ZN17SecureDataManager5loginERK10ByteStringS2_': 'stub_login', '_ZN17SecureDataManager6remaskER10ByteString': 'stub_remask',
             '_ZN11ObjectStore8newTokenERK10ByteString': 'stub_newToken', '_ZN11ObjectStore12destroyTokenEP16ObjectStoreToken': 'stub_destroyToken'}
PIN_REAL = ['slot_mgr/Token.cpp', 'data_mgr/SecureDataManager.cpp', 'data_mgr/ByteString.cpp', 'crypto/SymmetricAlgorithm.cpp', 'crypto/SymmetricKey.cpp', 'crypto/AESKey.cpp',
            'crypto/AsymmetricAlgorithm.cpp', 'crypto/MacAlgorithm.cpp', 'crypto/HashAlgorithm.cpp']
def _pin(op, name, fn, what):
    return Ob('tokpin_' + name, 'C04/token_pin.cpp', PIN_REAL, defines={'OP': op, 'BS_CAP': 32}, unwind=34, stubs=PIN_STUBS, caps='C03/caps.h', noinline=True,
              desc='Token::%s (real) + SecureDataManager PIN guards over the ideal PIN model: %s' % (fn, what), bounds='PINs <= 2 symbolic bytes (all of them, including empty, prefixes, one-bit neighbours and the other user\'s PIN); ideal PIN model replaces the cryptography')
OBLIGATIONS['C04'] = [
    _pin(0, 'setuserpin', 'setUserPIN', 'OK only with the correct old user PIN and a non-empty new PIN; afterwards memory and disk carry the new PIN, the SO PIN is untouched, login state preserved; a rejected attempt changes nothing'),
    _pin(1, 'setsopin', 'setSOPIN', 'OK only for the logged-in SO with the correct old SO PIN; user PIN untouched'),
    _pin(2, 'inituserpin', 'initUserPIN', 'OK only while logged in, sets exactly the given PIN in memory and on disk, SO PIN untouched'),
    OBLIGATIONS['C03'][-1]]   # clogin: the caller's PIN bytes reach the token unmodified
OBLIGATIONS['C14'] = [
    _pin(3, 'reinit', 'createToken (initialised token)', 'OK only with the correct SO PIN; resets the token, keeps the SO PIN, removes the user PIN on disk AND in memory, nobody logged in; wrong PIN => no reset, nothing changed'),
    _pin(4, 'freshinit', 'createToken (free slot)', 'new token gets the given SO PIN and no user PIN; failure leaves no half-initialised token'),
    [o for o in OBLIGATIONS['C03'] if o.name == 'sess_inittoken_gate'][0]] + \
    [o for o in OBLIGATIONS['C03'] if o.name in ('sess_closeall', 'sess_close_s1_t0', 'sess_close_s2_t1', 'sess_logout_s1_t0', 'sess_logout_s2_t1', 'sess_open')]   # isolation: a call on one token leaves the other token's sessions and login state untouched
META['C04'] = dict(outside='the cryptography (that different PINs give different PBE keys; the 2^-24 magic collision), PIN lengths above 2 bytes at the Token level (byte exactness of the caller PIN for <= 16 bytes is obligation clogin), persistence across processes (blob bytes are handed to the token object; their file round trip is C05)', assumptions=['ideal PIN model: pbeEncryptKey(pin) is injective in the PIN, login accepts iff the blob wraps exactly this PIN'])
META['C14'] = dict(outside='softhsm2-util, directory scanning at start-up, SQLite, slot-id derivation from the serial', assumptions=['ideal PIN model', 'C_InitToken is only reached without sessions (obligation sess_inittoken_gate), hence with nobody logged in (C03 INV)'])


# ----------------------------------------------------------------------------- C17 (no crash / no exception / no out-of-range access)
def _c17(ob):
    o = Ob.__new__(Ob); o.__dict__.update(ob.__dict__)
    o.name = ob.name + '_safe'; o.throw_assert = True; o.defines = dict(ob.defines)
    o.desc = ob.desc + ' - re-run with every C++ exception (it would reach main.cpp\'s catch-all and exit()) and every out-of-range container index as an assertion failure'
    return o
_C17_QUICK = ('flow_encrypt', 'flow_decrypt', 'flow_sign', 'flow_verify', 'flow_decryptfinal', 'flow_findobjects', 'flow_findobjectsfinal', 'init_encrypt', 'obj_getattr', 'obj_copy',
              'wrap_key', 'derive_key_wrapper', 'genkey_wrapper', 'genpair_wrapper', 'cinitpin', 'csetpin', 'gen_Generic')
def _c17t(o):
    x = _c17(o); x.tiers = ('quick', 'thorough') if o.name in _C17_QUICK else ('thorough',)
    if o.name == 'flow_findobjects': x.checks = True   # pointer checks: a NULL find-operation object must not be dereferenced
    return x
OBLIGATIONS['C17'] = [_c17t(o) for o in OBLIGATIONS['C12'] + C01_OBJ + [x for x in OBLIGATIONS['C09'] if x.name == 'create_object'] if not o.name.startswith('find_init')] + \
    [o for o in OBLIGATIONS['C13'] if o.name.startswith('unpad_any')] + [o for o in OBLIGATIONS['C05'] if o.name.startswith('decode')]
META['C17'] = dict(outside='call sequences (each entry point is run once from an arbitrary state satisfying the stated session invariants); entry points not harnessed; OpenSSL internals; caller buffers smaller than announced; files larger than the stated bounds; pointer-provenance undefined behaviour that no sanitizer confirms',
                   assumptions=['a request to grow a byte string / container to >= 2^31 elements is what makes the real std::vector throw (length_error / bad_alloc); smaller growth beyond the model capacity is only outside the bound'])

# C11 also claims the privacy tag of the handle C_CopyObject registers (it decides whether the handle dies at logout)
OBLIGATIONS['C11'] = OBLIGATIONS['C11'] + [o for o in C01_OBJ if o.name in ('obj_copy', 'obj_destroy')]
# C01 also claims the search filter (private objects invisible unless the user is logged in)
OBLIGATIONS['C01'] = OBLIGATIONS['C01'] + [o for o in OBLIGATIONS['C19'] if o.name == 'find_empty'] + [o for o in OBLIGATIONS['C09'] if o.name == 'create_object'] + [o for o in OBLIGATIONS['C11'] if o.name == 'hm_tokenLoggedOut']

# ----------------------------------------------------------------------------- C16 / C15 (object file protocol)
OBJFILE_REAL = ['object_store/ObjectFile.cpp', 'object_store/File.cpp', 'object_store/Generation.cpp', 'object_store/OSAttribute.cpp', 'data_mgr/ByteString.cpp']
OBJFILE_TIERS = ('thorough',)   # default tier of an object-file obligation; the quick subsets are chosen below
def _of(op, name, desc, **kw):
    return Ob('objfile_' + name, 'C16/objfile.cpp', OBJFILE_REAL, defines={'OP': op, 'BS_CAP': 12, 'FCAP': 88, 'NFILES': 2, 'NSTREAMS': 4, 'VSTL_CAP': 3}, unwind=10, caps='C16/caps.h',
              unwind_rules=[(r'vio_freeze', 200), (r'^harness', 100), (r'basic_string|char_traits|strlen|memcpy|ir_mem', 12)], desc=desc,
              flags=['--max-field-sensitivity-array-size', '128'],   # the 88-byte model file stays field-sensitive: concrete file bytes propagate

              bounds='object with three attributes (bool, 2-byte string, 1-element mechanism set): shape concrete, values symbolic; file <= 88 bytes', timeout=900, mem=16, tiers=OBJFILE_TIERS, **kw)
_QUICK_CUTS = (0, 5, 8, 12, 20, 24, 25, 30, 40, 49, 50, 51, 56, 64, 70, 78, 82, 83)
def _cut(c):
    o = _of(3, 'loader_cut_%d' % c, 'ObjectFile loader (refresh) on the complete 83-byte object file (bool, 2-byte string, mechanism set) cut at length %d: a cut inside a record body must be rejected; a cut at a record boundary / inside a type field must not yield a valid object with attributes missing' % c)
    o.defines['CUT'] = c
    if OBJFILE_TIERS: o.tiers = ('quick', 'thorough') if c in _QUICK_CUTS else ('thorough',)
    return o
OBJFILE_NOPS = 24    # file operations of one ObjectFile::setAttribute (asserted by every crash / fault obligation)
def _crash(at):
    o = _of(1, 'crash_at_%d' % at, 'crash at file operation %d of ObjectFile::setAttribute (rewrite in place) with every prefix of the data in flight: the disk holds the complete old file or a prefix of the new file, nothing else; C16 demands old or complete new' % at)
    o.defines['VIO_AT'] = at; o.defines['NOPS'] = OBJFILE_NOPS
    if at in (0, 7, 8, 13, 19, 20, 23): o.tiers = ('quick', 'thorough')
    return o
def _fault(at):
    o = _of(2, 'fault_at_%d' % at, 'file operation %d of ObjectFile::setAttribute fails: success is only reported when the new value is on the (model) disk and flushed' % at)
    o.defines['VIO_AT'] = at; o.defines['NOPS'] = OBJFILE_NOPS
    if at in (0, 2, 7, 10, 19, 20, 23): o.tiers = ('quick', 'thorough')
    return o
_C16 = [_cut(c) for c in range(0, 84)] + [_crash(a) for a in range(OBJFILE_NOPS)]
_C15 = [_of(0, 'share', 'two ObjectFile instances on one file (two processes): format pin, identical values, a committed change of one is seen by the other at its next access, no lost update')]
def _sched(n, length=3):
    digits = ''.join('wr'[(n >> (2 * i)) & 1] + 'LT'[(n >> (2 * i + 1)) & 1] for i in range(length))
    o = _of(5, 'sched_%d' % n, 'two ObjectFile instances on one file (two processes), schedule %s (w/r = which process writes, L/T = label / token flag, values symbolic): after every committed write both processes see exactly the committed state' % digits)
    o.defines['SCHED'] = n; o.defines['SCHED_LEN'] = length
    if n in (6, 9, 27, 36, 57): o.tiers = ('quick', 'thorough')
    return o
_C15 += [_sched(n) for n in range(64)]
_C05F = [_fault(a) for a in range(OBJFILE_NOPS)]
OBJFILE_NOPS_TX = 24   # file operations of one ObjectFile::commitTransaction (asserted by the no-fault instance)
def _txfault(at):
    o = _of(6, 'txfault_at_%d' % at if at < OBJFILE_NOPS_TX else 'tx_commit', ('file operation %d of ObjectFile::commitTransaction (two attributes changed in one transaction) fails: success is only reported when BOTH new values are on the (model) disk and flushed' % at) if at < OBJFILE_NOPS_TX else 'attribute transaction without fault: nothing reaches the disk before the commit, the commit makes both changes durable and visible to another instance')
    o.defines['VIO_AT'] = at; o.defines['NOPS_TX'] = OBJFILE_NOPS_TX
    if at in (0, 3, 5, 8, 12, 16, 19, 21, 23, OBJFILE_NOPS_TX): o.tiers = ('quick', 'thorough')
    return o
_C05TX = [_txfault(a) for a in range(OBJFILE_NOPS_TX + 1)]
_TXABORT = _of(7, 'tx_abort', 'aborted attribute transaction: object unchanged in memory and on disk, a new transaction can start'); _TXABORT.tiers = ('quick', 'thorough')
OBLIGATIONS['C05'] += _C05TX; OBLIGATIONS['C09'] += [_TXABORT] + [o for o in _C05TX if o.name == 'tx_commit']
_C15[0].tiers = ('quick', 'thorough')
OBLIGATIONS['C05'] += [_C15[0]] + _C05F
if OBJFILE_TIERS:
    OBLIGATIONS['C16'] = _C16; OBLIGATIONS['C15'] = _C15
META['C16'] = dict(outside='multi-file calls (object creation + directory entry, C_InitToken mkdir sequence), real kernel / file-system crash semantics (metadata ordering), SQLite; objects of other shapes', assumptions=['crash / durability model of harness/common/vio_model.h: data are durable once flushed, a crash during a flush leaves any prefix, ftruncate is durable at once'])
META['C15'] = dict(outside='interleavings at file-operation granularity between two writers (advisory locks make a whole store()/refresh() atomic for real processes: modelled as atomic calls); directory-level protocol (OSToken::index, added/removed files); three processes; real fcntl semantics', assumptions=['model file system shared by the two instances; each store()/refresh() call is atomic (fcntl lock)'])

# ----------------------------------------------------------------------------- C_UnwrapKey (C09 / C13 / C07 / C01)
UNWRAP_STUBS = {'_ZN7SoftHSM12UnwrapKeySymEP13_CK_MECHANISMR10ByteStringP5TokenP8OSObjectS3_': 'sink_unwrap', '_ZN7SoftHSM13UnwrapKeyAsymEP13_CK_MECHANISMR10ByteStringP5TokenP8OSObjectS3_': 'sink_unwrap',
                '_ZN7SoftHSM12CreateObjectEmP13_CK_ATTRIBUTEmPmi': 'sink_create', '_ZN5Token7decryptERK10ByteStringRS0_': 'tag_token_decrypt', '_ZN5Token7encryptERK10ByteStringRS0_': 'tag_token_encrypt'}
for _n in ('_ZNK7SoftHSM16setRSAPrivateKeyEP8OSObjectRK10ByteStringP5Tokenb', '_ZNK7SoftHSM16setDSAPrivateKeyEP8OSObjectRK10ByteStringP5Tokenb', '_ZNK7SoftHSM15setDHPrivateKeyEP8OSObjectRK10ByteStringP5Tokenb',
           '_ZNK7SoftHSM15setECPrivateKeyEP8OSObjectRK10ByteStringP5Tokenb', '_ZNK7SoftHSM15setEDPrivateKeyEP8OSObjectRK10ByteStringP5Tokenb'):
    UNWRAP_STUBS[_n] = 'sink_setPriv'
UNWRAP_OB = Ob('unwrap_key', 'C09/unwrap_entry.cpp', ENTRY_REAL_NOP11, defines={'BS_CAP': 16, 'MODEL_OUT_MAX': 4}, unwind=18, stubs=UNWRAP_STUBS, caps='common/entry_caps.h', unwind_rules=[(r'ir_memcpy', 120)],
    desc='C_UnwrapKey: unwrapping key needs CKA_UNWRAP, fitting type, allowed + advertised mechanism, and the logged-in user when private; new key private only for the user, token only via RW; unwrapped key is not local / never-extractable / always-sensitive and committed in one transaction; a rejected or failed unwrap leaves no object and no handle',
    bounds='mechanism all 2^64 values, parameter <= 48 bytes, wrapped blob <= 16 bytes, template (CLASS, KEY_TYPE [, TOKEN | PRIVATE]); decryption, CreateObject and PKCS#8 import are cuts with symbolic results', timeout=600, mem=30)
OBLIGATIONS['C09'].append(UNWRAP_OB); OBLIGATIONS['C13'].append(UNWRAP_OB); OBLIGATIONS['C07'].append(UNWRAP_OB)

# ----------------------------------------------------------------------------- deriveSymmetric (C02 / C08 / C13 / C09)
DERIVE_STUBS = {'_ZN7SoftHSM12CreateObjectEmP13_CK_ATTRIBUTEmPmi': 'sink_create', '_ZN5Token7decryptERK10ByteStringRS0_': 'tag_token_decrypt', '_ZN5Token7encryptERK10ByteStringRS0_': 'det_token_encrypt'}
DERIVE_OBS = [Ob('derive_' + n, 'C09/derive_entry.cpp', ENTRY_REAL_NOP11 + ['crypto/AESKey.cpp', 'crypto/DESKey.cpp'], defines={'MECH': m, 'BS_CAP': 20 if 'ENCRYPT' in m else 10, 'MODEL_OUT_MAX': 4, 'GENERIC': 1 if 'ENCRYPT' in m else 0}, unwind=22 if 'ENCRYPT' in m else 12, stubs=DERIVE_STUBS, caps='common/entry_caps.h', unwind_rules=[(r'ir_memcpy', 120), (r'^harness\.', 20)],
    desc='deriveSymmetric(%s): derived key inherits SENSITIVE / non-EXTRACTABLE from the key(s) it contains whatever the template asks, ALWAYS_SENSITIVE / NEVER_EXTRACTABLE / LOCAL tell the truth, value is exactly the concatenation (encrypted when private), a failed derive leaves no object and no handle' % m,
    bounds='base/second key with symbolic flags and 2-byte values, 2 data bytes, template of 0..2 entries (SENSITIVE, EXTRACTABLE symbolic); CreateObject is a cut', timeout=600, mem=24)
    for (n, m) in (('base_and_data', 'CKM_CONCATENATE_BASE_AND_DATA'), ('data_and_base', 'CKM_CONCATENATE_DATA_AND_BASE'), ('base_and_key', 'CKM_CONCATENATE_BASE_AND_KEY'), ('aes_ecb_data', 'CKM_AES_ECB_ENCRYPT_DATA'))]
OBLIGATIONS['C02'] += DERIVE_OBS[:3]; OBLIGATIONS['C08'] += DERIVE_OBS[:1] + DERIVE_OBS[2:]; OBLIGATIONS['C13'] += DERIVE_OBS[:1]; OBLIGATIONS['C09'] += DERIVE_OBS[:1]

# ----------------------------------------------------------------------------- plug-in registries (one module per topic)
# each module defines register(OBLIGATIONS, META) and may use everything defined above through `import obligations`
import importlib
# modules listed in plugins_hold.txt are still being built: they are loaded only when named in $VERIF_PLUGINS (comma separated)
_hold = set(open(os.path.join(os.path.dirname(os.path.abspath(__file__)), 'plugins_hold.txt')).read().split()) - set(os.environ.get('VERIF_PLUGINS', '').split(','))
for _mod in ('obl_c10', 'obl_c18', 'obl_store', 'obl_entry2'):
    if _mod not in _hold and os.path.exists(os.path.join(os.path.dirname(os.path.abspath(__file__)), _mod + '.py')):
        importlib.import_module(_mod).register(sys.modules[__name__])
