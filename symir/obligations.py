"""Registry of obligations per property (see DESIGN.md section 4)."""
from run import Ob

OBLIGATIONS = {}
META = {}

# ----------------------------------------------------------------------------- C11
HM = ['handle_mgr/HandleManager.cpp', 'handle_mgr/Handle.cpp']
_hm_ops = [(100, 'init', 'freshly constructed HandleManager satisfies INV'),
           (0, 'addSession', 'new session handle > every handle ever issued; no other handle changes'),
           (1, 'addSessionObject', 'new or existing object handle; never re-labels another handle'),
           (2, 'addTokenObject', 'new or existing object handle; never re-labels another handle'),
           (3, 'sessionClosed', 'exactly the session, its session objects, and on last close everything of the slot die'),
           (4, 'allSessionsClosed', 'exactly the handles of the slot die'),
           (5, 'tokenLoggedOut', 'exactly the private object handles of the slot die'),
           (6, 'destroyObject', 'exactly that object handle dies'),
           (7, 'lookups', 'getSession/getObject/getObjectHandle resolve exactly what the handle denotes and change nothing')]
OBLIGATIONS['C11'] = [
    Ob('hm_' + n, 'C11/hm_ind.cpp', HM, defines={'OP': op, 'VSTL_CAP': 3}, unwind=5,
       desc='HandleManager::%s one inductive step from an arbitrary INV state: %s' % (n, d),
       bounds='handle table <= 3 entries (thorough: 4), 4 slots, 8 object addresses; handleCounter < 2^64-16',
       thorough={'defines': {'VSTL_CAP': 4}, 'unwind': 6})
    for (op, n, d) in _hm_ops]
META['C11'] = dict(
    outside='handle tables with more entries than the capacity; 2^64 counter wrap-around; the SoftHSM.cpp wrappers beyond the obligations listed',
    assumptions=['representation invariant INV of HandleManager (harness/C11/hm_ind.cpp: keys in [1,counter], distinct, kinds valid, objects map is a sub-relation of the inverse of handles) - proved inductive by the same obligations'])
