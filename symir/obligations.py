"""Registry of obligations per property (see DESIGN.md section 4)."""
from run import Ob

OBLIGATIONS = {}
META = {}

# ----------------------------------------------------------------------------- C11
HM = ['handle_mgr/HandleManager.cpp', 'handle_mgr/Handle.cpp']
_hm_ops = [(100, 'init', 'freshly constructed HandleManager satisfies INV'),
           (0, 'addSession', 'new session handle > every handle ever issued; no other handle changes'),
           (1, 'addSessionObject', 'new or existing object handle; never re-labels another handle'),
           (2, 'addTokenObject', 'new or existing object handle; never re-labels another handle'),
           (3, 'sessionClosed', 'exactly the session, its session objects, and on last close everything of the slot die'),
           (4, 'allSessionsClosed', 'exactly the handles of the slot die'),
           (5, 'tokenLoggedOut', 'exactly the private object handles of the slot die'),
           (6, 'destroyObject', 'exactly that object handle dies'),
           (7, 'lookups', 'getSession/getObject/getObjectHandle resolve exactly what the handle denotes and change nothing')]
OBLIGATIONS['C11'] = [
    Ob('hm_' + n, 'C11/hm_ind.cpp', HM, defines={'OP': op, 'VSTL_CAP': 3}, unwind=5,
       desc='HandleManager::%s one inductive step from an arbitrary INV state: %s' % (n, d),
       bounds='handle table <= 3 entries (thorough: 4), 4 slots, 8 object addresses; handleCounter < 2^64-16',
       thorough={'defines': {'VSTL_CAP': 4}, 'unwind': 6})
    for (op, n, d) in _hm_ops]
META['C11'] = dict(
    outside='handle tables with more entries than the capacity; 2^64 counter wrap-around; the SoftHSM.cpp wrappers beyond the obligations listed',
    assumptions=['representation invariant INV of HandleManager (harness/C11/hm_ind.cpp: keys in [1,counter], distinct, kinds valid, objects map is a sub-relation of the inverse of handles) - proved inductive by the same obligations'])

# ----------------------------------------------------------------------------- C07
ENTRY_REAL = ['SoftHSM.cpp', 'access.cpp', 'session_mgr/Session.cpp', 'slot_mgr/Token.cpp', 'data_mgr/SecureDataManager.cpp',
              'handle_mgr/HandleManager.cpp', 'handle_mgr/Handle.cpp', 'data_mgr/ByteString.cpp', 'object_store/OSAttribute.cpp',
              'crypto/SymmetricAlgorithm.cpp', 'crypto/AsymmetricAlgorithm.cpp', 'crypto/MacAlgorithm.cpp', 'crypto/HashAlgorithm.cpp',
              'crypto/SymmetricKey.cpp']
GETKEY_STUBS = {n: 'sink_getKey' for n in [
    '_ZN7SoftHSM15getSymmetricKeyEP12SymmetricKeyP5TokenP8OSObject', '_ZN7SoftHSM15getRSAPublicKeyEP12RSAPublicKeyP5TokenP8OSObject',
    '_ZN7SoftHSM16getRSAPrivateKeyEP13RSAPrivateKeyP5TokenP8OSObject', '_ZN7SoftHSM16getDSAPrivateKeyEP13DSAPrivateKeyP5TokenP8OSObject',
    '_ZN7SoftHSM15getECPrivateKeyEP12ECPrivateKeyP5TokenP8OSObject', '_ZN7SoftHSM15getEDPrivateKeyEP12EDPrivateKeyP5TokenP8OSObject',
    '_ZN7SoftHSM15getDSAPublicKeyEP12DSAPublicKeyP5TokenP8OSObject', '_ZN7SoftHSM14getECPublicKeyEP11ECPublicKeyP5TokenP8OSObject',
    '_ZN7SoftHSM14getEDPublicKeyEP11EDPublicKeyP5TokenP8OSObject', '_ZN7SoftHSM15getDHPrivateKeyEP12DHPrivateKeyP5TokenP8OSObject']}
OBLIGATIONS['C07'] = [
    Ob('init_' + n, 'C07/init_guard.cpp', ENTRY_REAL, defines={'OP': op}, unwind=18, stubs=GETKEY_STUBS, caps='common/entry_caps.h',
       desc='%s: rv==CKR_OK or key material/crypto reached => usage flag, key type fits mechanism, CKA_ALLOWED_MECHANISMS and advertised list honoured; private key only for logged-in user; operation gate' % fn,
       bounds='mechanism: all 2^64 values; parameter <= 64 bytes (IV <= 16); key attribute table: 8 symbolic attributes; advertised list <= 2 entries; allowed set <= 2 entries')
    for (op, n, fn) in [(0, 'encrypt', 'C_EncryptInit'), (1, 'decrypt', 'C_DecryptInit'), (2, 'sign', 'C_SignInit'), (3, 'verify', 'C_VerifyInit')]]
META['C07'] = dict(outside='translation of the slots.mechanisms string into the advertised list (prepareSupportedMechanisms); OpenSSL', assumptions=[])

# ----------------------------------------------------------------------------- C01
ENTRY_REAL_NOP11 = ENTRY_REAL + ['slot_mgr/Slot.cpp']
STORE_STUBS = {'_ZN5Token12createObjectEv': 'sink_token_createObject', '_ZN18SessionObjectStore12createObjectEmmb': 'sink_sos_createObject',
               '_ZN5Token7decryptERK10ByteStringRS0_': 'sink_token_decrypt', '_ZN5Token7encryptERK10ByteStringRS0_': 'sink_token_encrypt'}
_c01_ops = [(0, 'destroy', 'C_DestroyObject'), (1, 'getsize', 'C_GetObjectSize'), (2, 'getattr', 'C_GetAttributeValue'),
            (3, 'setattr', 'C_SetAttributeValue'), (4, 'copy', 'C_CopyObject'), (5, 'digestkey', 'C_DigestKey')]
C01_OBJ = [Ob('obj_' + n, 'C01/obj_entry.cpp', ENTRY_REAL_NOP11, defines={'OP': op}, unwind=18, stubs=STORE_STUBS, caps='common/entry_caps.h',
              desc='%s on an arbitrary object from an arbitrary session/login state: private object and user not logged in => refused, no sink reached, outputs untouched; token object and RO session => no modification; object-level gates' % fn,
              bounds='template <= 2 entries, values <= 8 bytes; one object with the full symbolic attribute table of entry_env.h')
           for (op, n, fn) in _c01_ops]
OBLIGATIONS['C01'] = C01_OBJ + OBLIGATIONS['C07']
META['C01'] = dict(outside='templates longer than the bound; the bodies behind the sinks (C02/C07/C08/C12/C13)', assumptions=['C_GetObjectSize: no handle of a private object exists while the user is not logged in (purge invariant proved by C11 hm_tokenLoggedOut)'])

# ----------------------------------------------------------------------------- C03
C03_REAL = ['SoftHSM.cpp', 'session_mgr/SessionManager.cpp', 'session_mgr/Session.cpp', 'slot_mgr/Slot.cpp', 'slot_mgr/Token.cpp',
            'data_mgr/SecureDataManager.cpp', 'handle_mgr/HandleManager.cpp', 'handle_mgr/Handle.cpp', 'data_mgr/ByteString.cpp',
            'crypto/SymmetricAlgorithm.cpp', 'crypto/AsymmetricAlgorithm.cpp', 'crypto/MacAlgorithm.cpp', 'crypto/HashAlgorithm.cpp',
            'crypto/SymmetricKey.cpp', 'crypto/AESKey.cpp', 'access.cpp']
C03_STUBS = {'_ZN11SlotManager7getSlotEm': 'stub_getSlot', '_ZN18SessionObjectStore13sessionClosedEm': 'stub_sos_sessionClosed',
             '_ZN18SessionObjectStore17allSessionsClosedEm': 'stub_sos_allSessionsClosed', '_ZN18SessionObjectStore14tokenLoggedOutEm': 'stub_sos_tokenLoggedOut',
             '_ZN17SecureDataManager6remaskER10ByteString': 'stub_remask', '_ZN7RFC488012PBEDeriveKeyERK10ByteStringRS0_PP6AESKey': 'stub_pbe',
             '_ZN4Slot9initTokenER10ByteStringPh': 'stub_initToken',
             '_ZN17SecureDataManager5loginERK10ByteStringS2_': 'stub_sdm_login', '_ZN17SecureDataManager14reAuthenticateERK10ByteStringS2_': 'stub_sdm_reauth',
             '_ZN13HandleManager10getSessionEm': 'stub_hm_getSession', '_ZN13HandleManager10addSessionEmPv': 'stub_hm_addSession',
             '_ZN13HandleManager13sessionClosedEm': 'stub_hm_sessionClosed', '_ZN13HandleManager17allSessionsClosedEmb': 'stub_hm_allSessionsClosed',
             '_ZN13HandleManager14tokenLoggedOutEm': 'stub_hm_tokenLoggedOut'}
_c03_ops = [(0, 'open', 'C_OpenSession'), (1, 'close', 'C_CloseSession'), (2, 'closeall', 'C_CloseAllSessions'),
            (4, 'logout', 'C_Logout'), (5, 'sameclass', 'C_GetSessionInfo on two sessions of one token'), (6, 'inittoken_gate', 'C_InitToken session gate')]
def _c03_sess(op, n, fn, target, tok, tiers):
    suffix = '' if target is None else '_s%d_t%d' % (target, tok)
    d = {'OP': op, 'NSESS': 4, 'BS_CAP': 4, 'TARGET': 1 if target is None else target, 'TARGET2': 2, 'TARGET_TOK': 0 if tok is None else tok}
    return Ob('sess_' + n + suffix, 'C03/login_ind.cpp', C03_REAL, defines=d, unwind=5, stubs=C03_STUBS, caps='C03/caps.h', flags=['--no-array-field-sensitivity'], tiers=tiers,
              desc='%s: one inductive step from an arbitrary session table / login state satisfying INV (PKCS#11 login rules); INV preserved, per-call contract, failing call changes nothing, other token untouched%s' % (fn, '' if target is None else ' [call addresses table entry %d on token %d or an unknown handle]' % (target, tok)),
              bounds='<= 4 session-table entries, 2 tokens, PIN <= 4 bytes; HandleManager / SessionObjectStore notifications observed as calls', timeout=600, mem=14)
OBLIGATIONS['C03'] = [_c03_sess(0, 'open', 'C_OpenSession', None, None, ('quick', 'thorough')),
                      _c03_sess(5, 'sameclass', 'C_GetSessionInfo on two sessions of one token', None, None, ('quick', 'thorough')),
                      _c03_sess(6, 'inittoken_gate', 'C_InitToken session gate', None, None, ('quick', 'thorough'))]
for (op, n, fn) in [(1, 'close', 'C_CloseSession'), (4, 'logout', 'C_Logout')]:
    for target in range(4):
        for tok in range(2):
            OBLIGATIONS['C03'].append(_c03_sess(op, n, fn, target, tok, ('quick', 'thorough') if (target, tok) in ((1, 0), (2, 1)) else ('thorough',)))
SDM_LOGIN_STUBS = {'_ZN17SecureDataManager5loginERK10ByteStringS2_': 'stub_sdm_login', '_ZN17SecureDataManager14reAuthenticateERK10ByteStringS2_': 'stub_sdm_reauth'}
OBLIGATIONS['C03'] += [
    Ob('tok_' + n, 'C03/token_login.cpp', ['slot_mgr/Token.cpp', 'data_mgr/SecureDataManager.cpp', 'data_mgr/ByteString.cpp'], defines={'OP': op, 'BS_CAP': 4}, unwind=5,
       stubs=SDM_LOGIN_STUBS, caps='C03/caps.h',
       desc='Token::%s from an arbitrary login state of one token: succeeds only from the public state with an accepted PIN and then logs in exactly that user; a failed call changes no login flag' % n,
       bounds='one token; PIN <= 4 bytes; PIN acceptance is a symbolic boolean (contract of SecureDataManager::login: logs out first, then accepts or not)')
    for (op, n) in [(0, 'loginSO'), (1, 'loginUser'), (2, 'reAuthenticate'), (3, 'logout')]]
OBLIGATIONS['C03'] += [
    Ob('clogin', 'C03/clogin_entry.cpp', ENTRY_REAL_NOP11, defines={}, unwind=18, caps='common/entry_caps.h',
       stubs={'_ZN5Token7loginSOER10ByteString': 'sink_loginSO', '_ZN5Token9loginUserER10ByteString': 'sink_loginUser',
              '_ZN5Token14reAuthenticateER10ByteString': 'sink_reAuth', '_ZN14SessionManager13haveROSessionEm': 'sink_haveRO'},
       desc='C_Login wrapper: user type -> Token call, SO login not attempted while an RO session exists, caller PIN passed unmodified, re-authentication flag cleared only by an accepted context-specific login',
       bounds='PIN <= 16 bytes; one session')]
META['C03'] = dict(outside='more than 4 simultaneously open sessions; the cryptographic PIN check itself (C04); C_InitPIN/C_SetPIN (C04); Slot::initToken body (C14)',
                   assumptions=['INV (harness/C03/login_ind.cpp): not both SO and user logged in; SO logged in => no RO session on the token; somebody logged in => the token has a session; session table entry i has internal handle i+1 - proved inductive by the same obligations'])
