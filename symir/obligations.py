"""Registry of obligations per property (see DESIGN.md section 4)."""
from run import Ob

OBLIGATIONS = {}
META = {}

# ----------------------------------------------------------------------------- C11
HM = ['handle_mgr/HandleManager.cpp', 'handle_mgr/Handle.cpp']
_hm_ops = [(100, 'init', 'freshly constructed HandleManager satisfies INV'),
           (0, 'addSession', 'new session handle > every handle ever issued; no other handle changes'),
           (1, 'addSessionObject', 'new or existing object handle; never re-labels another handle'),
           (2, 'addTokenObject', 'new or existing object handle; never re-labels another handle'),
           (3, 'sessionClosed', 'exactly the session, its session objects, and on last close everything of the slot die'),
           (4, 'allSessionsClosed', 'exactly the handles of the slot die'),
           (5, 'tokenLoggedOut', 'exactly the private object handles of the slot die'),
           (6, 'destroyObject', 'exactly that object handle dies'),
           (7, 'lookups', 'getSession/getObject/getObjectHandle resolve exactly what the handle denotes and change nothing')]
OBLIGATIONS['C11'] = [
    Ob('hm_' + n, 'C11/hm_ind.cpp', HM, defines={'OP': op, 'VSTL_CAP': 3}, unwind=5,
       desc='HandleManager::%s one inductive step from an arbitrary INV state: %s' % (n, d),
       bounds='handle table <= 3 entries (thorough: 4), 4 slots, 8 object addresses; handleCounter < 2^64-16',
       thorough={'defines': {'VSTL_CAP': 4}, 'unwind': 6})
    for (op, n, d) in _hm_ops]
META['C11'] = dict(
    outside='handle tables with more entries than the capacity; 2^64 counter wrap-around; the SoftHSM.cpp wrappers beyond the obligations listed',
    assumptions=['representation invariant INV of HandleManager (harness/C11/hm_ind.cpp: keys in [1,counter], distinct, kinds valid, objects map is a sub-relation of the inverse of handles) - proved inductive by the same obligations'])

# ----------------------------------------------------------------------------- C07
ENTRY_REAL = ['SoftHSM.cpp', 'access.cpp', 'session_mgr/Session.cpp', 'slot_mgr/Token.cpp', 'data_mgr/SecureDataManager.cpp',
              'handle_mgr/HandleManager.cpp', 'handle_mgr/Handle.cpp', 'data_mgr/ByteString.cpp', 'object_store/OSAttribute.cpp',
              'crypto/SymmetricAlgorithm.cpp', 'crypto/AsymmetricAlgorithm.cpp', 'crypto/MacAlgorithm.cpp', 'crypto/HashAlgorithm.cpp',
              'crypto/SymmetricKey.cpp']
GETKEY_STUBS = {n: 'sink_getKey' for n in [
    '_ZN7SoftHSM15getSymmetricKeyEP12SymmetricKeyP5TokenP8OSObject', '_ZN7SoftHSM15getRSAPublicKeyEP12RSAPublicKeyP5TokenP8OSObject',
    '_ZN7SoftHSM16getRSAPrivateKeyEP13RSAPrivateKeyP5TokenP8OSObject', '_ZN7SoftHSM16getDSAPrivateKeyEP13DSAPrivateKeyP5TokenP8OSObject',
    '_ZN7SoftHSM15getECPrivateKeyEP12ECPrivateKeyP5TokenP8OSObject', '_ZN7SoftHSM15getEDPrivateKeyEP12EDPrivateKeyP5TokenP8OSObject',
    '_ZN7SoftHSM15getDSAPublicKeyEP12DSAPublicKeyP5TokenP8OSObject', '_ZN7SoftHSM14getECPublicKeyEP11ECPublicKeyP5TokenP8OSObject',
    '_ZN7SoftHSM14getEDPublicKeyEP11EDPublicKeyP5TokenP8OSObject', '_ZN7SoftHSM15getDHPrivateKeyEP12DHPrivateKeyP5TokenP8OSObject']}
OBLIGATIONS['C07'] = [
    Ob('init_' + n, 'C07/init_guard.cpp', ENTRY_REAL, defines={'OP': op}, unwind=18, stubs=GETKEY_STUBS, caps='common/entry_caps.h',
       desc='%s: rv==CKR_OK or key material/crypto reached => usage flag, key type fits mechanism, CKA_ALLOWED_MECHANISMS and advertised list honoured; private key only for logged-in user; operation gate' % fn,
       bounds='mechanism: all 2^64 values; parameter <= 64 bytes (IV <= 16); key attribute table: 8 symbolic attributes; advertised list <= 2 entries; allowed set <= 2 entries')
    for (op, n, fn) in [(0, 'encrypt', 'C_EncryptInit'), (1, 'decrypt', 'C_DecryptInit'), (2, 'sign', 'C_SignInit'), (3, 'verify', 'C_VerifyInit')]]
META['C07'] = dict(outside='translation of the slots.mechanisms string into the advertised list (prepareSupportedMechanisms); OpenSSL', assumptions=[])

# ----------------------------------------------------------------------------- C01
ENTRY_REAL_NOP11 = ENTRY_REAL + ['slot_mgr/Slot.cpp']
STORE_STUBS = {'_ZN5Token12createObjectEv': 'sink_token_createObject', '_ZN18SessionObjectStore12createObjectEmmb': 'sink_sos_createObject',
               '_ZN5Token7decryptERK10ByteStringRS0_': 'sink_token_decrypt', '_ZN5Token7encryptERK10ByteStringRS0_': 'sink_token_encrypt'}
_c01_ops = [(0, 'destroy', 'C_DestroyObject'), (1, 'getsize', 'C_GetObjectSize'), (2, 'getattr', 'C_GetAttributeValue'),
            (3, 'setattr', 'C_SetAttributeValue'), (4, 'copy', 'C_CopyObject'), (5, 'digestkey', 'C_DigestKey')]
C01_OBJ = [Ob('obj_' + n, 'C01/obj_entry.cpp', ENTRY_REAL_NOP11, defines={'OP': op}, unwind=18, stubs=STORE_STUBS, caps='common/entry_caps.h',
              desc='%s on an arbitrary object from an arbitrary session/login state: private object and user not logged in => refused, no sink reached, outputs untouched; token object and RO session => no modification; object-level gates' % fn,
              bounds='template <= 2 entries, values <= 8 bytes; one object with the full symbolic attribute table of entry_env.h')
           for (op, n, fn) in _c01_ops]
OBLIGATIONS['C01'] = C01_OBJ + OBLIGATIONS['C07']
META['C01'] = dict(outside='templates longer than the bound; the bodies behind the sinks (C02/C07/C08/C12/C13)', assumptions=['C_GetObjectSize: no handle of a private object exists while the user is not logged in (purge invariant proved by C11 hm_tokenLoggedOut)'])
