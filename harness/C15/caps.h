// Force-included into EVERY translation unit of the OSToken-level obligations (harness/C15/store.cpp): container capacities
// (part of the types) and the renaming of the libc file / directory API of OSToken.cpp, Directory.cpp, Generation.cpp,
// ObjectFile.cpp, File.cpp to the model token directory of harness/common/vio_dir_model.h.
#ifndef C15_CAPS_H
#define C15_CAPS_H
#include "vstl_common.h"
#ifndef BS_CAP
#define BS_CAP 12
#endif
// the standard headers whose declarations must not be renamed come first
#include <cstdio>
#include <cstdlib>
#include <algorithm>
#include <string>
class OSAttribute; class OSObject;
template<> struct vstl_vec_cap<unsigned char> { enum { value = BS_CAP }; };
template<> struct vstl_set_cap<unsigned long> { enum { value = 2 }; };                 // mechanism sets
template<> struct vstl_map_cap<unsigned long, OSAttribute> { enum { value = 2 }; };   // nested attribute maps
template<> struct vstl_map_cap<unsigned long, OSAttribute*> { enum { value = 3 }; };  // attributes of an object
template<> struct vstl_set_cap<OSObject*> { enum { value = 3 }; };                     // objects of a token instance
template<> struct vstl_set_cap<std::string> { enum { value = 3 }; };                   // object file names of a token directory
template<> struct vstl_vec_cap<std::string> { enum { value = 8 }; };                   // directory listing (7 possible entries)
// Order of std::set<OSObject*>: the real container orders by ADDRESS, i.e. in an order the program cannot know.  CBMC cannot decide
// address comparisons between distinct heap objects during symbolic execution (every iteration over the set would fork).  The model
// orders object pointers by the rank in which the set model first saw them (ascending; PTR_ORDER=1: descending) - one concrete
// arbitrary order per obligation instead of a symbolic one.  Pointer EQUALITY is the real one.
#include "map"
extern "C" size_t vstl_ptr_rank(const void* p);
#ifndef PTR_ORDER
#define PTR_ORDER 0
#endif
namespace std {
template<class C> struct vstl_key_ops<OSObject*, C> {
	static bool lt(OSObject* const& a, OSObject* const& b) { if (a == b) return false; size_t ra = vstl_ptr_rank(a), rb = vstl_ptr_rank(b); return PTR_ORDER ? rb < ra : ra < rb; }
	static bool eq(OSObject* const& a, OSObject* const& b) { return a == b; }
};
}
#include "vio_rename.h"
#include <dirent.h>
#ifdef __cplusplus
extern "C" {
#endif
int vio_dir_open3(const char* path, int flags, unsigned mode);
int vio_dir_remove(const char* path);
DIR* vio_dir_opendir(const char* path);
struct dirent* vio_dir_readdir(DIR* d);
int vio_dir_closedir(DIR* d);
int vio_dir_lstat(const char* path, struct stat* st);
int vio_dir_mkdir(const char* path, unsigned mode);
int vio_dir_rmdir(const char* path);
#ifdef __cplusplus
}
#endif
// exactly the calls Directory.cpp / File.cpp make: open (paths are resolved against the model directory), opendir, readdir,
// closedir, lstat, mkdir, rmdir, remove.  The function-like macros also rename the members Directory::remove/mkdir/rmdir -
// consistently in every translation unit (same technique as rewind in vio_rename.h).
#undef open
#define open(p, f, m) vio_dir_open3(p, f, (unsigned)(m))
#define remove(...) vio_dir_remove(__VA_ARGS__)
#define opendir(...) vio_dir_opendir(__VA_ARGS__)
#define readdir(...) vio_dir_readdir(__VA_ARGS__)
#define closedir(...) vio_dir_closedir(__VA_ARGS__)
#define lstat(...) vio_dir_lstat(__VA_ARGS__)
#define mkdir(...) vio_dir_mkdir(__VA_ARGS__)
#define rmdir(...) vio_dir_rmdir(__VA_ARGS__)
#endif
