// C15 / C16 / C05 at the TOKEN-DIRECTORY level: the real OSToken.cpp (constructor, index, getObjects, createObject, deleteObject),
// Directory.cpp, Generation.cpp, ObjectFile.cpp, File.cpp, OSAttribute.cpp, ByteString.cpp over the model token directory of
// harness/common/vio_dir_model.h (directory "T" with the possible entries generation, token.object, token.lock, a.object, a.lock,
// b.object, b.lock).  Two OSToken instances on the same directory = two processes that have the token open; a fresh instance =
// a restart.  SHAPES are concrete per obligation (which files exist, their names and lengths, the schedule of calls, the number
// of the failing operation / crash point); every attribute VALUE and the token flags are symbolic.
//   OP 1  C15 s1  Q has indexed the empty token; P creates an object and sets two attributes; Q.getObjects() = that object, P's values
//   OP 2  C15 s2  Q has indexed; P creates "a"; Q's next store call is Q.createObject() ("b"); Q.getObjects() must contain BOTH
//   OP 3  C15 s3  P and Q have object "a" loaded; P.deleteObject(a): Q's pointer is invalid at its next access, Q no longer lists it,
//                 nobody (not even a fresh instance) ever sees it again
//   OP 4  C15 s4  P changes an attribute of "a" which Q has loaded: Q sees the new value at its next access
//   OP 5  C16     crash at file-system operation VIO_AT of P.createObject(): recovery by a fresh instance
//   OP 6  C16     crash at file-system operation VIO_AT of P.deleteObject(b): recovery by a fresh instance
//   OP 7  C05     createObject + setAttribute returned true: a fresh instance (restart) finds the object with identical values (+ format pin)
//   OP 8  C05     deleteObject returned true: a fresh instance does not find the object
//   OP 9  C05     file-system operation VIO_AT of createObject fails: non-NULL only for an object that is on the disk
//   OP 10 C05     file-system operation VIO_AT of deleteObject fails: true only when the object is gone from the disk
// Parameters (all concrete per obligation): VIO_AT / NOPS (number of the operation, number of operations of the call: asserted), CRASH_DSIZE
// (OP 5: bytes of the file in flight that reached the disk), STRICT=1 (OP 9/10: two clauses beyond C05, obligations store_strict_*),
// PTR_ORDER / VIO_DIR_ORDER (iteration order of std::set<OSObject*> / readdir order, see caps.h and vio_dir_model.h).
// Not run: destructors of OSToken / ObjectFile (instances are never deleted; File objects on the stack are destroyed = closed as in the real code).
#include "venv.h"
#include "caps.h"
#ifndef OP
#define OP 1
#endif
#ifndef VIO_AT
#define VIO_AT 0
#endif
#ifndef NOPS
#define NOPS 0
#endif
#ifndef STRICT
#define STRICT 0
#endif
#ifndef CRASH_DSIZE
#define CRASH_DSIZE 0
#endif
#ifndef CRASH_DSIZE_MAX
#define CRASH_DSIZE_MAX 8
#endif
#define VIO_DIR_UUID_MODEL
#include "vio_dir_model.h"
#define MUTEX_MODEL_IMPL
#include "mutex_model.h"
#define private public
#define protected public
#include "OSToken.h"
#include "ObjectFile.h"
#include "Directory.h"
#include "File.h"
#include "Generation.h"
#include "OSAttribute.h"
#include "OSAttributes.h"
#undef private
#undef protected
void softHSMLog(const int, const char*, const char*, const int, const char*, ...) {}
// dynamic_cast<ObjectFile*>(OSObject*): ObjectFile is the only class of OSObject that exists in these obligations and OSObject is its
// primary base (offset 0), so the cast is the identity on non-NULL pointers.  (The native replay build links this definition, too.)
extern "C" void* __dynamic_cast(const void* p, const void* src, const void* dst, long hint) { (void)src; (void)dst; (void)hint; return (void*)p; }

#ifdef PRINT_OPS      /* native debugging aid (how NOPS in symir/obl_store.py was measured); not defined by any obligation */
#define PRINT_USED(u) fprintf(stderr, "file-system operations used: %u\n", (u))
#else
#define PRINT_USED(u) ((void)0)
#endif
typedef std::set<OSObject*> ObjSet;
static void be64(unsigned char* d, unsigned long v) { for (int i = 0; i < 8; i++) d[i] = (unsigned char)(v >> (56 - 8 * i)); }
static ByteString bs2(unsigned char a, unsigned char b) { ByteString x; x.resize(2); x[0] = a; x[1] = b; return x; }
enum { A_TOKEN = CKA_TOKEN /*1*/, A_LABEL = CKA_LABEL /*3*/ };
// object file layout (documented; pinned by C05 obligation file_format_pin_* / objfile_share and re-asserted by OP 7 below):
// generation | TOKEN(1) BOOLEAN(1) byte | LABEL(3) BYTESTR(3) len(2) b0 b1
enum { OFF_TOKEN = 8, OFF_LABEL = 8 + 17, FULL = 8 + 17 + 26, TOKOBJ_FULL = 8 + 24 };
static void ref_object(unsigned char* d, unsigned long gen, bool tok, unsigned char l0, unsigned char l1)
{
	be64(d, gen);
	be64(d + OFF_TOKEN, A_TOKEN); be64(d + OFF_TOKEN + 8, 1); d[OFF_TOKEN + 16] = tok ? 0xFF : 0x00;
	be64(d + OFF_LABEL, A_LABEL); be64(d + OFF_LABEL + 8, 3); be64(d + OFF_LABEL + 16, 2); d[OFF_LABEL + 24] = l0; d[OFF_LABEL + 25] = l1;
}
// a complete object file + its lock file, as a finished createObject + 2 x setAttribute leaves them
#define PUT_OBJECT(FI, LI, tok, l0, l1) do { ref_object(vio.f[FI].data, 3, tok, l0, l1); vio.f[FI].exists = true; vio.f[FI].size = FULL; vio.f[FI].flushed = FULL; \
	vio.f[LI].exists = true; vio.f[LI].size = 0; vio.f[LI].flushed = 0; } while (0)
// the token object: generation | CKA_OS_TOKENFLAGS ULONG(2) flags      (+ its lock file)
static void put_tokenobject(unsigned long flags)
{
	unsigned char* d = vio.f[VD_TOKOBJ].data; be64(d, 1); be64(d + 8, CKA_OS_TOKENFLAGS); be64(d + 16, 2); be64(d + 24, flags);
	vio.f[VD_TOKOBJ].exists = true; vio.f[VD_TOKOBJ].size = TOKOBJ_FULL; vio.f[VD_TOKOBJ].flushed = TOKOBJ_FULL;
	vio.f[VD_TOKLOCK].exists = true; vio.f[VD_TOKLOCK].size = 0; vio.f[VD_TOKLOCK].flushed = 0;
}
#define DUR_IS(FI, N) do { vassert(vio.f[FI].durableExists && vio.f[FI].durableSize == (N)); vio.f[FI].durableSize = (N); } while (0)
static bool has_values(OSObject* o, bool tok, unsigned char l0, unsigned char l1)
{
	if (!o->attributeExists(A_TOKEN) || !o->attributeExists(A_LABEL)) return false;
	if (o->getBooleanValue(A_TOKEN, !tok) != tok) return false;
	ByteString v = o->getByteStringValue(A_LABEL);
	return v.size() == 2 && v[0] == l0 && v[1] == l1;
}
static bool has_no_attributes(OSObject* o) { return !o->attributeExists(A_TOKEN) && !o->attributeExists(A_LABEL) && o->nextAttributeType(0) == 0 && !o->attributeExists(0); }
// the member of a getObjects() result that is stored in file `name` (NULL: none)
static ObjectFile* by_name(const ObjSet& s, const char* name)
{
	ObjectFile* r = NULL;
	for (ObjSet::iterator i = s.begin(); i != s.end(); ++i) { ObjectFile* f = (ObjectFile*)(*i); if (f->getFilename() == name) r = f; }
	return r;
}
static bool file_is(int fi, const unsigned char* ref, size_t n) { if (!vio.f[fi].exists || vio.f[fi].size != n || vio.f[fi].flushed != n) return false; for (size_t k = 0; k < n; k++) if (vio.f[fi].data[k] != ref[k]) return false; return true; }
static bool token_flags_are(OSToken* t, unsigned long flags) { CK_ULONG f = ~flags; return t->getTokenFlags(f) && f == flags; }

extern "C" void harness(void)
{
	vio_dir_reset();
	unsigned long flags = nondet_ulong(); vassume(flags != ~0UL);
	put_tokenobject(flags);
	// symbolic values: the object written in this run (tok, l0, l1), the object that is already on the disk (ptok, p0, p1), a changed label (n0, n1)
	bool tok = nondet_bool(), ptok = nondet_bool();
	unsigned char l0 = nondet_uchar(), l1 = nondet_uchar(), p0 = nondet_uchar(), p1 = nondet_uchar(), n0 = nondet_uchar(), n1 = nondet_uchar();
#if OP == 1
	OSToken* P = new OSToken("T", 0077); OSToken* Q = new OSToken("T", 0077);
	vassert(P->isValid() && Q->isValid());
	{ ObjSet s0; Q->getObjects(s0); vassert(s0.size() == 0); }                     // Q has indexed the (empty) token
	OSObject* o = P->createObject();
	vassert(o != NULL);
	vassert(o->setAttribute(A_TOKEN, OSAttribute(tok)) && o->setAttribute(A_LABEL, OSAttribute(bs2(l0, l1))));
	ObjSet s; Q->getObjects(s);                                                   // Q's next call
	vassert(s.size() == 1);                                                       // exactly one object: not lost, not duplicated
	OSObject* q = *s.begin();
	vassert(q != o && q->isValid());
	vassert(has_values(q, tok, l0, l1));                                          // ... with P's values
	{ ObjSet sp; P->getObjects(sp); vassert(sp.size() == 1 && sp.count(o) == 1 && o->isValid() && has_values(o, tok, l0, l1)); }
	vassert(token_flags_are(P, flags) && token_flags_are(Q, flags));
	vassert(vio_dir.unknownPaths == 0);
	vreach();
#elif OP == 2
	OSToken* P = new OSToken("T", 0077); OSToken* Q = new OSToken("T", 0077);
	vassert(P->isValid() && Q->isValid());
	{ ObjSet s0; Q->getObjects(s0); vassert(s0.size() == 0); }                     // Q has indexed the directory once
	OSObject* oa = P->createObject();                                             // -> a.object
	vassert(oa != NULL && oa->setAttribute(A_TOKEN, OSAttribute(tok)) && oa->setAttribute(A_LABEL, OSAttribute(bs2(l0, l1))));
	OSObject* ob = Q->createObject();                                             // Q's NEXT store call creates an object itself (-> b.object): no isValid()/index() in between
	vassert(ob != NULL && ob->setAttribute(A_TOKEN, OSAttribute(ptok)) && ob->setAttribute(A_LABEL, OSAttribute(bs2(p0, p1))));
	ObjSet s; Q->getObjects(s);
	vassert(s.count(ob) == 1);
	ObjectFile* qa = by_name(s, "a.object");
	vassert(qa != NULL);                                                          // P's committed object is not lost for Q
	vassert(s.size() == 2);
	vassert(qa != NULL && qa->isValid() && has_values(qa, tok, l0, l1));
	vassert(ob->isValid() && has_values(ob, ptok, p0, p1));
	{ ObjSet sp; P->getObjects(sp); ObjectFile* pb = by_name(sp, "b.object"); vassert(sp.size() == 2 && sp.count(oa) == 1 && pb != NULL && pb->isValid() && has_values(pb, ptok, p0, p1)); }
	vassert(vio_dir.unknownPaths == 0);
	vreach();
#elif OP == 11 || OP == 12
	// s5 (OP 11) replacement: P destroys a and creates b with no call of Q in between (a key roll-over): Q's next search returns exactly b.
	// s6 (OP 12) two cooperating sites: Q destroys its own object a, then P creates b: Q's next search returns exactly b.
	// (in both the NUMBER of object files Q expects is unchanged while the SET changed)
	PUT_OBJECT(VD_AOBJ, VD_ALOCK, ptok, p0, p1);
	vio_uuid_next = 1;                                                            // the new object gets the name "b"
	OSToken* P = new OSToken("T", 0077); OSToken* Q = new OSToken("T", 0077);
	vassert(P->isValid() && Q->isValid());
	ObjSet sp, sq; P->getObjects(sp); Q->getObjects(sq);
	vassert(sp.size() == 1 && sq.size() == 1);
	OSObject* pa = *sp.begin(); OSObject* qa = *sq.begin();
	vassert(pa->isValid() && qa->isValid());
#if OP == 11
	vassert(P->deleteObject(pa));
#else
	vassert(Q->deleteObject(qa));
#endif
	OSObject* ob = P->createObject();
	vassert(ob != NULL && ob->setAttribute(A_TOKEN, OSAttribute(tok)) && ob->setAttribute(A_LABEL, OSAttribute(bs2(l0, l1))));
	{
		ObjSet s; Q->getObjects(s);                                               // Q's next call
		ObjectFile* qb = by_name(s, "b.object");
		vassert(qb != NULL);                                                      // P's committed object is found
		vassert(s.size() == 1 && by_name(s, "a.object") == NULL);                 // ... and the destroyed one is not
		vassert(qb != NULL && qb->isValid() && has_values(qb, tok, l0, l1));
		vassert(!qa->isValid());
	}
	{ ObjSet s; P->getObjects(s); vassert(s.size() == 1 && s.count(ob) == 1 && !pa->isValid()); }
	vassert(vio_dir.unknownPaths == 0);
	vreach();
#elif OP == 3 || OP == 4
	PUT_OBJECT(VD_AOBJ, VD_ALOCK, ptok, p0, p1);
	OSToken* P = new OSToken("T", 0077); OSToken* Q = new OSToken("T", 0077);
	vassert(P->isValid() && Q->isValid());
	ObjSet sp, sq; P->getObjects(sp); Q->getObjects(sq);
	vassert(sp.size() == 1 && sq.size() == 1);
	OSObject* pa = *sp.begin(); OSObject* qa = *sq.begin();
	vassert(pa != qa && pa->isValid() && qa->isValid() && has_values(pa, ptok, p0, p1) && has_values(qa, ptok, p0, p1));   // both processes have the object loaded
#if OP == 3
	vassert(P->deleteObject(pa));
	vassert(!qa->isValid());                                                      // Q's pointer to the destroyed object is invalid at its next access
	{ ObjSet s; Q->getObjects(s); vassert(s.size() == 0); }                        // ... and Q no longer lists it
	vassert(!qa->attributeExists(A_LABEL) && !qa->attributeExists(A_TOKEN));      // no attribute of it is served any more
	vassert(qa->getByteStringValue(A_LABEL).size() == 0);                         // ... nor a stale value
	vassert(!pa->isValid());
	{ ObjSet s; P->getObjects(s); vassert(s.size() == 0); }
	vassert(!vio.f[VD_AOBJ].exists);
	// it never reappears: not for a process that opens the token later, and not for Q after further calls
	OSToken* R = new OSToken("T", 0077);
	{ ObjSet s; R->getObjects(s); vassert(R->isValid() && s.size() == 0); }
	{ ObjSet s; Q->getObjects(s); vassert(s.size() == 0 && !qa->isValid()); }
#else
	vassert(pa->setAttribute(A_LABEL, OSAttribute(bs2(n0, n1))));
	vassert(qa->isValid());                                                       // Q's next access
	vassert(has_values(qa, ptok, n0, n1));                                        // the new label, the other attribute unchanged
	vassert(qa->setAttribute(A_TOKEN, OSAttribute(tok)));                         // a later write of Q does not lose P's committed change
	vassert(pa->isValid() && has_values(pa, tok, n0, n1));
	{ ObjSet s; Q->getObjects(s); vassert(s.size() == 1 && s.count(qa) == 1); }
#endif
	vassert(vio_dir.unknownPaths == 0);
	vreach();
#elif OP == 5 || OP == 6
	// the OTHER object "a" is complete on the disk; OP 6: so is the object "b" that is going to be deleted
	PUT_OBJECT(VD_AOBJ, VD_ALOCK, ptok, p0, p1);
#if OP == 6
	PUT_OBJECT(VD_BOBJ, VD_BLOCK, tok, l0, l1);
#else
	vio_uuid_next = 1;                                                            // the new object gets the name "b"
#endif
	OSToken* P = new OSToken("T", 0077);
	vassert(P->isValid());
	ObjSet sp; P->getObjects(sp);
#if OP == 6
	ObjectFile* pb = by_name(sp, "b.object");
	vassert(sp.size() == 2 && pb != NULL && pb->isValid());
#else
	vassert(sp.size() == 1);
#endif
	unsigned base = vio.ops;
	vio.crashAt = base + VIO_AT; vio_arm_crash = true;
#if OP == 6
	(void)P->deleteObject(pb);
#else
	(void)P->createObject();
#endif
	unsigned used = vio.ops - base;
	PRINT_USED(used);
	vassert(used == NOPS);                                                        // the instantiated crash points 0 .. NOPS-1 are all of them
	vassert(vio.crashed);
	// ---- the durable image, byte lengths made concrete ("shapes concrete"): a crash point inside a flush makes every durable length a
	// solver variable (vio_freeze), also where nothing is in flight.  The files the call does not write must have exactly their old length
	// (asserted, then fixed); the length of the file in flight is the obligation's parameter CRASH_DSIZE (one obligation per length,
	// assumed, then fixed) and the lengths instantiated (0 .. CRASH_DSIZE_MAX) are asserted to be all there are.
	vassert(!vio.f[VD_GEN].durableExists);
	DUR_IS(VD_TOKOBJ, TOKOBJ_FULL);
	DUR_IS(VD_TOKLOCK, 0);
	DUR_IS(VD_AOBJ, FULL);
	DUR_IS(VD_ALOCK, 0);
	vassert(vio.f[VD_BLOCK].durableSize == 0); vio.f[VD_BLOCK].durableSize = 0;
#if OP == 5
	vassert(vio.f[VD_BOBJ].durableSize <= CRASH_DSIZE_MAX);
	vassume(vio.f[VD_BOBJ].durableSize == CRASH_DSIZE); vio.f[VD_BOBJ].durableSize = CRASH_DSIZE;
#else
	vassert(!vio.f[VD_BOBJ].durableExists || vio.f[VD_BOBJ].durableSize == FULL); vio.f[VD_BOBJ].durableSize = FULL;
#endif
	// ---- the machine comes up again: a fresh process opens the token directory as the crash left it
	vio_dir_recover();
	OSToken* R = new OSToken("T", 0077);
	vassert(R->isValid());                                                        // the token opens
	vassert(token_flags_are(R, flags));                                           // the token object is intact
	ObjSet s; R->getObjects(s);
	ObjectFile* ra = by_name(s, "a.object"); ObjectFile* rb = by_name(s, "b.object");
	vassert(ra != NULL && ra->isValid() && has_values(ra, ptok, p0, p1));         // every OTHER object is intact
	vassert(s.size() == (rb != NULL ? 2 : 1));
#if OP == 5
	// the object being created is absent, or present and valid in its new state (an object without attributes)
	vassert(rb == NULL || (rb->isValid() && has_no_attributes(rb)));
	{ unsigned char g1[8]; be64(g1, 1);
	// ... and when its file is in the directory, the file is COMPLETE (what a finished createObject leaves: the generation number), not an empty file
	vassert_id(!vio.f[VD_BOBJ].exists || file_is(VD_BOBJ, g1, 8), 16004); }
	vassert((rb != NULL) == vio.f[VD_BOBJ].exists);
#else
	// the object being deleted is gone or intact
	vassert(rb == NULL || (rb->isValid() && has_values(rb, tok, l0, l1)));
	vassert((rb != NULL) == vio.f[VD_BOBJ].exists);
#endif
	vassert(vio_dir.unknownPaths == 0);
	vreach();
#elif OP == 7
	OSToken* P = new OSToken("T", 0077);
	vassert(P->isValid());
	OSObject* o = P->createObject();
	vassert(o != NULL && o->setAttribute(A_TOKEN, OSAttribute(tok)) && o->setAttribute(A_LABEL, OSAttribute(bs2(l0, l1))));
	// format pin: the bytes on the disk are the documented layout (this is also the layout the other obligations pre-build)
	{ unsigned char ref[FULL]; ref_object(ref, 3, tok, l0, l1); vassert(file_is(VD_AOBJ, ref, FULL)); }
	vassert(vio.f[VD_ALOCK].exists && vio.f[VD_TOKOBJ].size == TOKOBJ_FULL);
	for (int i = 0; i < NSTREAMS; i++) vassert(!vio.s[i].used);                    // nothing is left open / unflushed
	// restart: a fresh instance on the same directory
	OSToken* R = new OSToken("T", 0077);
	ObjSet s; R->getObjects(s);
	vassert(R->isValid() && s.size() == 1);
	OSObject* r = *s.begin();
	vassert(r->isValid() && has_values(r, tok, l0, l1));
	vassert(token_flags_are(R, flags));
	vassert(vio_dir.unknownPaths == 0);
	vreach();
#elif OP == 8
	PUT_OBJECT(VD_AOBJ, VD_ALOCK, ptok, p0, p1);
	PUT_OBJECT(VD_BOBJ, VD_BLOCK, tok, l0, l1);
	OSToken* P = new OSToken("T", 0077);
	ObjSet sp; P->getObjects(sp);
	ObjectFile* pb = by_name(sp, "b.object");
	vassert(P->isValid() && sp.size() == 2 && pb != NULL && pb->isValid());
	vassert(P->deleteObject(pb));
	OSToken* R = new OSToken("T", 0077);
	ObjSet s; R->getObjects(s);
	vassert(R->isValid() && s.size() == 1);                                       // destroyed objects do not reappear after a restart
	ObjectFile* ra = by_name(s, "a.object");
	vassert(ra != NULL && ra->isValid() && has_values(ra, ptok, p0, p1));         // ... and the other object is still there
	vassert(!vio.f[VD_BOBJ].exists && !vio.f[VD_BLOCK].exists);
	vassert(vio_dir.unknownPaths == 0);
	vreach();
#elif OP == 9 || OP == 10
	PUT_OBJECT(VD_AOBJ, VD_ALOCK, ptok, p0, p1);
#if OP == 10
	PUT_OBJECT(VD_BOBJ, VD_BLOCK, tok, l0, l1);
#else
	vio_uuid_next = 1;
#endif
	OSToken* P = new OSToken("T", 0077);
	ObjSet sp; P->getObjects(sp);
	vassert(P->isValid());
	unsigned base = vio.ops;
	vio.failAt = base + VIO_AT; vio_arm_fail = true;
#if OP == 9
	OSObject* o = P->createObject();
	bool ok = o != NULL;
#else
	ObjectFile* pb = by_name(sp, "b.object");
	vassert(sp.size() == 2 && pb != NULL);
	bool ok = P->deleteObject(pb);
#endif
	unsigned used = vio.ops - base;
	PRINT_USED(used);
	vio_arm_fail = false;
	vassert(vio.failures == 1);
	vassert(used <= NOPS + (ok ? 0 : 4));                                         // the instantiated fault points 0 .. NOPS-1 are all of them (a failing createObject removes what it created: up to 4 clean-up operations after the fault)
	OSToken* R = new OSToken("T", 0077);                                          // what a restart finds
	ObjSet s; R->getObjects(s);
	ObjectFile* ra = by_name(s, "a.object"); ObjectFile* rb = by_name(s, "b.object");
	vassert(R->isValid() && ra != NULL && ra->isValid() && has_values(ra, ptok, p0, p1));   // the other object is untouched by the failing call
#if OP == 9
	if (ok)
	{	// C05: non-NULL only for an object that is on the disk and that a restart finds
		vassert(vio.f[VD_BOBJ].exists);
		vassert(rb != NULL && rb->isValid());
		vassert(o->isValid());
	}
#if STRICT
	// (beyond C05's clause; obligations store_strict_*, in no tier) a createObject() that FAILED leaves no object behind for a restart to find
	if (!ok) vassert(rb == NULL);
#endif
#else
	if (ok)
	{	// C05: true only when the object is gone from the disk
		vassert(!vio.f[VD_BOBJ].exists);
		vassert(rb == NULL && s.size() == 1);
	}
#if STRICT
	// (beyond C05's clause; obligations store_strict_*, in no tier) a deleteObject() that FAILED and left the object file in place has not killed the
	// object for the calling process
	if (!ok && vio.f[VD_BOBJ].exists) vassert(pb->isValid() && has_values(pb, tok, l0, l1));
#endif
#endif
	vassert(vio_dir.unknownPaths == 0);
	vreach();
#endif
}
