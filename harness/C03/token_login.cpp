// C03 (B) - login state machine of ONE token: real Token::loginSO / loginUser / reAuthenticate / logout over the real
// SecureDataManager flag logic.  SecureDataManager::login()/reAuthenticate() are cut to their control-flow contract
// (login() logs out first, then accepts the PIN or not); the byte-level PIN check is C04.
// Pre-state: arbitrary flags with not(so and user).  -DOP selects the call.
#include "venv.h"
#include "caps.h"
#define MUTEX_MODEL_IMPL
#include "mutex_model.h"
#define private public
#define protected public
#include "Token.h"
#include "SecureDataManager.h"
#undef private
#undef protected
#include "store_token_model.h"
#include <stdarg.h>
void softHSMLog(const int, const char*, const char*, const int, const char*, ...) {}
VRAW(Token, tok, ) VRAW(SecureDataManager, sdm, )
static ModelStoreToken store;
static unsigned long pinChecks; static bool accept;
extern "C" {
bool stub_sdm_login(SecureDataManager* d, const ByteString& pin, const ByteString& blob) { pinChecks++; d->logout(); return accept; }
bool stub_sdm_reauth(SecureDataManager* d, const ByteString& pin, const ByteString& blob) { pinChecks++; return accept; }
}
extern "C" void harness(void)
{
	SecureDataManager& d = vraw_sdm; Token& t = vraw_tok;
	d.soLoggedIn = nondet_bool(); d.userLoggedIn = nondet_bool(); vassume(!(d.soLoggedIn && d.userLoggedIn));
	d.dataMgrMutex = MutexFactory::i()->getMutex(); d.mask = 0;
	size_t a = nondet_uchar(), b = nondet_uchar(); vassume(a <= BS_CAP && b <= BS_CAP); d.soEncryptedKey.resize(a); d.userEncryptedKey.resize(b);
	store.havoc(2);
	t.valid = true; t.token = &store; t.sdm = nondet_bool() ? (SecureDataManager*)0 : &d; t.tokenMutex = MutexFactory::i()->getMutex();
	accept = nondet_bool();
	bool so0 = d.soLoggedIn, us0 = d.userLoggedIn; bool userPinSet = d.userEncryptedKey.size() != 0; CK_ULONG flags0 = store.flags;
	ByteString pin; size_t pl = nondet_uchar(); vassume(pl <= BS_CAP); pin.resize(pl);
#if OP == 0
	CK_RV rv = t.loginSO(pin);
	if (rv == CKR_OK) { vassert(t.sdm && !so0 && !us0 && accept && pinChecks == 1); vassert(d.soLoggedIn && !d.userLoggedIn); vreach(); }
	else { vassert(d.soLoggedIn == so0 && d.userLoggedIn == us0); if (t.sdm && (so0 || us0)) { vassert(pinChecks == 0); vassert(rv == (us0 ? CKR_USER_ANOTHER_ALREADY_LOGGED_IN : CKR_USER_ALREADY_LOGGED_IN)); vreach(); } }
	if (t.sdm && !so0 && !us0 && !store.failReads) { vassert(rv == (accept ? CKR_OK : CKR_PIN_INCORRECT)); vreach(); }
#elif OP == 1
	CK_RV rv = t.loginUser(pin);
	if (rv == CKR_OK) { vassert(t.sdm && !so0 && !us0 && accept && pinChecks == 1 && userPinSet); vassert(d.userLoggedIn && !d.soLoggedIn); vreach(); }
	else { vassert(d.soLoggedIn == so0 && d.userLoggedIn == us0); if (t.sdm && (so0 || us0)) { vassert(pinChecks == 0); vassert(rv == (so0 ? CKR_USER_ANOTHER_ALREADY_LOGGED_IN : CKR_USER_ALREADY_LOGGED_IN)); vreach(); } }
	if (t.sdm && !so0 && !us0 && userPinSet && !store.failReads) { vassert(rv == (accept ? CKR_OK : CKR_PIN_INCORRECT)); vreach(); }
	if (t.sdm && !so0 && !us0 && !userPinSet) vassert(rv == CKR_USER_PIN_NOT_INITIALIZED && pinChecks == 0);
#elif OP == 2
	CK_RV rv = t.reAuthenticate(pin);
	vassert(d.soLoggedIn == so0 && d.userLoggedIn == us0);                 // re-authentication never changes who is logged in
	if (rv == CKR_OK) { vassert(t.sdm && (so0 || us0) && accept && pinChecks == 1); vreach(); }
	if (t.sdm && !so0 && !us0 && !store.failReads) vassert(rv == CKR_OPERATION_NOT_INITIALIZED && pinChecks == 0);
	if (t.sdm && (so0 || us0) && !store.failReads) { vassert(rv == (accept ? CKR_OK : CKR_PIN_INCORRECT)); vreach(); }
#elif OP == 3
	t.logout();
	if (t.sdm) { vassert(!d.soLoggedIn && !d.userLoggedIn); vreach(); }
	vassert(pinChecks == 0);
#endif
	vassert(!(d.soLoggedIn && d.userLoggedIn));
	vassert(vmutex_depth(t.tokenMutex) == 0 && vmutex_depth(d.dataMgrMutex) == 0);
	// PIN-count flags of the persistent token object are only ever changed in the matching low-count bit
	vassert(((store.flags ^ flags0) & ~(CK_ULONG)(CKF_SO_PIN_COUNT_LOW | CKF_USER_PIN_COUNT_LOW)) == 0);
	vreach();
}
