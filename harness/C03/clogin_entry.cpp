// C03 (C) / C07 always-authenticate gate - SoftHSM::C_Login wrapper (P-ENTRY): which Token call is made for which user type,
// the RO-session exclusion for the SO, and the context-specific re-authentication flag.
// Token::loginSO/loginUser/reAuthenticate are sinks here (their state machine is obligation tok_*), SessionManager::haveROSession
// is a symbolic boolean (its table semantics is obligation sess_*).
#include "entry_env.h"
struct L { unsigned long so, user, reauth, haveRO; CK_RV rv; bool ro; size_t pinLen; unsigned char pin0, pinLast; };
static L l;
extern "C" {
CK_RV sink_loginSO(Token*, ByteString& pin) { l.so++; l.pinLen = pin.size(); l.pin0 = pin.size() ? pin[0] : 0; l.pinLast = pin.size() ? pin[pin.size() - 1] : 0; return l.rv; }
CK_RV sink_loginUser(Token*, ByteString& pin) { l.user++; l.pinLen = pin.size(); l.pin0 = pin.size() ? pin[0] : 0; l.pinLast = pin.size() ? pin[pin.size() - 1] : 0; return l.rv; }
CK_RV sink_reAuth(Token*, ByteString& pin) { l.reauth++; l.pinLen = pin.size(); l.pin0 = pin.size() ? pin[0] : 0; l.pinLast = pin.size() ? pin[pin.size() - 1] : 0; return l.rv; }
bool sink_haveRO(SessionManager*, CK_SLOT_ID slot) { l.haveRO++; vassert(slot == env.slotID); return l.ro; }
}
extern "C" void harness(void)
{
	env_init(0, 0);
	env.hsm->sessionManager = (SessionManager*)env.hsm;    // only its (cut) haveROSession is used
	Session* s = env.session;
	l.rv = nondet_ulong(); l.ro = nondet_bool();
	static CK_UTF8CHAR pin[BS_CAP]; 
#ifdef PINLEN
	CK_ULONG pinLen = PINLEN;      // long PINs: the length is concrete per obligation, the bytes symbolic
#else
	CK_ULONG pinLen = nondet_uchar(); vassume(pinLen <= BS_CAP);
#endif
	 for (int i = 0; i < BS_CAP; i++) pin[i] = nondet_uchar();
	bool nullPin = nondet_bool(); CK_USER_TYPE ut = nondet_ulong();
	CK_SESSION_HANDLE hS = nondet_bool() ? env.hSession : nondet_ulong();
	bool reauth0 = s->reAuthentication; int op0 = s->operation;
	CK_RV rv = env.hsm->C_Login(hS, ut, nullPin ? NULL : pin, pinLen);
	unsigned long calls = l.so + l.user + l.reauth;
	vassert(calls <= 1);
	if (hS != env.hSession || nullPin) { vassert(rv != CKR_OK && calls == 0); vassert(s->reAuthentication == reauth0); }
	if (calls) { vassert(l.pinLen == pinLen && (pinLen == 0 || (l.pin0 == pin[0] && l.pinLast == pin[pinLen - 1]))); vassert(rv == l.rv); vreach(); }      // the caller's PIN, unmodified, decides
	if (rv == CKR_OK) { vassert(calls == 1); vreach(); }                                                                     // never OK without a Token-level PIN check
	if (l.so) { vassert(ut == CKU_SO && !l.ro && l.haveRO == 1); vreach(); }                                                 // SO login is not even attempted while an RO session exists
	if (ut == CKU_SO && hS == env.hSession && !nullPin && l.ro) { vassert(rv == CKR_SESSION_READ_ONLY_EXISTS && calls == 0); vreach(); }
	if (l.user) vassert(ut == CKU_USER);
	if (l.reauth) { vassert(ut == CKU_CONTEXT_SPECIFIC && reauth0); vreach(); }
	// always-authenticate gate: the flag is cleared only by a context-specific login that the token accepted
	if (reauth0 && !s->reAuthentication) { vassert(ut == CKU_CONTEXT_SPECIFIC && l.reauth == 1 && l.rv == CKR_OK && rv == CKR_OK); vreach(); }
	if (!reauth0) vassert(!s->reAuthentication);
	if (ut == CKU_CONTEXT_SPECIFIC && hS == env.hSession && !nullPin && !reauth0) vassert(rv == CKR_OPERATION_NOT_INITIALIZED && calls == 0);
	vassert(s->operation == op0);
	vreach();
}
