// C03 - session / login state machine: one inductive step of the real SoftHSM session calls over the real
// SessionManager, Session, Token, SecureDataManager (login control flow), HandleManager.
// Pre-state: arbitrary session table (<= NSESS sessions on two tokens) + arbitrary login flags satisfying the
// invariant INV; one real call with symbolic arguments (-DOP); INV re-established, per-call contract, and
// "a failing call changes nothing" against a ghost snapshot.
// The PIN check's cryptography is nondeterministic (the model cipher decides whether the magic matches);
// SecureDataManager::login()'s own control flow (logout first, flag assignment) is the real code.
#include "venv.h"
#include "caps.h"
#define MUTEX_MODEL_IMPL
#include "mutex_model.h"
#define private public
#define protected public
#include "SoftHSM.h"
#include "SessionManager.h"
#include "Session.h"
#include "Slot.h"
#include "Token.h"
#include "SecureDataManager.h"
#include "HandleManager.h"
#include "SessionObjectStore.h"
#include "RFC4880.h"
#include "AESKey.h"
#include <new>
#undef private
#undef protected
#define CRYPTO_MODEL_IMPL
#include "crypto_model.h"
#include "store_token_model.h"
#include <stdarg.h>
void softHSMLog(const int, const char*, const char*, const int, const char*, ...) {}

VRAW(SoftHSM, hsm, ) VRAW(Slot, slot, [2]) VRAW(Token, tok, [2]) VRAW(SecureDataManager, sdm, [2]) VRAW(SessionObjectStore, sos, ) VRAW(Session, sess, [NSESS]) VRAW(HandleManager, hm, )
static ModelStoreToken store[2];
static Session proto_session;   // built by the real default constructor
static SessionManager sm;
static const CK_SLOT_ID SLOT_ID[2] = { 11, 22 };

// ---- cuts (ir2c --stub): slot lookup, session-object store notifications, key re-masking, token initialisation
struct Notes { unsigned long sosSessionClosed, sosAllClosed, sosLoggedOut, initToken, hmSessionClosed, hmAllClosed, hmLoggedOut, hmAdd; CK_ULONG lastSosArg, lastHmArg, lastAddSlot; void* lastAddSession; };
static CK_SESSION_HANDLE pub[NSESS];      // public (HandleManager) handle of session-table entry i, 0 if none; deliberately different from the internal index i+1
enum { NEW_HANDLE = 5000 };
static Notes notes;
static void* sess_tab(int i);
extern "C" {
Slot* stub_getSlot(SlotManager*, CK_SLOT_ID id) { if (id == SLOT_ID[0]) return &vraw_slot[0]; if (id == SLOT_ID[1]) return &vraw_slot[1]; return NULL; }
void stub_sos_sessionClosed(SessionObjectStore*, CK_SESSION_HANDLE h) { notes.sosSessionClosed++; notes.lastSosArg = h; }
void stub_sos_allSessionsClosed(SessionObjectStore*, CK_SLOT_ID s) { notes.sosAllClosed++; notes.lastSosArg = s; }
void stub_sos_tokenLoggedOut(SessionObjectStore*, CK_SLOT_ID s) { notes.sosLoggedOut++; notes.lastSosArg = s; }
void stub_remask(SecureDataManager*, ByteString& key) {}
// SecureDataManager::login / reAuthenticate are cut to their control-flow contract (the byte-level PIN check is C04's subject):
// login() first logs out (as the real code does: `this->logout()` is its first statement), then the PIN is accepted or not.
bool stub_sdm_login(SecureDataManager* d, const ByteString& pin, const ByteString& blob) { crypto_log.calls++; d->logout(); return nondet_bool(); }
bool stub_sdm_reauth(SecureDataManager* d, const ByteString& pin, const ByteString& blob) { crypto_log.calls++; return nondet_bool(); }
// HandleManager is cut in this harness (its table semantics are C11's obligations); the wrappers' use of it is observed
void* stub_hm_getSession(HandleManager*, CK_SESSION_HANDLE h) { if (h == NEW_HANDLE && notes.hmAdd) return notes.lastAddSession; for (int i = 0; i < NSESS; i++) if (pub[i] && pub[i] == h) return sess_tab(i); return NULL; }
CK_SESSION_HANDLE stub_hm_addSession(HandleManager*, CK_SLOT_ID slot, void* s) { notes.hmAdd++; notes.lastAddSlot = slot; notes.lastAddSession = s; return NEW_HANDLE; }
void stub_hm_sessionClosed(HandleManager*, CK_SESSION_HANDLE h) { notes.hmSessionClosed++; notes.lastHmArg = h; }
void stub_hm_allSessionsClosed(HandleManager*, CK_SLOT_ID s, bool locked) { notes.hmAllClosed++; notes.lastHmArg = s; }
void stub_hm_tokenLoggedOut(HandleManager*, CK_SLOT_ID s) { notes.hmLoggedOut++; notes.lastHmArg = s; }
bool stub_pbe(const ByteString& pw, ByteString& salt, AESKey** key) { if (nondet_bool()) return false; *key = new AESKey(256); return true; }
CK_RV stub_initToken(Slot*, ByteString& pin, CK_UTF8CHAR_PTR label) { notes.initToken++; return nondet_bool() ? CKR_OK : CKR_PIN_INCORRECT; }
}

static void* sess_tab(int i) { return i < (int)sm.sessions.n_ ? (void*)sm.sessions.s_[i] : (void*)0; }
struct Snap { Session* s[NSESS]; size_t n; bool so[2], user[2]; bool reauth[NSESS]; bool rw[NSESS]; };
static Snap snap()
{
	Snap p; p.n = sm.sessions.n_;
	for (int i = 0; i < NSESS; i++) { p.s[i] = i < (int)p.n ? sm.sessions.s_[i] : 0; p.reauth[i] = vraw_sess[i].reAuthentication; p.rw[i] = vraw_sess[i].isReadWrite; }
	for (int t = 0; t < 2; t++) { p.so[t] = vraw_sdm[t].soLoggedIn; p.user[t] = vraw_sdm[t].userLoggedIn; }
	return p;
}
static bool same(const Snap& a, const Snap& b)
{
	if (a.n != b.n) return false;
	for (int i = 0; i < NSESS; i++) if (a.s[i] != b.s[i] || a.reauth[i] != b.reauth[i] || a.rw[i] != b.rw[i]) return false;
	for (int t = 0; t < 2; t++) if (a.so[t] != b.so[t] || a.user[t] != b.user[t]) return false;
	return true;
}
static int tokOf(Session* s) { return s->slot == &vraw_slot[0] ? 0 : 1; }
static bool haveSess(int t) { for (size_t i = 0; i < NSESS; i++) if (i < sm.sessions.n_ && sm.sessions.s_[i] && tokOf(sm.sessions.s_[i]) == t) return true; return false; }
static bool haveRO(int t) { for (size_t i = 0; i < NSESS; i++) if (i < sm.sessions.n_ && sm.sessions.s_[i] && tokOf(sm.sessions.s_[i]) == t && !sm.sessions.s_[i]->isReadWrite) return true; return false; }
// INV: the PKCS#11 login rules as a state invariant
static bool inv()
{
	for (int t = 0; t < 2; t++)
	{
		bool so = vraw_sdm[t].soLoggedIn, us = vraw_sdm[t].userLoggedIn;
		if (so && us) return false;
		if (so && haveRO(t)) return false;
		if ((so || us) && !haveSess(t)) return false;      // nobody stays logged in on a token without sessions
	}
	for (size_t i = 0; i < NSESS; i++) if (i < sm.sessions.n_ && sm.sessions.s_[i])
	{
		Session* s = sm.sessions.s_[i];
		if (s->hSession != i + 1) return false;
		if (s->token != &vraw_tok[tokOf(s)]) return false;
	}
	return true;
}
static CK_STATE expectedState(int t, bool rw)
{
	if (vraw_sdm[t].soLoggedIn) return CKS_RW_SO_FUNCTIONS;
	if (vraw_sdm[t].userLoggedIn) return rw ? CKS_RW_USER_FUNCTIONS : CKS_RO_USER_FUNCTIONS;
	return rw ? CKS_RW_PUBLIC_SESSION : CKS_RO_PUBLIC_SESSION;
}

extern "C" void harness(void)
{
	SoftHSM* hsm = &vraw_hsm;
	hsm->isInitialised = true; hsm->sessionManager = &sm; hsm->handleManager = &vraw_hm; hsm->slotManager = (SlotManager*)&vraw_hsm; hsm->sessionObjectStore = &vraw_sos; hsm->objectStore = 0;
	for (int t = 0; t < 2; t++)
	{
		SecureDataManager& d = vraw_sdm[t];
		d.soLoggedIn = nondet_bool(); d.userLoggedIn = nondet_bool(); d.aes = &model_sym; d.rng = &model_rng; d.dataMgrMutex = MutexFactory::i()->getMutex();
		d.magic.resize(3); d.magic[0] = 0x52; d.magic[1] = 0x4A; d.magic[2] = 0x52; d.mask = 0;
		size_t a = nondet_uchar(), b = nondet_uchar(); vassume(a <= BS_CAP && b <= BS_CAP); d.soEncryptedKey.resize(a); d.userEncryptedKey.resize(b);
		store[t].havoc(2);
		vraw_tok[t].valid = true; vraw_tok[t].token = &store[t]; vraw_tok[t].sdm = &d; vraw_tok[t].tokenMutex = MutexFactory::i()->getMutex();
		vraw_slot[t].objectStore = 0; vraw_slot[t].token = &vraw_tok[t]; vraw_slot[t].slotID = SLOT_ID[t];
	}
	model_sym.blockSize = 16;
	// arbitrary session table
	sm.sessions.n_ = nondet_uchar(); vassume(sm.sessions.n_ <= NSESS);
	for (int i = 0; i < NSESS; i++)
	{
		pub[i] = 0; sm.sessions.s_[i] = 0;
		if (i < (int)sm.sessions.n_ && nondet_bool())
		{
			Session* s = &vraw_sess[i]; *(void**)s = *(void**)&proto_session; int t = nondet_bool() ? 1 : 0;   // vptr of a real Session; fields written below
			s->slot = &vraw_slot[t]; s->token = &vraw_tok[t]; s->isReadWrite = nondet_bool(); s->hSession = i + 1; s->operation = SESSION_OP_NONE;
			s->findOp = 0; s->digestOp = 0; s->macOp = 0; s->asymmetricCryptoOp = 0; s->symmetricCryptoOp = 0; s->param = 0; s->paramLen = 0;
			s->publicKey = 0; s->privateKey = 0; s->symmetricKey = 0; s->reAuthentication = nondet_bool(); s->pApplication = 0; s->notify = 0; s->hashAlgo = HashAlgo::Unknown; s->mechanism = AsymMech::Unknown; s->allowMultiPartOp = false; s->allowSinglePartOp = false;
			sm.sessions.s_[i] = s;
			pub[i] = 1000 + i;
		}
	}
	vassume(inv());
	Snap pre = snap();
	bool preSess[2] = { haveSess(0), haveSess(1) }, preRO[2] = { haveRO(0), haveRO(1) };

#if OP == 0   // ------------------------------------------------ C_OpenSession
	CK_SLOT_ID sid = nondet_bool() ? SLOT_ID[nondet_bool() ? 1 : 0] : nondet_ulong(); int t = sid == SLOT_ID[1] ? 1 : 0;
	CK_FLAGS flags = nondet_ulong(); CK_SESSION_HANDLE h = 0; bool nullPh = nondet_bool();
	size_t freeSlots = 0; for (int i = 0; i < NSESS; i++) if (i >= (int)pre.n || !pre.s[i]) freeSlots++;
	vassume(freeSlots > 0);                                    // bound: at most NSESS simultaneously open sessions
	CK_RV rv = hsm->C_OpenSession(sid, flags, NULL, NULL, nullPh ? NULL : &h);
	Snap post = snap();
	if (rv == CKR_OK)
	{
		vassert((sid == SLOT_ID[0] || sid == SLOT_ID[1]) && (flags & CKF_SERIAL_SESSION) && !nullPh);
		bool rw = (flags & CKF_RW_SESSION) != 0;
		vassert(rw || !pre.so[t]);                             // no RO session while the SO is logged in
		vassert(h == NEW_HANDLE && notes.hmAdd == 1 && notes.lastAddSlot == sid);   // a public handle is issued for exactly this session and slot
		Session* ns = (Session*)notes.lastAddSession;
		vassert(ns != NULL && ns->slot == &vraw_slot[t] && ns->isReadWrite == rw && ns->token == &vraw_tok[t]);
		vassert(ns->hSession >= 1 && ns->hSession <= NSESS && sm.sessions.s_[ns->hSession - 1] == ns);
		vassert(ns->hSession - 1 >= pre.n || pre.s[ns->hSession - 1] == 0);   // took a free entry: no existing session displaced
		for (int i = 0; i < NSESS; i++) if (pre.s[i]) vassert(post.s[i] == pre.s[i]);
		for (int k = 0; k < 2; k++) vassert(post.so[k] == pre.so[k] && post.user[k] == pre.user[k]);   // opening a session never changes a login state
		CK_SESSION_INFO info; vassert(hsm->C_GetSessionInfo(h, &info) == CKR_OK && info.state == expectedState(t, rw) && info.slotID == SLOT_ID[t]);
		vreach();
	}
	else { vassert(same(pre, post)); vassert(notes.hmAdd == 0); if (sid == SLOT_ID[t] && (flags & CKF_SERIAL_SESSION) && !(flags & CKF_RW_SESSION) && pre.so[t] && !nullPh) { vassert(rv == CKR_SESSION_READ_WRITE_SO_EXISTS); vreach(); } }
#elif OP == 1  // ------------------------------------------------ C_CloseSession
	// the call addresses session-table entry TARGET (on token TARGET_TOK) or an unknown handle; the other entries are covered by the
	// obligations with the other TARGET / TARGET_TOK values (the runner instantiates all NSESS x 2 combinations)
	int i0 = TARGET; CK_SESSION_HANDLE h = nondet_bool() ? pub[i0] : nondet_ulong();
	for (int i = 0; i < NSESS; i++) if (i != i0) vassume(h != pub[i] || pub[i] == 0);
	bool known = pub[i0] && h == pub[i0]; int idx = i0;
	if (known) vassume(tokOf(pre.s[idx]) == TARGET_TOK);
	int t = TARGET_TOK;
	bool others = false; if (known) for (int i = 0; i < NSESS; i++) if (i != idx && pre.s[i] && tokOf(pre.s[i]) == t) others = true;
	CK_RV rv = hsm->C_CloseSession(h);
	Snap post = snap();
	if (!known) { vassert(rv != CKR_OK); vassert(same(pre, post)); vassert(!notes.hmSessionClosed && !notes.sosSessionClosed); }
	else
	{
		vassert(rv == CKR_OK);
		for (int i = 0; i < NSESS; i++) vassert(post.s[i] == (i == idx ? (Session*)0 : pre.s[i]));       // exactly that session closes
		vassert(notes.hmSessionClosed == 1 && notes.lastHmArg == h);                                     // the handle table is told, with the public handle
		vassert(notes.sosSessionClosed == 1 && notes.lastSosArg == h);                                   // its session objects are purged under the PUBLIC handle
		if (!others) { vassert(!post.so[t] && !post.user[t]); vreach(); }                                // last session of the token: back to public
		else vassert(post.so[t] == pre.so[t] && post.user[t] == pre.user[t]);
		vassert(post.so[1 - t] == pre.so[1 - t] && post.user[1 - t] == pre.user[1 - t]);                 // the other token is untouched
		vreach();
	}
#elif OP == 2  // ------------------------------------------------ C_CloseAllSessions
	CK_SLOT_ID sid = nondet_bool() ? SLOT_ID[nondet_bool() ? 1 : 0] : nondet_ulong();
	CK_RV rv = hsm->C_CloseAllSessions(sid);
	Snap post = snap();
	if (sid != SLOT_ID[0] && sid != SLOT_ID[1]) { vassert(rv != CKR_OK); vassert(same(pre, post)); }
	else
	{
		int tt = sid == SLOT_ID[0] ? 0 : 1;
		vassert(rv == CKR_OK);
		for (int i = 0; i < NSESS; i++) vassert(post.s[i] == ((pre.s[i] && tokOf(pre.s[i]) == tt) ? (Session*)0 : pre.s[i]));
		vassert(!post.so[tt] && !post.user[tt]);
		vassert(post.so[1 - tt] == pre.so[1 - tt] && post.user[1 - tt] == pre.user[1 - tt]);
		vassert(notes.sosAllClosed == 1 && notes.lastSosArg == sid);
		vassert(notes.hmAllClosed == 1 && notes.lastHmArg == sid);
		vreach();
	}
#elif OP == 3  // ------------------------------------------------ C_Login
	// the call addresses session-table entry TARGET (on token TARGET_TOK) or an unknown handle; the other entries are covered by the
	// obligations with the other TARGET / TARGET_TOK values (the runner instantiates all NSESS x 2 combinations)
	int i0 = TARGET; CK_SESSION_HANDLE h = nondet_bool() ? pub[i0] : nondet_ulong();
	for (int i = 0; i < NSESS; i++) if (i != i0) vassume(h != pub[i] || pub[i] == 0);
	bool known = pub[i0] && h == pub[i0]; int idx = i0;
	if (known) vassume(tokOf(pre.s[idx]) == TARGET_TOK);
	int t = TARGET_TOK;
	CK_USER_TYPE ut = nondet_ulong(); static CK_UTF8CHAR pin[BS_CAP]; CK_ULONG pinLen = nondet_uchar(); vassume(pinLen <= BS_CAP);
	bool nullPin = nondet_bool();
	unsigned long c0 = crypto_log.calls;
	CK_RV rv = hsm->C_Login(h, ut, nullPin ? NULL : pin, pinLen);
	Snap post = snap();
	bool pinChecked = crypto_log.calls > c0;
	if (!known || nullPin) { vassert(rv != CKR_OK); vassert(same(pre, post)); }
	else if (rv == CKR_OK)
	{
		vassert(pinChecked);                                                  // never without a PIN check
		if (ut == CKU_SO) { vassert(!pre.so[t] && !pre.user[t] && !preRO[t]); vassert(post.so[t] && !post.user[t]); vreach(); }
		else if (ut == CKU_USER) { vassert(!pre.so[t] && !pre.user[t]); vassert(post.user[t] && !post.so[t]); vreach(); }
		else { vassert(ut == CKU_CONTEXT_SPECIFIC && pre.reauth[idx] && (pre.so[t] || pre.user[t])); vassert(post.so[t] == pre.so[t] && post.user[t] == pre.user[t] && !post.reauth[idx]); vreach(); }
		vassert(post.so[1 - t] == pre.so[1 - t] && post.user[1 - t] == pre.user[1 - t]);
		for (int i = 0; i < NSESS; i++) vassert(post.s[i] == pre.s[i]);
	}
	else
	{
		vassert(same(pre, post));                                             // a failed login changes nothing (in particular it logs nobody out)
		if (ut == CKU_SO && preRO[t]) vassert(rv == CKR_SESSION_READ_ONLY_EXISTS);
		vreach();
	}
#elif OP == 4  // ------------------------------------------------ C_Logout
	// the call addresses session-table entry TARGET (on token TARGET_TOK) or an unknown handle; the other entries are covered by the
	// obligations with the other TARGET / TARGET_TOK values (the runner instantiates all NSESS x 2 combinations)
	int i0 = TARGET; CK_SESSION_HANDLE h = nondet_bool() ? pub[i0] : nondet_ulong();
	for (int i = 0; i < NSESS; i++) if (i != i0) vassume(h != pub[i] || pub[i] == 0);
	bool known = pub[i0] && h == pub[i0]; int idx = i0;
	if (known) vassume(tokOf(pre.s[idx]) == TARGET_TOK);
	int t = TARGET_TOK;
	CK_RV rv = hsm->C_Logout(h);
	Snap post = snap();
	if (!known) { vassert(rv != CKR_OK); vassert(same(pre, post)); }
	else
	{
		vassert(rv == CKR_OK && !post.so[t] && !post.user[t]);
		vassert(post.so[1 - t] == pre.so[1 - t] && post.user[1 - t] == pre.user[1 - t]);
		for (int i = 0; i < NSESS; i++) vassert(post.s[i] == pre.s[i]);
		vassert(notes.sosLoggedOut == 1 && notes.lastSosArg == SLOT_ID[t]);
		vassert(notes.hmLoggedOut == 1 && notes.lastHmArg == SLOT_ID[t]);                                // private-object handles of exactly this slot are purged
		vreach();
	}
#elif OP == 5  // ------------------------------------------------ all sessions of a token report the same login class
	int a = TARGET, b = TARGET2;
	vassume(pre.s[a] && pre.s[b] && tokOf(pre.s[a]) == tokOf(pre.s[b]));
	CK_SESSION_INFO ia, ib;
	vassert(hsm->C_GetSessionInfo(pub[a], &ia) == CKR_OK && hsm->C_GetSessionInfo(pub[b], &ib) == CKR_OK);
	int t = tokOf(pre.s[a]);
	vassert(ia.state == expectedState(t, pre.rw[a]) && ib.state == expectedState(t, pre.rw[b]));
	bool aUser = ia.state == CKS_RO_USER_FUNCTIONS || ia.state == CKS_RW_USER_FUNCTIONS, bUser = ib.state == CKS_RO_USER_FUNCTIONS || ib.state == CKS_RW_USER_FUNCTIONS;
	vassert(aUser == bUser && (ia.state == CKS_RW_SO_FUNCTIONS) == (ib.state == CKS_RW_SO_FUNCTIONS));
	vassert(((ia.flags & CKF_RW_SESSION) != 0) == pre.rw[a] && ia.slotID == SLOT_ID[t]);
	Snap post = snap(); vassert(same(pre, post));
	vreach();
#elif OP == 6  // ------------------------------------------------ C_InitToken is refused while a session on the slot exists
	CK_SLOT_ID sid = nondet_bool() ? SLOT_ID[nondet_bool() ? 1 : 0] : nondet_ulong();
	static CK_UTF8CHAR pin[BS_CAP]; static CK_UTF8CHAR label[32]; CK_ULONG pinLen = nondet_uchar(); vassume(pinLen <= BS_CAP);
	bool nullPin_ = !nondet_bool(), nullLabel_ = !nondet_bool();      // (one nondet input per statement: argument evaluation order is unspecified and differs between clang and g++)
	CK_RV rv = hsm->C_InitToken(sid, nullPin_ ? NULL : pin, pinLen, nullLabel_ ? NULL : label);
	Snap post = snap();
	if ((sid == SLOT_ID[0] && preSess[0]) || (sid == SLOT_ID[1] && preSess[1])) { vassert(rv == CKR_SESSION_EXISTS); vassert(notes.initToken == 0); vreach(); }
	if (notes.initToken) { vassert(sid == SLOT_ID[0] || sid == SLOT_ID[1]); vassert(!preSess[sid == SLOT_ID[0] ? 0 : 1]); vreach(); }
	vassert(same(pre, post));                                  // C_InitToken itself never touches sessions or login flags (Slot::initToken is cut here, see C14)
#endif
	vassert(inv());
	vreach();
}
