// capacities for the C03 session/login harness (force-included in every TU)
#ifndef C03_CAPS_H
#define C03_CAPS_H
#include "vstl_common.h"
class Session;
#ifndef BS_CAP
#define BS_CAP 4
#endif
#ifndef NSESS
#define NSESS 4
#endif
template<> struct vstl_vec_cap<unsigned char> { enum { value = BS_CAP }; };
template<> struct vstl_vec_cap<Session*> { enum { value = NSESS }; };
template<> struct vstl_vec_cap<unsigned long> { enum { value = 2 }; };
template<> struct vstl_set_cap<unsigned long> { enum { value = 2 }; };
#endif
