// C01 (+ C08 object-level gates) - entry points that take an object handle.
// One real call (selected by -DOP) from an arbitrary initialised state; the object's attribute table,
// the session (RO/RW), the login state and the handles are symbolic.  Behind the guards everything is a
// sink: P11Object::loadTemplate/saveTemplate (p11_sink_model.h), Token::decrypt/encrypt, object creation.
//   OP 0 C_DestroyObject  1 C_GetObjectSize  2 C_GetAttributeValue  3 C_SetAttributeValue  4 C_CopyObject  5 C_DigestKey
#include "entry_env.h"
#include "p11_sink_model.h"

extern "C" void harness(void)
{
	env_init(1, 2);
	env_newobj_reset(); p11_sink_reset();
	SoftHSM* hsm = env.hsm; Session* s = env.session; SymObject& obj = env.obj[0];
	CK_SESSION_HANDLE hS = nondet_bool() ? env.hSession : nondet_ulong();
	CK_OBJECT_HANDLE hO = nondet_bool() ? env.hObj[0] : nondet_ulong();
	// a template of up to 2 entries with symbolic types, lengths and values
	static CK_ATTRIBUTE tmpl[2]; static unsigned char val[2][8]; static unsigned char canary[2][8];
	CK_ULONG cnt = nondet_uchar(); vassume(cnt <= 2);
	for (int i = 0; i < 2; i++)
	{
		tmpl[i].type = nondet_ulong(); tmpl[i].ulValueLen = nondet_uchar(); vassume(tmpl[i].ulValueLen <= 8);
		tmpl[i].pValue = nondet_bool() ? (CK_VOID_PTR)val[i] : NULL_PTR;
		for (int k = 0; k < 8; k++) { val[i][k] = nondet_uchar(); canary[i][k] = val[i][k]; }
#if OP == 4
		vassume(tmpl[i].pValue != NULL_PTR || tmpl[i].ulValueLen == 0);   // PKCS#11: pValue points to ulValueLen bytes
#endif
	}
	bool userIn = env_user_logged_in();
	bool rw = s->isReadWrite;
	bool oPriv = obj.getBooleanValue(CKA_PRIVATE, true), oTok = obj.getBooleanValue(CKA_TOKEN, false), oValid = obj.valid;
	bool target = hS == env.hSession && hO == env.hObj[0];
	unsigned long handles0 = env.hm->handles.size();
	CK_ULONG size = 0x1234; CK_OBJECT_HANDLE hNew = 0x4321;
	s->hashAlgo = (HashAlgo::Type)(nondet_uchar() & 7); s->digestOp = &model_hash;
#if OP == 2 || OP == 3 || OP == 4
	// bound: the object's class is one of two representatives (the guards in front of newP11Object() never read the class;
	// a fully symbolic class makes newP11Object() allocate one of 20 P11 objects, which CBMC's symex does not get through)
	vassume(obj.has_CLASS && (obj.u_CLASS == CKO_DATA || (obj.u_CLASS == CKO_SECRET_KEY && obj.has_KEY_TYPE && obj.u_KEY_TYPE == CKK_AES)));
#endif
#if OP == 1
	// C_GetObjectSize performs no access check of its own: it relies on the purge of private-object handles at
	// logout (C11 hm_tokenLoggedOut) - assume that invariant here: no handle of a private object while nobody/SO is logged in
	vassume(!(oPriv && !userIn));
#endif

#if OP == 0
	CK_RV rv = hsm->C_DestroyObject(hS, hO);
#elif OP == 1
	CK_RV rv = hsm->C_GetObjectSize(hS, hO, &size);
#elif OP == 2
	CK_RV rv = hsm->C_GetAttributeValue(hS, hO, tmpl, cnt);
#elif OP == 3
	CK_RV rv = hsm->C_SetAttributeValue(hS, hO, tmpl, cnt);
#elif OP == 4
	CK_RV rv = hsm->C_CopyObject(hS, hO, tmpl, cnt, &hNew);
#elif OP == 5
	CK_RV rv = hsm->C_DigestKey(hS, hO);
#endif

	bool sinks = p11_log.loads || p11_log.saves || store_log.decrypts || store_log.encrypts || store_log.tokCreates || store_log.sessCreates || crypto_log.calls;
	bool mutated = obj.nSet || obj.nDelete || obj.nDestroy;
	if (!target || !oValid) { vassert(rv != CKR_OK || OP == 5); vassert(!sinks || OP == 5); vassert(!mutated); }
	// ---- C01: a private object is unreachable unless the normal user is logged in
	if (target && oPriv && !userIn)
	{
		vassert(rv != CKR_OK);
		vassert(!sinks);                               // nothing read, decrypted, copied
		vassert(!mutated);
		vassert(env.hm->handles.size() == handles0);   // no handle gained or lost
		for (int i = 0; i < 2; i++) for (int k = 0; k < 8; k++) vassert(val[i][k] == canary[i][k]);
		vassert(hNew == 0x4321 || hNew == CK_INVALID_HANDLE);
#if OP != 1
		vreach();
#endif
	}
	// ---- C01: token objects are changed / destroyed only through RW sessions
#if OP == 0 || OP == 3
	if (target && oTok && !rw) { vassert(rv != CKR_OK); vassert(!mutated && !p11_log.saves); vreach(); }
	if (mutated || p11_log.saves) { vassert(target && oValid && (!oPriv || userIn) && (!oTok || rw)); vreach(); }
#endif
#if OP == 0
	// ---- C08: CKA_DESTROYABLE
	if (rv == CKR_OK || obj.nDestroy) { vassert(obj.getBooleanValue(CKA_DESTROYABLE, true) || obj.destroyed); vassert(obj.nDestroy == 1); vreach(); }
	if (target && oValid && !obj.has_DESTROYABLE) {}
	if (rv == CKR_OK) { vassert(env.hm->getObject(hO) == NULL); vassert(obj.destroyed); }           // C11: the handle dies with the object
	else if (!obj.nDestroy) vassert(env.hm->handles.size() == handles0);                           // C09: a refused call keeps the handle
#endif
#if OP == 3
	// ---- C08: CKA_MODIFIABLE
	if (p11_log.saves) { vassert(obj.getBooleanValue(CKA_MODIFIABLE, true)); vassert(p11_log.lastOp == OBJECT_OP_SET && p11_log.lastObject == &obj); vreach(); }
#endif
#if OP == 2
	if (p11_log.loads) { vassert(target && oValid && (!oPriv || userIn)); vassert(p11_log.lastObject == &obj); vreach(); }
#endif
#if OP == 4
	// creation side of the copy: the NEW object's privacy / token-ness decide as well
	bool created = store_log.tokCreates || store_log.sessCreates;
	if (created)
	{
		vassert(target && oValid && (!oPriv || userIn));
		vassert(obj.getBooleanValue(CKA_COPYABLE, true));                         // C08: CKA_COPYABLE
		bool newTok = store_log.tokCreates > 0; bool newPriv = store_log.sessCreates ? store_log.lastSessPriv : (p11_log.saves ? p11_log.lastIsPrivate : oPriv);
		vassert(!newTok || rw);                                                   // token objects only through RW sessions
		// the copy's privacy / token-ness are the source's unless the template says otherwise (last matching entry wins)
		bool expPriv = oPriv, expTok = oTok;
		for (CK_ULONG i = 0; i < 2; i++) if (i < cnt && tmpl[i].ulValueLen == sizeof(CK_BBOOL) && tmpl[i].pValue) { if (tmpl[i].type == CKA_PRIVATE) expPriv = val[i][0] != 0; if (tmpl[i].type == CKA_TOKEN) expTok = val[i][0] != 0; }
		vassert(newTok == expTok);
		if (store_log.sessCreates) vassert(store_log.lastSessPriv == expPriv);
		if (p11_log.saves) { vassert(p11_log.lastIsPrivate == expPriv); vreach(); }   // C06: the template's byte strings are stored according to the COPY's privacy
		if (rv == CKR_OK) { Handle hh = env.hm->handles.at(hNew); vassert(hh.isPrivate == expPriv && hh.kind == CKH_OBJECT); }   // C01: the handle is purged at logout iff the copy is private
		if (store_log.sessCreates) { vassert(!newPriv || userIn); vassert(!(oPriv && !newPriv)); }   // no private objects for public/SO sessions; no privacy downgrade
		if (p11_log.saves) { vassert(!p11_log.lastIsPrivate || userIn); vassert(!(oPriv && !p11_log.lastIsPrivate)); vassert(p11_log.lastOp == OBJECT_OP_COPY && p11_log.lastObject == &env_newobj); }
		vreach();
	}
	if (rv == CKR_OK) { vassert(created && p11_log.saves == 1 && hNew != CK_INVALID_HANDLE && env.hm->getObject(hNew) == &env_newobj); vassert(!env_newobj.destroyed); vreach(); }
	else
	{	// C09: a failed copy leaves no object and no handle behind
		vassert(hNew == CK_INVALID_HANDLE || hNew == 0x4321);
		vassert(env.hm->handles.size() == handles0);
		if (created && !store_log.createFails) vassert(env_newobj.destroyed);
	}
	vassert(!mutated);                                                            // the source object is never touched
#endif
#if OP == 5
	if (store_log.decrypts || crypto_log.dataCalls) { vassert(target && oValid && (!oPriv || userIn)); vreach(); }
#endif
#if OP == 1
	if (rv == CKR_OK) { vassert(target && oValid); vreach(); }
#endif
	vreach();
}
