// C02 / C08 / C06 - one attribute of the policy engine at a time: a real P11Attr* object (P11Attributes.cpp: retrieve, update, its
// updateAttr override) bound to a symbolic object.  -DATTR_NEW = constructor expression, -DATYPE = its attribute type.
// Symbolic: the object's stored flags, the login state, privacy, the operation kind, value pointer/length/bytes.
// Token::encrypt/decrypt = tagging model.   OP 0: retrieve   OP 1: update
#include "entry_env.h"
#define private public
#define protected public
#include "P11Attributes.h"
#undef private
#undef protected
static bool is_secret_attr(CK_ATTRIBUTE_TYPE t)
{ return t == CKA_VALUE || t == CKA_PRIVATE_EXPONENT || t == CKA_PRIME_1 || t == CKA_PRIME_2 || t == CKA_EXPONENT_1 || t == CKA_EXPONENT_2 || t == CKA_COEFFICIENT; }
extern "C" void harness(void)
{
	env_init(1, 3);
	SymObject& o = env.obj[0]; o.setOk = true;
	model_hash.hashSize = 4;
	P11Attribute* a = ATTR_NEW;
	vassert(a->type == ATYPE);
	bool sens0 = o.getBooleanValue(CKA_SENSITIVE, false), extr0 = o.getBooleanValue(CKA_EXTRACTABLE, true), wwt0 = o.getBooleanValue(CKA_WRAP_WITH_TRUSTED, false);
	bool asens0 = o.getBooleanValue(CKA_ALWAYS_SENSITIVE, false), nextr0 = o.getBooleanValue(CKA_NEVER_EXTRACTABLE, false);
	bool modif0 = o.getBooleanValue(CKA_MODIFIABLE, true), copy0 = o.getBooleanValue(CKA_COPYABLE, true), trusted0 = o.getBooleanValue(CKA_TRUSTED, false);
	bool local0 = o.getBooleanValue(CKA_LOCAL, false); bool isPriv = nondet_bool();
	o.nSet = 0; store_log.encrypts = store_log.decrypts = 0;
	static unsigned char val[8]; unsigned char canary[8]; for (int k = 0; k < 8; k++) { val[k] = nondet_uchar(); canary[k] = val[k]; }
	CK_ULONG len = nondet_uchar(); vassume(len <= 8); CK_VOID_PTR pv = nondet_bool() ? (CK_VOID_PTR)val : NULL_PTR;
#if OP == 0
	CK_ULONG len0 = len;
	CK_RV rv = a->retrieve(env.token, isPriv, pv, &len);
	if (is_secret_attr(ATYPE) && SECRET_CLASS && (sens0 || !extr0))
	{	// C02 reveal guard
		vassert(rv == CKR_ATTRIBUTE_SENSITIVE && len == CK_UNAVAILABLE_INFORMATION && store_log.decrypts == 0);
		for (int k = 0; k < 8; k++) vassert(val[k] == canary[k]);
		vreach();
	}
	if (rv == CKR_OK && pv) { vassert(len <= len0); vreach(); }          // never more than announced
	if (rv != CKR_OK || !pv) for (int k = 0; k < 8; k++) vassert(val[k] == canary[k] || (rv == CKR_OK && pv));
	vassert(o.nSet == 0);
	vreach();
#else
	int op = nondet_uchar(); vassume(op >= OBJECT_OP_COPY && op <= OBJECT_OP_UNWRAP);
	CK_RV rv = a->update(env.token, isPriv, pv, len, op);
	bool sens1 = o.getBooleanValue(CKA_SENSITIVE, false), extr1 = o.getBooleanValue(CKA_EXTRACTABLE, true), wwt1 = o.getBooleanValue(CKA_WRAP_WITH_TRUSTED, false);
	bool trusted1 = o.getBooleanValue(CKA_TRUSTED, false);
	bool modifying = op == OBJECT_OP_SET || op == OBJECT_OP_COPY;
	if (rv == CKR_ATTRIBUTE_READ_ONLY || rv == CKR_ATTRIBUTE_VALUE_INVALID || rv == CKR_ACTION_PROHIBITED) vassert(o.nSet == 0);   // a policy refusal stores nothing (roll-back of later failures is the transaction's job: C09)
	// ---- C02 one-way protections
	if (modifying && sens0) { vassert(sens1); if (ATYPE == CKA_SENSITIVE) vreach(); }
	if (modifying && !extr0) { vassert(!extr1); if (ATYPE == CKA_EXTRACTABLE) vreach(); }
	if (modifying && wwt0) { vassert(wwt1); if (ATYPE == CKA_WRAP_WITH_TRUSTED) vreach(); }
	// ---- C08
	if (modifying && !modif0) { vassert(rv != CKR_OK); vreach(); }                                // CKA_MODIFIABLE false: no attribute changes (SET and COPY go through update)
	if (ATYPE == CKA_LOCAL || ATYPE == CKA_KEY_GEN_MECHANISM || ATYPE == CKA_ALWAYS_SENSITIVE || ATYPE == CKA_NEVER_EXTRACTABLE) { vassert(rv != CKR_OK); vreach(); }
	if (!trusted0 && trusted1) { vassert(env.sdm->soLoggedIn); if (ATYPE == CKA_TRUSTED) vreach(); }
	if (ATYPE == CKA_COPYABLE && modifying && !copy0) vassert(!o.getBooleanValue(CKA_COPYABLE, true));   // once false stays false
	if (modifying && (ATYPE == CKA_TOKEN || ATYPE == CKA_PRIVATE || ATYPE == CKA_MODIFIABLE || ATYPE == CKA_DESTROYABLE) && op == OBJECT_OP_SET) { vassert(rv != CKR_OK); vreach(); }   // read-only after creation
	// history attributes tell the truth
	if (rv == CKR_OK && ATYPE == CKA_SENSITIVE && !sens1) vassert(!o.getBooleanValue(CKA_ALWAYS_SENSITIVE, false));
	if (rv == CKR_OK && ATYPE == CKA_EXTRACTABLE && extr1) vassert(!o.getBooleanValue(CKA_NEVER_EXTRACTABLE, false));
	if (modifying && !asens0) vassert(!o.getBooleanValue(CKA_ALWAYS_SENSITIVE, false));
	if (modifying && !nextr0) vassert(!o.getBooleanValue(CKA_NEVER_EXTRACTABLE, false));
	if (modifying) vassert(o.getBooleanValue(CKA_LOCAL, false) == local0);
	// ---- C06: byte-string values of private objects are stored encrypted
	if (rv == CKR_OK && isPriv && o.nSet && o.lastSet.type == ATYPE && o.lastSet.kind == SK_BYTES && o.lastSet.bsLen != 0) { vassert(o.lastSet.bs0 == ENC_TAG && o.lastSet.bsLen == len + 1 && store_log.encrypts == 1); if (BYTES_ATTR) vreach(); }
	if (rv == CKR_OK && !isPriv && o.nSet && o.lastSet.type == ATYPE && o.lastSet.kind == SK_BYTES) { vassert(o.lastSet.bsLen == len && (len == 0 || o.lastSet.bs0 == val[0])); }
	// canonical booleans: what is stored as a flag reflects exactly the caller's CK_TRUE / CK_FALSE
	if (rv == CKR_OK && o.nSet && o.lastSet.kind == SK_BOOL && o.lastSet.type == ATYPE && len == 1 && pv) vassert(o.lastSet.b == (val[0] != CK_FALSE));
	vreach();
#endif
}
