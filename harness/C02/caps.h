// entry_caps.h + the capacity of the attribute table of a P11 object class
#ifndef C02_CAPS_H
#define C02_CAPS_H
#include "../common/entry_caps.h"
class P11Attribute; class OSAttribute;
#ifndef P11MAP_CAP
#define P11MAP_CAP 40
#endif
template<> struct vstl_map_cap<unsigned long, P11Attribute*> { enum { value = P11MAP_CAP }; };   // attributes of a P11 object class (+ unknown template types)
template<> struct vstl_map_cap<unsigned long, OSAttribute> { enum { value = 2 }; };
#endif
