// entry_caps.h + the capacity of the attribute table of a P11 object class
#ifndef C02_CAPS_H
#define C02_CAPS_H
#include "../common/entry_caps.h"
class P11Attribute; class OSAttribute;
template<> struct vstl_map_cap<unsigned long, P11Attribute*> { enum { value = 40 }; };   // attributes of a P11 object class (+ unknown template types)
template<> struct vstl_map_cap<unsigned long, OSAttribute> { enum { value = 2 }; };
#endif
