// C02 / C01 / C07 / C12 / C13 - SoftHSM::C_WrapKey (real): the gates in front of the wrapping primitive and the output protocol.
//   obj[0] = wrapping key, obj[1] = key to be wrapped (both SymObjects with symbolic attribute tables), session / login state symbolic,
//   mechanism = all 2^64 values with a symbolic parameter block.
// Cuts: WrapKeySym / WrapKeyAsym (the primitive: records the key bytes it is given, returns symbolic bytes or fails - their bodies are
// obligation wrapsym_*), get*PrivateKey (key-material access of a private key: sink), Token::decrypt = tagging model.
#include "entry_env.h"
#include "spec_mech.h"
static unsigned long nWrap, nGetKey; static bool wrapOk; static unsigned char wrapOut[MODEL_OUT_MAX]; static size_t wrapLen;
static size_t seenLen; static unsigned char seen[4]; static OSObject* seenWrapKey; static bool seenSym;
extern "C" {
CK_RV sink_wrapsym(SoftHSM*, CK_MECHANISM_PTR m, Token* t, OSObject* wrapKey, ByteString& keydata, ByteString& wrapped)
{
	nWrap++; seenSym = true; seenWrapKey = wrapKey; seenLen = keydata.size(); for (size_t i = 0; i < 4; i++) seen[i] = i < keydata.size() ? keydata[i] : 0;
	if (!wrapOk) return CKR_GENERAL_ERROR;
	wrapped.resize(wrapLen); for (size_t i = 0; i < MODEL_OUT_MAX; i++) if (i < wrapLen) wrapped[i] = wrapOut[i];
	return CKR_OK;
}
CK_RV sink_wrapasym(SoftHSM* h, CK_MECHANISM_PTR m, Token* t, OSObject* wrapKey, ByteString& keydata, ByteString& wrapped) { CK_RV rv = sink_wrapsym(h, m, t, wrapKey, keydata, wrapped); seenSym = false; return rv; }
CK_RV sink_getKey(SoftHSM*, void* k, Token* t, OSObject* o) { nGetKey++; return nondet_bool() ? CKR_OK : CKR_GENERAL_ERROR; }
}
extern "C" void harness(void)
{
	env_init(2, 3);
	SoftHSM* hsm = env.hsm; Session* s = env.session; SymObject& wk = env.obj[0]; SymObject& key = env.obj[1];
	wrapOk = nondet_bool(); wrapLen = nondet_uchar(); vassume(wrapLen <= MODEL_OUT_MAX); for (int i = 0; i < MODEL_OUT_MAX; i++) wrapOut[i] = nondet_uchar();
	static unsigned long paramw[6]; CK_MECHANISM mech; mech.mechanism = nondet_ulong(); mech.ulParameterLen = nondet_uchar(); vassume(mech.ulParameterLen <= sizeof(paramw));
	mech.pParameter = nondet_bool() ? (CK_VOID_PTR)paramw : NULL_PTR; for (int i = 0; i < 6; i++) paramw[i] = nondet_ulong();
	if (mech.mechanism == CKM_RSA_PKCS_OAEP && mech.pParameter && mech.ulParameterLen == sizeof(CK_RSA_PKCS_OAEP_PARAMS)) { CK_RSA_PKCS_OAEP_PARAMS* o = (CK_RSA_PKCS_OAEP_PARAMS*)paramw; if (o->pSourceData) o->pSourceData = paramw; }
	// output buffer with canaries; announced length symbolic
	static CK_BYTE out[MODEL_OUT_MAX + 4]; for (int i = 0; i < MODEL_OUT_MAX + 4; i++) out[i] = 0xC5;
	CK_ULONG announced = nondet_uchar(); vassume(announced <= MODEL_OUT_MAX + 2); CK_ULONG len = announced; bool query = nondet_bool();
	CK_SESSION_HANDLE hS = nondet_bool() ? env.hSession : nondet_ulong();
	CK_OBJECT_HANDLE hW = nondet_bool() ? env.hObj[0] : nondet_ulong(), hK = nondet_bool() ? env.hObj[1] : nondet_ulong();
	vassume(hW != env.hObj[1] && hK != env.hObj[0]);     // bound: the two roles are played by the two different objects (a key wrapping itself is outside)
	bool userIn = env_user_logged_in();
	bool wPriv = wk.getBooleanValue(CKA_PRIVATE, true), kPriv = key.getBooleanValue(CKA_PRIVATE, true);
	bool allowedEmpty = true, allowedHas = false; if (wk.has_ALLOWED) for (int m = 0; m < ALLOWED_CAP; m++) if (wk.allowed.u_[m]) { allowedEmpty = false; if (wk.allowed.k_[m] == mech.mechanism) allowedHas = true; }
	CK_ULONG kClass = key.getUnsignedLongValue(CKA_CLASS, CKO_VENDOR_DEFINED), wClass = wk.getUnsignedLongValue(CKA_CLASS, CKO_VENDOR_DEFINED), wType = wk.getUnsignedLongValue(CKA_KEY_TYPE, CKK_VENDOR_DEFINED);
	int op0 = s->operation;

	CK_RV rv = hsm->C_WrapKey(hS, &mech, hW, hK, query ? NULL_PTR : out, &len);

	bool used = nWrap > 0;
	bool touched = store_log.decrypts > 0 || nGetKey > 0 || used;      // key material of the key to be wrapped was read
	if (touched)
	{
		vassert(hS == env.hSession && hW == env.hObj[0] && hK == env.hObj[1] && wk.valid && key.valid);
		// ---- C01: private keys (either role) only for the logged-in user
		vassert(!wPriv || userIn); vassert(!kPriv || userIn);
		// ---- C02: only extractable keys leave the token; a key that demands a trusted wrapping key gets one
		vassert(key.getBooleanValue(CKA_EXTRACTABLE, false));
		vassert(!key.getBooleanValue(CKA_WRAP_WITH_TRUSTED, false) || wk.getBooleanValue(CKA_TRUSTED, false));
		// ---- C07: the wrapping key may wrap, with this mechanism, and is of the mechanism's key type
		vassert(wk.getBooleanValue(CKA_WRAP, false));
		vassert(allowedEmpty || allowedHas); vassert(in_supported(mech.mechanism));
		CK_MECHANISM_TYPE m = mech.mechanism;
		vassert(m == CKM_AES_KEY_WRAP || m == CKM_AES_KEY_WRAP_PAD || m == CKM_RSA_PKCS || m == CKM_RSA_PKCS_OAEP || m == CKM_AES_CBC || m == CKM_AES_CBC_PAD);
		if (m == CKM_AES_KEY_WRAP || m == CKM_AES_KEY_WRAP_PAD) { vassert(wClass == CKO_SECRET_KEY && wType == CKK_AES); vassert(mech.pParameter == NULL_PTR && mech.ulParameterLen == 0); }
		if (m == CKM_AES_CBC || m == CKM_AES_CBC_PAD) { vassert(wType == CKK_AES); vassert(mech.pParameter != NULL_PTR && mech.ulParameterLen == 16); }
		if (m == CKM_RSA_PKCS || m == CKM_RSA_PKCS_OAEP) { vassert(wClass == CKO_PUBLIC_KEY && wType == CKK_RSA); vassert(kClass == CKO_SECRET_KEY); }
		vassert(kClass == CKO_SECRET_KEY || kClass == CKO_PRIVATE_KEY);
		vreach();
	}
	if (used)
	{
		vassert(nWrap == 1 && seenWrapKey == &wk && seenLen > 0);
		vassert(seenSym == (wClass == CKO_SECRET_KEY));
		// ---- C13 / C06: a secret key is wrapped as exactly its CKA_VALUE (decrypted first when the key is private)
		if (kClass == CKO_SECRET_KEY)
		{
			size_t off = kPriv ? 1 : 0;
			vassert(key.has_VALUE && key.s_VALUE.size() == seenLen + off);
			if (kPriv) vassert(key.s_VALUE[0] == ENC_TAG && store_log.decrypts == 1);
			for (size_t i = 0; i < 3; i++) if (i < seenLen) vassert(seen[i] == key.s_VALUE[i + off]);
			vreach();
		}
		else { vassert(nGetKey == 1); vreach(); }
	}
	// ---- refusals: a call that must not succeed does not reach the key material at all
	if (hS == env.hSession && hW == env.hObj[0] && hK == env.hObj[1])
	{
		if ((kPriv || wPriv) && !userIn) { vassert(rv != CKR_OK && !touched); vreach(); }
		if (!key.getBooleanValue(CKA_EXTRACTABLE, false)) { vassert(rv != CKR_OK && !touched); vreach(); }
		if (!wk.getBooleanValue(CKA_WRAP, false)) { vassert(rv != CKR_OK && !touched); vreach(); }
	}
	// ---- C12: output protocol
	if (rv == CKR_OK)
	{
		vassert(used && wrapOk && len == wrapLen);
		if (query) { for (int i = 0; i < MODEL_OUT_MAX + 4; i++) vassert(out[i] == 0xC5); vreach(); }
		else { vassert(announced >= wrapLen); for (int i = 0; i < MODEL_OUT_MAX + 4; i++) vassert(out[i] == ((size_t)i < wrapLen ? wrapOut[i] : 0xC5)); vreach(); }
	}
	else
	{
		for (int i = 0; i < MODEL_OUT_MAX + 4; i++) vassert(out[i] == 0xC5);      // a failing call writes no byte of the buffer
		if (rv == CKR_BUFFER_TOO_SMALL) { vassert(used && wrapOk && !query && announced < wrapLen && len == wrapLen); vreach(); }
		else vassert(len == announced);
	}
	vassert(s->operation == op0);                  // C_WrapKey is not a session operation
	vassert(env.hm->handles.size() == 3);
	vreach();
}
