// C17 - C_GetAttributeValue of a nested template attribute (CKA_WRAP_TEMPLATE / CKA_UNWRAP_TEMPLATE): real P11Attribute::retrieve +
// retrieveAttributeMap (P11Attributes.cpp) on an object whose template attribute holds two entries (a boolean, an unsigned long).
// The caller's nested CK_ATTRIBUTE array has symbolic types, lengths and NULL / non-NULL value pointers (NULL = "tell me the size", as in
// the outer template).  With CBMC pointer checks: nothing is written through a NULL pointer, nothing beyond the announced lengths.
#include "entry_env.h"
#define private public
#define protected public
#include "P11Attributes.h"
#undef private
#undef protected
class MapObject : public SymObject { public:
	std::map<CK_ATTRIBUTE_TYPE, OSAttribute> m;
	virtual bool attributeExists(CK_ATTRIBUTE_TYPE t) { return t == CKA_WRAP_TEMPLATE || SymObject::attributeExists(t); }
	virtual OSAttribute getAttribute(CK_ATTRIBUTE_TYPE t) { if (t == CKA_WRAP_TEMPLATE) return OSAttribute(m); return SymObject::getAttribute(t); } };
static MapObject mo;
extern "C" void harness(void)
{
	env_init(0, 0);
	mo.havoc(1); mo.valid = true;
	bool bv = nondet_bool(); unsigned long uv = nondet_ulong();
	mo.m.insert(std::pair<CK_ATTRIBUTE_TYPE, OSAttribute>(CKA_ENCRYPT, OSAttribute(bv)));
	mo.m.insert(std::pair<CK_ATTRIBUTE_TYPE, OSAttribute>(CKA_VALUE_LEN, OSAttribute(uv)));
	static P11AttrWrapTemplate attr(&mo);
	static CK_ATTRIBUTE nested[2]; static unsigned long buf[2][2];
	for (int i = 0; i < 2; i++)
	{
		bool hasBuf = nondet_bool(); CK_ULONG l = nondet_uchar(); vassume(l <= 16);
		nested[i].type = nondet_bool() ? (i == 0 ? CKA_ENCRYPT : CKA_VALUE_LEN) : nondet_ulong();
		nested[i].pValue = hasBuf ? (CK_VOID_PTR)buf[i] : NULL_PTR; nested[i].ulValueLen = l;
		buf[i][0] = 0xC5C5C5C5C5C5C5C5UL; buf[i][1] = 0xC5C5C5C5C5C5C5C5UL;
	}
	bool query = nondet_bool(); CK_ULONG len = nondet_uchar();
	CK_RV rv = attr.retrieve(env.token, false, query ? NULL_PTR : (CK_VOID_PTR)nested, &len);
	if (query) { vassert(rv == CKR_OK && len == 2 * sizeof(CK_ATTRIBUTE)); vreach(); }
	if (rv == CKR_OK && !query && nested[0].pValue && nested[1].pValue) { vassert(nested[0].ulValueLen <= 16 && nested[1].ulValueLen <= 16); vreach(); }
	for (int i = 0; i < 2; i++) vassert(buf[i][1] == 0xC5C5C5C5C5C5C5C5UL || nested[i].ulValueLen > 8);      // nothing beyond 8 bytes is ever needed
	vreach();
}
