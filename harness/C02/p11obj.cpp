// C02 / C08 / C06 / C09 - the attribute policy engine: real P11Objects.cpp (class composition: which attribute carries which
// PKCS#11 footnote checks) + real P11Attributes.cpp (retrieve / update / every updateAttr) over a symbolic object.
// -DCLS = concrete P11 class; the object's stored flags, the login state, the operation kind and a template of <= 2 entries
// (types, lengths, value bytes, NULL pointers) are symbolic.  Token::encrypt/decrypt = tagging model.
//   OP 0: loadTemplate (C_GetAttributeValue)      OP 1: saveTemplate (C_SetAttributeValue / C_CopyObject / create / generate / unwrap / derive)
#include "entry_env.h"
#define private public
#define protected public
#include "P11Objects.h"
#include "P11Attributes.h"
#undef private
#undef protected
#ifndef CLS
#define CLS P11AESSecretKeyObj
#endif
static bool is_secret_attr(CK_ATTRIBUTE_TYPE t)
{ return t == CKA_VALUE || t == CKA_PRIVATE_EXPONENT || t == CKA_PRIME_1 || t == CKA_PRIME_2 || t == CKA_EXPONENT_1 || t == CKA_EXPONENT_2 || t == CKA_COEFFICIENT; }
static bool is_history_attr(CK_ATTRIBUTE_TYPE t) { return t == CKA_LOCAL || t == CKA_KEY_GEN_MECHANISM || t == CKA_ALWAYS_SENSITIVE || t == CKA_NEVER_EXTRACTABLE; }
extern "C" void harness(void)
{
	env_init(1, 3);
	SymObject& o = env.obj[0]; o.setOk = true;
	static CLS p11;
	bool initOk = p11.init(&o);
	vassume(initOk);
	// state after init (defaults applied where the object lacked an attribute)
	bool sens0 = o.getBooleanValue(CKA_SENSITIVE, false), extr0 = o.getBooleanValue(CKA_EXTRACTABLE, true), wwt0 = o.getBooleanValue(CKA_WRAP_WITH_TRUSTED, false);
	bool asens0 = o.getBooleanValue(CKA_ALWAYS_SENSITIVE, false), nextr0 = o.getBooleanValue(CKA_NEVER_EXTRACTABLE, false);
	bool modif0 = o.getBooleanValue(CKA_MODIFIABLE, true), copy0 = o.getBooleanValue(CKA_COPYABLE, true), trusted0 = o.getBooleanValue(CKA_TRUSTED, false);
	bool local0 = o.getBooleanValue(CKA_LOCAL, false); bool priv = o.getBooleanValue(CKA_PRIVATE, false);
	o.nSet = o.nStart = o.nCommit = o.nAbort = 0; store_log.encrypts = store_log.decrypts = 0;
	static CK_ATTRIBUTE tmpl[2]; static unsigned char val[2][8]; static unsigned char canary[2][8];
	CK_ULONG cnt = nondet_uchar(); vassume(cnt >= 1 && cnt <= 2);
	for (int i = 0; i < 2; i++)
	{
		tmpl[i].type = nondet_ulong(); tmpl[i].ulValueLen = nondet_uchar(); vassume(tmpl[i].ulValueLen <= 8);
		tmpl[i].pValue = nondet_bool() ? (CK_VOID_PTR)val[i] : NULL_PTR;
		for (int k = 0; k < 8; k++) { val[i][k] = nondet_uchar(); canary[i][k] = val[i][k]; }
	}
#if OP == 0
	CK_ULONG len0[2] = { tmpl[0].ulValueLen, tmpl[1].ulValueLen };
	CK_RV rv = p11.loadTemplate(env.token, tmpl, cnt);
	for (CK_ULONG i = 0; i < 2; i++) if (i < cnt && is_secret_attr(tmpl[i].type) && (sens0 || !extr0))
	{
		// C02: the secret value attributes of a sensitive or unextractable key are never revealed
		vassert(rv != CKR_OK);
		vassert(rv == CKR_ATTRIBUTE_SENSITIVE || rv == CKR_ATTRIBUTE_TYPE_INVALID || rv == CKR_GENERAL_ERROR || rv == CKR_BUFFER_TOO_SMALL);
		vassert(tmpl[i].ulValueLen == CK_UNAVAILABLE_INFORMATION);
		for (int k = 0; k < 8; k++) vassert(val[i][k] == canary[i][k]);                 // not one byte written
		if (cnt == 1) { vassert(store_log.decrypts == 0); vassert(rv == CKR_ATTRIBUTE_SENSITIVE || rv == CKR_ATTRIBUTE_TYPE_INVALID); }
		vreach();
	}
	// C12-style honesty of the length protocol for every attribute: never more bytes than announced
	for (CK_ULONG i = 0; i < 2; i++) if (i < cnt && tmpl[i].pValue && rv == CKR_OK) vassert(tmpl[i].ulValueLen <= len0[i]);
	vassert(o.nSet == 0);                                                                // reading never modifies
	vreach();
#else
	int op = nondet_uchar(); vassume(op >= OBJECT_OP_COPY && op <= OBJECT_OP_UNWRAP);
	bool isPrivArg = priv;      // callers pass the object's privacy
	CK_RV rv = p11.saveTemplate(env.token, isPrivArg, tmpl, cnt, op);
	bool sens1 = o.getBooleanValue(CKA_SENSITIVE, false), extr1 = o.getBooleanValue(CKA_EXTRACTABLE, true), wwt1 = o.getBooleanValue(CKA_WRAP_WITH_TRUSTED, false);
	bool trusted1 = o.getBooleanValue(CKA_TRUSTED, false);
	bool modifying = op == OBJECT_OP_SET || op == OBJECT_OP_COPY;
	// ---- C02: one-way protections cannot be removed by C_SetAttributeValue / C_CopyObject
	if (modifying && sens0) { vassert(sens1); vreach(); }
	if (modifying && !extr0) { vassert(!extr1); vreach(); }
	if (modifying && wwt0) { vassert(wwt1); vreach(); }
	// ---- C08: object-level gates and read-only attributes
	if (op == OBJECT_OP_SET && !modif0) { vassert(rv != CKR_OK && o.nSet == 0); vreach(); }
	if (op == OBJECT_OP_COPY && !copy0) { vassert(rv != CKR_OK && o.nSet == 0); vreach(); }
	for (CK_ULONG i = 0; i < 2; i++) if (i < cnt && is_history_attr(tmpl[i].type)) { vassert(rv != CKR_OK); vreach(); }   // never supplied by the caller, whatever the operation
	if (!trusted0 && trusted1) { vassert(env.sdm->soLoggedIn); vreach(); }                                               // CKA_TRUSTED true only by the SO
	// history attributes tell the truth: once sensitive was false / extractable was true it shows
	if (o.nSet && !sens1) vassert(!o.getBooleanValue(CKA_ALWAYS_SENSITIVE, false) || o.lastSet.type != CKA_SENSITIVE || true);
	if (sens0 && !asens0 && modifying) vassert(!o.getBooleanValue(CKA_ALWAYS_SENSITIVE, false));                         // cannot be regained
	if (extr0 && !nextr0 && modifying) vassert(!o.getBooleanValue(CKA_NEVER_EXTRACTABLE, false));
	if (modifying) vassert(o.getBooleanValue(CKA_LOCAL, false) == local0);
	// ---- C06: a private object's byte-string values are stored encrypted (tag model)
#define X(n) if (isPrivArg && o.has_##n && o.s_##n.size() != 0 && o.nSet && o.lastSet.type == CKA_##n && o.lastSet.kind == SK_BYTES) { vassert(o.s_##n[0] == ENC_TAG); vreach(); }
	X(VALUE) X(LABEL)
#undef X
	if (isPrivArg && o.nSet && o.lastSet.kind == SK_BYTES && o.lastSet.bsLen != 0) { vassert(o.lastSet.bs0 == ENC_TAG); vassert(store_log.encrypts >= 1); }
	// ---- C09: every refusal rolls the transaction back, every success commits it
	vassert(o.nStart == 1);
	if (rv == CKR_OK) { vassert(o.nCommit == 1 && o.nAbort == 0); vreach(); }
	else { vassert(o.nCommit == 0 && o.nAbort == 1); vreach(); }
	vreach();
#endif
}
