// C12 (+ the always-authenticate clause of C07, + C17 for these entry points) - operation state and output-length protocol of
// the continuation / single-part / final calls.  One real call (-DFN) from an arbitrary session state: operation kind (all ints),
// the installed cipher / MAC / hash / asymmetric objects (crypto sinks, possibly absent), single/multi-part permission,
// re-authentication flag, cipher mode / padding / buffered bytes / tag length, input length, output pointer (NULL = length query)
// and announced output length are symbolic.  The output buffer has canary bytes beyond the announced length.
#include "entry_env.h"
#include "FindOperation.h"
enum { OUTCAP = 40, INMAX = 20 };
struct K { int expectOp; bool finishing; bool hasOut; bool needsReauthClear; };
extern "C" void harness(void)
{
	env_init(0, 0);
	SoftHSM* hsm = env.hsm; Session* s = env.session;
	// installed operation objects (each may be absent)
	model_sym.blockSize = nondet_bool() ? 16 : 8;
	model_sym.currentCipherMode = (SymMode::Type)(nondet_uchar() % 7); model_sym.currentPaddingMode = nondet_bool();
	model_sym.currentBufferSize = nondet_uchar() % 16; model_sym.currentTagBytes = nondet_uchar() % 17; model_sym.currentCounterBits = 0;
	model_sym.currentOperation = nondet_bool() ? SymmetricAlgorithm::ENCRYPT : SymmetricAlgorithm::DECRYPT;
	vassume(model_sym.currentBufferSize < model_sym.blockSize);
	model_mac.macSize = 1 + nondet_uchar() % 16; model_hash.hashSize = 1 + nondet_uchar() % 16;
	model_priv.len = 1 + nondet_uchar() % 16; model_pub.len = model_priv.len;
	s->symmetricCryptoOp = nondet_bool() ? &model_sym : (SymmetricAlgorithm*)0;
	s->macOp = (!s->symmetricCryptoOp && nondet_bool()) ? &model_mac : (MacAlgorithm*)0;
	s->asymmetricCryptoOp = (!s->symmetricCryptoOp && !s->macOp && nondet_bool()) ? &model_asym : (AsymmetricAlgorithm*)0;
	s->digestOp = nondet_bool() ? &model_hash : (HashAlgorithm*)0;
	s->privateKey = s->asymmetricCryptoOp && nondet_bool() ? &model_priv : (PrivateKey*)0; s->publicKey = s->asymmetricCryptoOp && nondet_bool() ? &model_pub : (PublicKey*)0;
	static SymmetricKey skey; s->symmetricKey = nondet_bool() ? &skey : (SymmetricKey*)0;
	s->mechanism = (AsymMech::Type)(nondet_uchar() % 27); s->hashAlgo = (HashAlgo::Type)(nondet_uchar() & 7);
	CK_SESSION_HANDLE hS = nondet_bool() ? env.hSession : nondet_ulong();
	static CK_BYTE in[INMAX]; static CK_BYTE out[OUTCAP]; CK_BYTE canary[OUTCAP];
	CK_ULONG inLen = nondet_uchar(); vassume(inLen <= INMAX);
	CK_ULONG outLen = nondet_uchar(); vassume(outLen <= OUTCAP - 8); CK_ULONG announced = outLen;
	for (int i = 0; i < OUTCAP; i++) { out[i] = nondet_uchar(); canary[i] = out[i]; }
	CK_BYTE_PTR pOut = nondet_bool() ? out : NULL_PTR; CK_BYTE_PTR pIn = nondet_bool() ? in : NULL_PTR; bool nullLen = nondet_bool();
	// session invariant (established by the *Init functions, which install the operation object together with the operation type)
	if (s->operation == SESSION_OP_DIGEST) vassume(s->digestOp != 0);
	int op0 = s->operation; bool reauth0 = s->reAuthentication; bool multi0 = s->allowMultiPartOp, single0 = s->allowSinglePartOp;
	K k; k.hasOut = true; k.finishing = false; k.needsReauthClear = false;
#if FN == 0
	CK_RV rv = hsm->C_Encrypt(hS, pIn, inLen, pOut, nullLen ? NULL : &outLen); k.expectOp = SESSION_OP_ENCRYPT; k.finishing = true;
#elif FN == 1
	CK_RV rv = hsm->C_EncryptUpdate(hS, pIn, inLen, pOut, nullLen ? NULL : &outLen); k.expectOp = SESSION_OP_ENCRYPT;
#elif FN == 2
	CK_RV rv = hsm->C_EncryptFinal(hS, pOut, nullLen ? NULL : &outLen); k.expectOp = SESSION_OP_ENCRYPT; k.finishing = true;
#elif FN == 3
	CK_RV rv = hsm->C_Decrypt(hS, pIn, inLen, pOut, nullLen ? NULL : &outLen); k.expectOp = SESSION_OP_DECRYPT; k.finishing = true; k.needsReauthClear = true;
#elif FN == 4
	CK_RV rv = hsm->C_DecryptUpdate(hS, pIn, inLen, pOut, nullLen ? NULL : &outLen); k.expectOp = SESSION_OP_DECRYPT;
#elif FN == 5
	CK_RV rv = hsm->C_DecryptFinal(hS, pOut, nullLen ? NULL : &outLen); k.expectOp = SESSION_OP_DECRYPT; k.finishing = true;
#elif FN == 6
	CK_RV rv = hsm->C_Digest(hS, pIn, inLen, pOut, nullLen ? NULL : &outLen); k.expectOp = SESSION_OP_DIGEST; k.finishing = true;
#elif FN == 7
	CK_RV rv = hsm->C_DigestUpdate(hS, pIn, inLen); k.expectOp = SESSION_OP_DIGEST; k.hasOut = false;
#elif FN == 8
	CK_RV rv = hsm->C_DigestFinal(hS, pOut, nullLen ? NULL : &outLen); k.expectOp = SESSION_OP_DIGEST; k.finishing = true;
#elif FN == 9
	CK_RV rv = hsm->C_Sign(hS, pIn, inLen, pOut, nullLen ? NULL : &outLen); k.expectOp = SESSION_OP_SIGN; k.finishing = true; k.needsReauthClear = true;
#elif FN == 10
	CK_RV rv = hsm->C_SignUpdate(hS, pIn, inLen); k.expectOp = SESSION_OP_SIGN; k.hasOut = false;
#elif FN == 11
	CK_RV rv = hsm->C_SignFinal(hS, pOut, nullLen ? NULL : &outLen); k.expectOp = SESSION_OP_SIGN; k.finishing = true; k.needsReauthClear = true;
#elif FN == 12
	CK_RV rv = hsm->C_Verify(hS, pIn, inLen, pOut, outLen); k.expectOp = SESSION_OP_VERIFY; k.finishing = true; k.hasOut = false;
#elif FN == 13
	CK_RV rv = hsm->C_VerifyUpdate(hS, pIn, inLen); k.expectOp = SESSION_OP_VERIFY; k.hasOut = false;
#elif FN == 14
	CK_RV rv = hsm->C_VerifyFinal(hS, pOut, outLen); k.expectOp = SESSION_OP_VERIFY; k.finishing = true; k.hasOut = false;
#elif FN == 15   // C_FindObjects: the find operation object may be absent (C_FindObjectsInit failed after setting the operation type)
	static CK_OBJECT_HANDLE got[4]; CK_ULONG n = 99; s->findOp = nondet_bool() ? FindOperation::create() : (FindOperation*)0;
	bool nullGot_ = !nondet_bool(); CK_ULONG max_ = nondet_uchar() % 4; bool nullN_ = !nondet_bool();      // (one nondet input per statement: argument evaluation order differs between clang and g++)
	CK_RV rv = hsm->C_FindObjects(hS, nullGot_ ? NULL : got, max_, nullN_ ? NULL : &n); k.expectOp = SESSION_OP_FIND; k.hasOut = false;
	if (rv == CKR_OK) { vassert(hS == env.hSession && op0 == SESSION_OP_FIND && s->findOp != 0 && n == 0); vreach(); }
#elif FN == 16
	s->findOp = nondet_bool() ? FindOperation::create() : (FindOperation*)0;
	CK_RV rv = hsm->C_FindObjectsFinal(hS); k.expectOp = SESSION_OP_FIND; k.hasOut = false; k.finishing = true;
#endif
	bool dataCalls = crypto_log.dataCalls > 0;
	// ---- a call on another / unknown session touches nothing
	if (hS != env.hSession) { vassert((rv == CKR_SESSION_HANDLE_INVALID || rv == CKR_ARGUMENTS_BAD) && !dataCalls && s->operation == op0); }
	// ---- continuing an operation that was not started
	if (hS == env.hSession && op0 != k.expectOp) { vassert(rv == CKR_OPERATION_NOT_INITIALIZED || rv == CKR_ARGUMENTS_BAD); vassert(!dataCalls); vassert(s->operation == op0 || s->operation == SESSION_OP_NONE); vreach(); }
	if (dataCalls) { vassert(hS == env.hSession && op0 == k.expectOp); if (FN < 15) vreach(); }
	if (k.hasOut)
	{
		// ---- length query and CKR_BUFFER_TOO_SMALL leave the operation active and unchanged
		if (rv == CKR_OK && pOut == NULL_PTR) { vassert(s->operation == op0 && !dataCalls && !nullLen); vassert(s->reAuthentication == reauth0); vreach(); }
		if (rv == CKR_BUFFER_TOO_SMALL) { vassert(s->operation == op0 && !dataCalls); vassert(outLen > announced); vreach(); }
		// ---- never more bytes than announced, never more than reported
		if (pOut) { for (int i = 0; i < OUTCAP; i++) if ((CK_ULONG)i >= announced) vassert(out[i] == canary[i]); }
		if (rv == CKR_OK && pOut) { vassert(outLen <= announced); for (int i = 0; i < OUTCAP; i++) if ((CK_ULONG)i >= outLen) vassert(out[i] == canary[i]); vreach(); }
		if (rv != CKR_OK && rv != CKR_BUFFER_TOO_SMALL && pOut) for (int i = 0; i < OUTCAP; i++) vassert(out[i] == canary[i] || rv == CKR_OK);
	}
	// ---- an operation that finished or failed is gone
	if (hS == env.hSession && op0 == k.expectOp && k.finishing && !(rv == CKR_OK && k.hasOut && pOut == NULL_PTR) && rv != CKR_BUFFER_TOO_SMALL && rv != CKR_ARGUMENTS_BAD && rv != CKR_USER_NOT_LOGGED_IN
	    && rv != CKR_FUNCTION_NOT_SUPPORTED && !(rv == CKR_OPERATION_NOT_INITIALIZED && !multi0))   // multi-part call on a single-part-only operation: refused without running, operation stays
	{ vassert(s->operation == SESSION_OP_NONE); vreach(); }
	if (hS == env.hSession && op0 == k.expectOp && !k.finishing && rv != CKR_OK && rv != CKR_BUFFER_TOO_SMALL && rv != CKR_ARGUMENTS_BAD && rv != CKR_FUNCTION_NOT_SUPPORTED && !(rv == CKR_OPERATION_NOT_INITIALIZED && !multi0) && FN != 15) { vassert(s->operation == SESSION_OP_NONE); vreach(); }
	if (hS == env.hSession && op0 == k.expectOp && !k.finishing && (rv == CKR_OK || rv == CKR_BUFFER_TOO_SMALL)) vassert(s->operation == op0);
	// ---- C07: no private-key output before the context-specific login
	if (k.needsReauthClear && reauth0 && hS == env.hSession && op0 == k.expectOp && s->asymmetricCryptoOp == &model_asym && !s->symmetricCryptoOp && !s->macOp) { vassert(rv != CKR_OK || pOut == NULL_PTR); vassert(!dataCalls); if (pOut) for (int i = 0; i < OUTCAP; i++) vassert(out[i] == canary[i]); vreach(); }
	vreach();
}
