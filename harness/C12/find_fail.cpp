// C12 - "an operation that failed is gone" for C_FindObjectsInit: one CONCRETE private token object with an encrypted label, the
// user logged in, a template naming the label with a symbolic 1-byte value; decryption of the stored label succeeds or fails
// (symbolic: e.g. a corrupted attribute).  After a failing C_FindObjectsInit the session has no active operation and a new
// C_FindObjectsInit / C_DigestInit is not answered with CKR_OPERATION_ACTIVE.
#include "entry_env.h"
#define private public
#include "FindOperation.h"
#undef private
static bool decryptFails;
extern "C" {
void stub_token_getObjects(Token*, std::set<OSObject*>& out) { out.insert(&env.obj[0]); }
void stub_sos_getObjects(SessionObjectStore*, CK_SLOT_ID slot, std::set<OSObject*>& out) {}
bool det_token_decrypt(Token*, const ByteString& in, ByteString& out) { store_log.decrypts++; if (decryptFails || in.size() == 0 || in.const_byte_str()[0] != ENC_TAG) return false; out.resize(in.size() - 1); for (size_t i = 1; i < in.size(); i++) out[i - 1] = in.const_byte_str()[i]; return true; }
}
extern "C" void harness(void)
{
	env_init(0, 0);
	env.sdm->soLoggedIn = false; env.sdm->userLoggedIn = true; env.session->operation = SESSION_OP_NONE; env.session->isReadWrite = true;
	SymObject& o = env.obj[0];
	o.valid = true; o.has_PRIVATE = true; o.b_PRIVATE = true; o.has_TOKEN = true; o.b_TOKEN = true; o.has_LABEL = true; o.s_LABEL.resize(2); o.s_LABEL[0] = ENC_TAG; o.s_LABEL[1] = 'k';
	decryptFails = nondet_bool();
	static CK_ATTRIBUTE tmpl[1]; static unsigned char v[1]; v[0] = nondet_uchar(); tmpl[0].type = CKA_LABEL; tmpl[0].pValue = v; tmpl[0].ulValueLen = 1;
	CK_RV rv = env.hsm->C_FindObjectsInit(env.hSession, tmpl, 1);
	if (decryptFails) { vassert(rv != CKR_OK); vreach(); }
	if (rv != CKR_OK)
	{
		vassert(env.session->operation == SESSION_OP_NONE);                   // the failed operation is gone
		vreach();
	}
	else
	{
		vassert(env.session->operation == SESSION_OP_FIND && env.session->findOp != 0);
		vassert(env.session->findOp->_handles.size() == (v[0] == 'k' ? 1u : 0u));     // matches exactly when the decrypted label equals the template value
		vreach();
	}
}
