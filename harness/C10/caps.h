// Container capacities of the C10 harnesses (force-included into every TU of an obligation).
#ifndef C10_CAPS_H
#define C10_CAPS_H
#include "vstl_common.h"
#ifndef BS_CAP
#define BS_CAP 10
#endif
template<> struct vstl_vec_cap<unsigned char> { enum { value = BS_CAP }; };          // ByteString
#endif
