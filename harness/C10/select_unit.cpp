// C10 - mechanism-to-algorithm mapping inside the OpenSSL back end: which EVP cipher / digest the real classes select.
// Real OSSLAES::getCipher / OSSLDES::getCipher (OSSLAES.cpp, OSSLDES.cpp), OSSLHMAC*::getEVPHash / getMacSize (OSSLHMAC.cpp),
// OSSLCMAC*::getEVPCipher / getMacSize (OSSLCMAC.cpp) for EVERY key bit length (all 2^64 values) and every SymMode value.
// Every EVP_aes_* / EVP_des_* / EVP_<digest> getter is a model that returns a descriptor (family, key bits, mode resp. digest
// size from FIPS 180-4 / RFC 1321); the reference table below is written from PKCS#11 v2.40 mechanisms + FIPS 197 / SP 800-67.
#include "venv.h"
#include "caps.h"
#define private public
#define protected public
#include "OSSLAES.h"
#include "OSSLDES.h"
#include "OSSLHMAC.h"
#include "OSSLCMAC.h"
#undef private
#undef protected
#include <stdarg.h>
void softHSMLog(const int, const char*, const char*, const int, const char*, ...) {}
enum { F_AES = 1, F_DES = 2, F_DES_EDE = 3, F_DES_EDE3 = 4 };
struct evp_cipher_st { int family; int keyBits; int mode; };
struct evp_md_st { int id; int size; };
#define CIPHER(fn, fam, bits, mode) static evp_cipher_st d_##fn = { fam, bits, mode }; extern "C" const EVP_CIPHER* fn(void) { return &d_##fn; }
#define AES_SET(bits) CIPHER(EVP_aes_##bits##_cbc, F_AES, bits, SymMode::CBC) CIPHER(EVP_aes_##bits##_ecb, F_AES, bits, SymMode::ECB) \
	CIPHER(EVP_aes_##bits##_ctr, F_AES, bits, SymMode::CTR) CIPHER(EVP_aes_##bits##_gcm, F_AES, bits, SymMode::GCM)
AES_SET(128) AES_SET(192) AES_SET(256)
CIPHER(EVP_des_cbc, F_DES, 56, SymMode::CBC) CIPHER(EVP_des_ecb, F_DES, 56, SymMode::ECB) CIPHER(EVP_des_ofb, F_DES, 56, SymMode::OFB) CIPHER(EVP_des_cfb64, F_DES, 56, SymMode::CFB)
CIPHER(EVP_des_ede_cbc, F_DES_EDE, 112, SymMode::CBC) CIPHER(EVP_des_ede_ecb, F_DES_EDE, 112, SymMode::ECB) CIPHER(EVP_des_ede_ofb, F_DES_EDE, 112, SymMode::OFB) CIPHER(EVP_des_ede_cfb64, F_DES_EDE, 112, SymMode::CFB)
CIPHER(EVP_des_ede3_cbc, F_DES_EDE3, 168, SymMode::CBC) CIPHER(EVP_des_ede3_ecb, F_DES_EDE3, 168, SymMode::ECB) CIPHER(EVP_des_ede3_ofb, F_DES_EDE3, 168, SymMode::OFB) CIPHER(EVP_des_ede3_cfb64, F_DES_EDE3, 168, SymMode::CFB)
#define DIGEST(fn, id, size) static evp_md_st d_##fn = { id, size }; extern "C" const EVP_MD* fn(void) { return &d_##fn; }
DIGEST(EVP_md5, 5, 16) DIGEST(EVP_sha1, 1, 20) DIGEST(EVP_sha224, 224, 28) DIGEST(EVP_sha256, 256, 32) DIGEST(EVP_sha384, 384, 48) DIGEST(EVP_sha512, 512, 64)

VRAW(OSSLAES, aes, ) VRAW(OSSLDES, des, ) VRAW(OSSLCMACDES, cmacdes, ) VRAW(OSSLCMACAES, cmacaes, )
VRAW(OSSLHMACMD5, hmd5, ) VRAW(OSSLHMACSHA1, hsha1, ) VRAW(OSSLHMACSHA224, hsha224, ) VRAW(OSSLHMACSHA256, hsha256, ) VRAW(OSSLHMACSHA384, hsha384, ) VRAW(OSSLHMACSHA512, hsha512, )
#define HMAC_OK(obj, cls, idv, sz) { const EVP_MD* md = obj.cls::getEVPHash(); vassert(md != 0 && md->id == idv && md->size == sz && obj.cls::getMacSize() == sz); }

extern "C" void harness(void)
{
	static SymmetricKey key;
	unsigned long bits = nondet_ulong(); key.setBitLen(bits);
	int mode = nondet_uchar() % 8;
	// ---- AES: 128/192/256-bit keys x CBC, ECB, CTR, GCM; anything else has no cipher
	vraw_aes.currentKey = &key; vraw_aes.currentCipherMode = (SymMode::Type)mode;
	const EVP_CIPHER* c = vraw_aes.OSSLAES::getCipher();
	bool aesOk = (bits == 128 || bits == 192 || bits == 256) && (mode == SymMode::CBC || mode == SymMode::ECB || mode == SymMode::CTR || mode == SymMode::GCM);
	vassert((c != 0) == aesOk);
	if (c) { vassert(c->family == F_AES && (unsigned long)c->keyBits == bits && c->mode == mode); vreach(); }
	vassert(vraw_aes.OSSLAES::getBlockSize() == 16);
	vraw_aes.currentKey = 0; vassert(vraw_aes.OSSLAES::getCipher() == 0);
	// ---- DES: 56 (single), 112 (two-key EDE), 168 (three-key EDE3) x CBC, ECB, OFB, CFB
	vraw_des.currentKey = &key; vraw_des.currentCipherMode = (SymMode::Type)mode;
	c = vraw_des.OSSLDES::getCipher();
	bool desOk = (bits == 56 || bits == 112 || bits == 168) && (mode == SymMode::CBC || mode == SymMode::ECB || mode == SymMode::OFB || mode == SymMode::CFB);
	vassert((c != 0) == desOk);
	if (c) { vassert(c->family == (bits == 56 ? F_DES : bits == 112 ? F_DES_EDE : F_DES_EDE3) && (unsigned long)c->keyBits == bits && c->mode == mode); vreach(); }
	vassert(vraw_des.OSSLDES::getBlockSize() == 8);
	// ---- CMAC: the CBC cipher of the key's size; MAC size = block size
	vraw_cmacaes.currentKey = &key;
	c = vraw_cmacaes.OSSLCMACAES::getEVPCipher();
	vassert((c != 0) == (bits == 128 || bits == 192 || bits == 256));
	if (c) { vassert(c->family == F_AES && (unsigned long)c->keyBits == bits && c->mode == SymMode::CBC); vreach(); }
	vassert(vraw_cmacaes.OSSLCMACAES::getMacSize() == 16);
	vraw_cmacdes.currentKey = &key;
	c = vraw_cmacdes.OSSLCMACDES::getEVPCipher();
	vassert((c != 0) == (bits == 112 || bits == 168));
	if (c) { vassert(c->family == (bits == 112 ? F_DES_EDE : F_DES_EDE3) && c->mode == SymMode::CBC); vreach(); }
	vassert(vraw_cmacdes.OSSLCMACDES::getMacSize() == 8);
	// ---- HMAC: the digest of the mechanism; MAC size = digest size
	HMAC_OK(vraw_hmd5, OSSLHMACMD5, 5, 16) HMAC_OK(vraw_hsha1, OSSLHMACSHA1, 1, 20) HMAC_OK(vraw_hsha224, OSSLHMACSHA224, 224, 28)
	HMAC_OK(vraw_hsha256, OSSLHMACSHA256, 256, 32) HMAC_OK(vraw_hsha384, OSSLHMACSHA384, 384, 48) HMAC_OK(vraw_hsha512, OSSLHMACSHA512, 512, 64)
	vreach();
}
