// C10 - functional model of the OpenSSL EVP cipher C API and of the few BN_* functions used by the real
// OSSLEVPSymmetricAlgorithm.cpp (the arithmetic of AES/DES/GCM is binary code, outside the claim).
//
// The model cipher is a position-dependent xor stream: byte j of the output = byte j of the input xor ks(K, j) where K is
// derived from every key byte, every IV byte (position-weighted) and the IV length.  On top of that it keeps the BUFFERING
// and CONTROL contract of the EVP API (OpenSSL 3.0 manual page EVP_EncryptInit(3)):
//   block modes (ECB, CBC)  Update emits only complete blocks and keeps the rest; EncryptFinal emits the PKCS#7 padding block
//                           when padding is on, otherwise fails unless the buffer is empty; DecryptUpdate with padding holds
//                           the last complete block back; DecryptFinal checks and strips the padding, fails on a partial block
//   stream modes (CTR, CFB, OFB, GCM)  Update emits every byte at once, Final emits nothing
//   GCM   cipher first, EVP_CTRL_GCM_SET_IVLEN, then key + IV; AAD = Update with out == NULL before any data; encrypt: the
//         tag (a function of K, AAD, AAD length, every ciphertext byte with its position, ciphertext length) is available through
//         EVP_CTRL_GCM_GET_TAG after EncryptFinal; decrypt: the expected tag is installed with EVP_CTRL_GCM_SET_TAG and
//         DecryptFinal returns 0 unless it equals the computed tag in every one of its bytes
//   *outl on entry is what the caller states as the size of its output buffer (OpenSSL does not read it): the model flags an
//         `overrun` when it has to produce more than that (the real primitive would write beyond the buffer)
// Ghost state: every data byte handed in (in order), key / IV / AAD / tag bytes and lengths, padding flag, call counters,
// `badctx` (call with a NULL / freed / not initialised context or in the wrong direction / order).
// Allocation failure of *_new is not modelled.
#ifndef C10_EVP_MODEL_H
#define C10_EVP_MODEL_H
#include "venv.h"
#include <openssl/evp.h>
#include <openssl/bn.h>
#include <openssl/err.h>
#ifndef BLK
#define BLK 4                 // block size of the model cipher
#endif
#ifndef EVP_RECORD_INPUT
#define EVP_RECORD_INPUT 0          // 1: keep a copy of every data byte handed in (GCM decrypt obligation)
#endif
#ifndef INCAP
#define INCAP 10              // ghost record of the data bytes handed to the primitive
#endif
#ifndef AADCAP
#define AADCAP 3
#endif
#ifndef TAGCAP
#define TAGCAP 3
#endif
enum { KEYLEN = 2, IVCAP = BLK };
enum { EK_BLOCK = 0, EK_STREAM = 1, EK_GCM = 2 };
struct evp_cipher_st { int kind; int mode; int ivlen; };
struct evp_cipher_ctx_st {
	bool live, enc, haveKey, haveIv, padding, finalised, tagSet, dataSeen;
	const evp_cipher_st* cipher;
	unsigned char key[KEYLEN], iv[IVCAP]; size_t ivlen; unsigned char K;
	unsigned char aad[AADCAP]; size_t aadlen;
	unsigned char buf[BLK]; size_t nbuf;          // bytes kept inside the primitive
	unsigned char in[INCAP]; size_t nin;          // ghost: data bytes handed in
	size_t pos; unsigned char fold;               // stream position; running fold of the ciphertext
	unsigned char tag[TAGCAP]; size_t taglen;     // expected tag installed by SET_TAG
};
struct EvpGhost {
	unsigned long nNew, nFree, nInit, nCtrl, nUpdate, nAad, nFinal, dataCalls;   // dataCalls = Update(with out) + Final
	bool badctx, overflow, overrun;
	bool failInit, failUpdate, failFinal;
	int lastPadding;
};
static EvpGhost eg;
static evp_cipher_ctx_st evp_pool[2];

// ---- the functions of the model cipher (also used by the harness as the reference on the WHOLE message)
static inline unsigned char ref_K(const unsigned char* key, const unsigned char* iv, size_t ivlen)
{
	unsigned char k = (unsigned char)(key[0] ^ (unsigned char)(3 * key[1]) ^ (unsigned char)(31 * ivlen));
	for (size_t i = 0; i < IVCAP; i++) if (i < ivlen) k = (unsigned char)(k + (unsigned char)(iv[i] * (2 * i + 1)));
	return k;
}
static inline unsigned char ref_ks(unsigned char K, size_t j) { return (unsigned char)(K ^ (unsigned char)(29 * j + 7)); }
static inline unsigned char ref_fold(const unsigned char* x, size_t n, size_t cap) { unsigned char f = 0; for (size_t i = 0; i < cap; i++) if (i < n) f = (unsigned char)(f + (unsigned char)(x[i] * (2 * i + 1))); return f; }
static inline unsigned char ref_tag(unsigned char K, unsigned char aadFold, size_t aadlen, unsigned char ctFold, size_t ctlen, size_t i)
{ return (unsigned char)(K ^ aadFold ^ (unsigned char)(59 * aadlen) ^ ctFold ^ (unsigned char)(5 * ctlen) ^ (unsigned char)(13 * i + 1)); }

static inline bool evp_ok(EVP_CIPHER_CTX* c) { if (!c || !c->live) { eg.badctx = true; return false; } return true; }
static inline void evp_setK(EVP_CIPHER_CTX* c) { if (c->haveKey && (c->haveIv || c->ivlen == 0)) c->K = ref_K(c->key, c->iv, c->ivlen); }
static inline unsigned char evp_xform(EVP_CIPHER_CTX* c, unsigned char b)
{
	unsigned char o = (unsigned char)(b ^ ref_ks(c->K, c->pos)); unsigned char ct = c->enc ? o : b;
	c->fold = (unsigned char)(c->fold + (unsigned char)(ct * (2 * c->pos + 1))); c->pos++; return o;
}
static inline int evp_init(EVP_CIPHER_CTX* c, const EVP_CIPHER* cipher, const unsigned char* key, const unsigned char* iv, bool enc, bool reset)
{
	eg.nInit++;
	if (!evp_ok(c)) return 0;
	if (eg.failInit) return 0;
	if (cipher)
	{
		if (reset || c->cipher != cipher) { c->haveKey = false; c->haveIv = false; c->padding = true; c->aadlen = 0; c->tagSet = false; c->taglen = 0; }
		c->cipher = cipher; c->ivlen = (size_t)cipher->ivlen;
	}
	if (!c->cipher) { eg.badctx = true; return 0; }
	c->enc = enc; c->nbuf = 0; c->nin = 0; c->pos = 0; c->fold = 0; c->finalised = false; c->dataSeen = false;
	if (key) { for (size_t i = 0; i < KEYLEN; i++) c->key[i] = key[i]; c->haveKey = true; }
	if (iv)
	{
		if (c->ivlen > IVCAP) { eg.overflow = true; return 0; }      // e.g. GCM default IV length (12) because SET_IVLEN was not called
		for (size_t i = 0; i < IVCAP; i++) if (i < c->ivlen) c->iv[i] = iv[i];
		c->haveIv = true;
	}
	evp_setK(c);
	return 1;
}
static inline void evp_flush(EVP_CIPHER_CTX* c, unsigned char* out, size_t cap, size_t* produced)
{
	for (size_t k = 0; k < BLK; k++) { unsigned char o = evp_xform(c, c->buf[k]); if (*produced < cap) out[*produced] = o; else eg.overrun = true; (*produced)++; }
	c->nbuf = 0;
}
static inline int evp_update(EVP_CIPHER_CTX* c, unsigned char* out, int* outl, const unsigned char* in, int inl, bool enc)
{
	eg.nUpdate++;
	if (!evp_ok(c)) return 0;
	if (!c->cipher || !c->haveKey || !(c->haveIv || c->ivlen == 0) || c->enc != enc || c->finalised || inl < 0 || !outl) { eg.badctx = true; return 0; }
	if (out == NULL)
	{	// additional authenticated data
		eg.nAad++;
		if (c->cipher->kind != EK_GCM || c->dataSeen) { eg.badctx = true; return 0; }
		if (eg.failUpdate) return 0;
		for (size_t i = 0; i < AADCAP + 1; i++) if (i < (size_t)inl) { if (c->aadlen < AADCAP) { c->aad[c->aadlen] = in[i]; c->aadlen++; } else eg.overflow = true; }
		if ((size_t)inl > AADCAP + 1) eg.overflow = true;
		*outl = inl; return 1;
	}
	eg.dataCalls++;
	if (eg.failUpdate) return 0;
	size_t cap = *outl < 0 ? 0 : (size_t)*outl, produced = 0;
	bool lazy = !c->enc && c->padding;
	c->dataSeen = true;
	for (size_t i = 0; i < INCAP + 1; i++) if (i < (size_t)inl)
	{
		unsigned char b = in[i];
#if EVP_RECORD_INPUT
		if (c->nin < INCAP) c->in[c->nin] = b; else eg.overflow = true;
#endif
		c->nin++;
		if (c->cipher->kind == EK_BLOCK)
		{
			if (lazy && c->nbuf == BLK) evp_flush(c, out, cap, &produced);
			c->buf[c->nbuf] = b; c->nbuf++;
			if (!lazy && c->nbuf == BLK) evp_flush(c, out, cap, &produced);
		}
		else { unsigned char o = evp_xform(c, b); if (produced < cap) out[produced] = o; else eg.overrun = true; produced++; }
	}
	if ((size_t)inl > INCAP + 1) eg.overflow = true;
	*outl = (int)produced; return 1;
}
static inline int evp_final(EVP_CIPHER_CTX* c, unsigned char* out, int* outl, bool enc)
{
	eg.nFinal++; eg.dataCalls++;
	if (!evp_ok(c)) return 0;
	if (!c->cipher || !c->haveKey || !(c->haveIv || c->ivlen == 0) || c->enc != enc || c->finalised || !outl) { eg.badctx = true; return 0; }
	if (eg.failFinal) return 0;
	size_t cap = *outl < 0 ? 0 : (size_t)*outl, produced = 0;
	c->finalised = true;
	if (c->cipher->kind == EK_BLOCK)
	{
		if (!c->padding) { if (c->nbuf != 0) return 0; }                      // "data not multiple of block length" / "wrong final block length"
		else if (enc)
		{
			unsigned char p = (unsigned char)(BLK - c->nbuf);
			for (size_t k = 0; k < BLK; k++) if (k >= c->nbuf) c->buf[k] = p;
			evp_flush(c, out, cap, &produced);
		}
		else
		{
			if (c->nbuf != BLK) return 0;
			unsigned char t[BLK]; for (size_t k = 0; k < BLK; k++) t[k] = evp_xform(c, c->buf[k]);
			unsigned char p = t[BLK - 1]; if (p == 0 || p > BLK) return 0;
			for (size_t k = 0; k < BLK; k++) if (k >= (size_t)(BLK - p) && t[k] != p) return 0;
			for (size_t k = 0; k < BLK; k++) if (k < (size_t)(BLK - p)) { if (produced < cap) out[produced] = t[k]; else eg.overrun = true; produced++; }
			c->nbuf = 0;
		}
	}
	else if (c->cipher->kind == EK_GCM && !enc)
	{
		if (!c->tagSet) return 0;
		unsigned char af = ref_fold(c->aad, c->aadlen, AADCAP);
		for (size_t i = 0; i < TAGCAP; i++) if (i < c->taglen && c->tag[i] != ref_tag(c->K, af, c->aadlen, c->fold, c->pos, i)) return 0;
	}
	*outl = (int)produced; return 1;
}
extern "C" {
EVP_CIPHER_CTX* EVP_CIPHER_CTX_new(void)
{
	evp_cipher_ctx_st* c = &evp_pool[eg.nNew & 1]; eg.nNew++;
	c->live = true; c->cipher = 0; c->haveKey = false; c->haveIv = false; c->padding = true; c->finalised = false; c->tagSet = false; c->dataSeen = false;
	c->nbuf = 0; c->nin = 0; c->pos = 0; c->fold = 0; c->aadlen = 0; c->taglen = 0; c->ivlen = 0;
	return c;
}
void EVP_CIPHER_CTX_free(EVP_CIPHER_CTX* c) { if (c) { if (!c->live) eg.badctx = true; c->live = false; eg.nFree++; } }
int EVP_EncryptInit(EVP_CIPHER_CTX* c, const EVP_CIPHER* ci, const unsigned char* key, const unsigned char* iv) { return evp_init(c, ci, key, iv, true, true); }
int EVP_DecryptInit(EVP_CIPHER_CTX* c, const EVP_CIPHER* ci, const unsigned char* key, const unsigned char* iv) { return evp_init(c, ci, key, iv, false, true); }
int EVP_EncryptInit_ex(EVP_CIPHER_CTX* c, const EVP_CIPHER* ci, ENGINE* e, const unsigned char* key, const unsigned char* iv) { return evp_init(c, ci, key, iv, true, false); }
int EVP_DecryptInit_ex(EVP_CIPHER_CTX* c, const EVP_CIPHER* ci, ENGINE* e, const unsigned char* key, const unsigned char* iv) { return evp_init(c, ci, key, iv, false, false); }
int EVP_CIPHER_CTX_set_padding(EVP_CIPHER_CTX* c, int pad) { if (!evp_ok(c)) return 0; c->padding = pad != 0; eg.lastPadding = pad; return 1; }
int EVP_CIPHER_CTX_ctrl(EVP_CIPHER_CTX* c, int type, int arg, void* ptr)
{
	eg.nCtrl++;
	if (!evp_ok(c)) return 0;
	if (!c->cipher || c->cipher->kind != EK_GCM) { eg.badctx = true; return 0; }
	if (type == EVP_CTRL_GCM_SET_IVLEN) { if (arg <= 0) return 0; c->ivlen = (size_t)arg; return 1; }
	if (type == EVP_CTRL_GCM_GET_TAG)
	{
		if (!c->enc || !c->finalised || arg <= 0 || arg > 16 || !ptr) { eg.badctx = true; return 0; }
		if (arg > TAGCAP) { eg.overflow = true; return 0; }
		unsigned char af = ref_fold(c->aad, c->aadlen, AADCAP);
		for (size_t i = 0; i < TAGCAP; i++) if (i < (size_t)arg) ((unsigned char*)ptr)[i] = ref_tag(c->K, af, c->aadlen, c->fold, c->pos, i);
		return 1;
	}
	if (type == EVP_CTRL_GCM_SET_TAG)
	{
		if (c->enc || arg <= 0 || arg > 16 || !ptr) { eg.badctx = true; return 0; }
		if (arg > TAGCAP) { eg.overflow = true; return 0; }
		for (size_t i = 0; i < TAGCAP; i++) if (i < (size_t)arg) c->tag[i] = ((const unsigned char*)ptr)[i];
		c->taglen = (size_t)arg; c->tagSet = true; return 1;
	}
	eg.badctx = true; return 0;
}
int EVP_EncryptUpdate(EVP_CIPHER_CTX* c, unsigned char* out, int* outl, const unsigned char* in, int inl) { return evp_update(c, out, outl, in, inl, true); }
int EVP_DecryptUpdate(EVP_CIPHER_CTX* c, unsigned char* out, int* outl, const unsigned char* in, int inl) { return evp_update(c, out, outl, in, inl, false); }
int EVP_EncryptFinal(EVP_CIPHER_CTX* c, unsigned char* out, int* outl) { return evp_final(c, out, outl, true); }
int EVP_DecryptFinal(EVP_CIPHER_CTX* c, unsigned char* out, int* outl) { return evp_final(c, out, outl, false); }
unsigned long ERR_get_error(void) { return 0; }
char* ERR_error_string(unsigned long e, char* buf) { static char none[1]; return none; }
}

// ---------------------------------------------------------------- BIGNUM over 64-bit integers
// Values stay below 2^64 in the harness bounds (IV <= BLK bytes, counter <= 8 bits); an operation that would leave the
// range sets bn_ghost.range.  Contract: OpenSSL 3.0 BN_* manual pages (BN_mask_bits: truncate to n bits, 0 return if the
// number is already shorter; BN_clear_bit: 0 return if the bit is beyond the number; BN_free(NULL) is a no-op).
struct bignum_st { unsigned long v; bool live; };
struct BnGhost { unsigned long nAlloc, nFree; bool range, bad; };
static BnGhost bn_ghost;
enum { BNPOOL = 8 };
static bignum_st bn_pool[BNPOOL];
static inline BIGNUM* bn_alloc(void) { if (bn_ghost.nAlloc >= BNPOOL) { vstl_capacity_exceeded(); return 0; } bignum_st* b = &bn_pool[bn_ghost.nAlloc]; bn_ghost.nAlloc++; b->live = true; b->v = 0; return b; }
static inline bool bn_ok(const BIGNUM* a) { if (!a || !a->live) { bn_ghost.bad = true; return false; } return true; }
extern "C" {
BIGNUM* BN_new(void) { return bn_alloc(); }
void BN_free(BIGNUM* a) { if (a) { if (!a->live) bn_ghost.bad = true; a->live = false; bn_ghost.nFree++; } }
BIGNUM* BN_bin2bn(const unsigned char* s, int len, BIGNUM* ret)
{
	if (!ret) ret = bn_alloc(); if (!ret) return 0;
	if (len < 0 || len > 8) { bn_ghost.range = true; len = 8; }
	unsigned long v = 0; for (int i = 0; i < 8; i++) if (i < len) v = (v << 8) | s[i];
	ret->v = v; return ret;
}
int BN_mask_bits(BIGNUM* a, int n) { if (!bn_ok(a) || n < 0) return 0; if (n >= 64) return 0; if ((a->v >> n) == 0) return 0; a->v &= (1UL << n) - 1; return 1; }
int BN_is_bit_set(const BIGNUM* a, int n) { if (!bn_ok(a) || n < 0 || n >= 64) return 0; return (int)((a->v >> n) & 1); }
int BN_set_bit(BIGNUM* a, int n) { if (!bn_ok(a) || n < 0) return 0; if (n >= 64) { bn_ghost.range = true; return 0; } a->v |= 1UL << n; return 1; }
int BN_clear_bit(BIGNUM* a, int n) { if (!bn_ok(a) || n < 0) return 0; if (n >= 64 || (a->v >> n) == 0) return 0; a->v &= ~(1UL << n); return 1; }
int BN_add_word(BIGNUM* a, BN_ULONG w) { if (!bn_ok(a)) return 0; if (a->v + w < a->v) bn_ghost.range = true; a->v += w; return 1; }
int BN_mul_word(BIGNUM* a, BN_ULONG w) { if (!bn_ok(a)) return 0; if (w != 0 && a->v > 0xFFFFFFFFFFFFFFFFUL / w) bn_ghost.range = true; a->v *= w; return 1; }
int BN_set_word(BIGNUM* a, BN_ULONG w) { if (!bn_ok(a)) return 0; a->v = w; return 1; }
void BN_zero_ex(BIGNUM* a) { if (bn_ok(a)) a->v = 0; }
BIGNUM* BN_copy(BIGNUM* to, const BIGNUM* from) { if (!bn_ok(to) || !bn_ok(from)) return 0; to->v = from->v; return to; }
int BN_cmp(const BIGNUM* a, const BIGNUM* b) { if (!bn_ok(a) || !bn_ok(b)) return 0; return a->v < b->v ? -1 : (a->v > b->v ? 1 : 0); }
}
#endif
