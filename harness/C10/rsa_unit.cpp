// C10 - soundness of single-part RSA verification and the default single-part composition.  -DOP:
//  0  real OSSLRSA::verify for CKM_RSA_PKCS (AsymMech::RSA_PKCS) and raw RSA (AsymMech::RSA) over a model of RSA_public_decrypt:
//     accepted iff the primitive succeeds AND the recovered data has exactly the length of the expected data AND equals it in every
//     byte; the primitive receives exactly the caller's signature (every byte, the full length), the given key and the padding mode
//     of the mechanism; a key of another type is refused before the primitive is reached
//  1  real AsymmetricAlgorithm::sign / verify (the default single-part implementations used by DSA, ECDSA, EdDSA and the hashing
//     RSA mechanisms) = init(key, mechanism, param) && update(whole data, once) && final(signature), short-circuit, with exactly
//     the caller's arguments: single-part == multi-part with one part
//
// Contract of the primitive (OpenSSL 3.0 manual page RSA_private_encrypt(3)): RSA_public_decrypt(flen, from, to, rsa, padding)
// returns -1 on error (flen larger than the modulus, malformed padding ...), otherwise the length r of the recovered data
// (RSA_NO_PADDING: r = RSA_size; RSA_PKCS1_PADDING: r <= RSA_size - 11, here any r < N) written to to[0, r); the rest of the
// buffer is unspecified.  The recovered bytes are symbolic (what the arithmetic yields is outside the claim).
// The key wrapper class OSSLRSAPublicKey is not under test: its members are trivial bodies defined here.
#include "venv.h"
#include "caps.h"
#ifndef NMOD
#define NMOD 4                 // modulus length in bytes
#endif
#define private public
#define protected public
#include "OSSLRSA.h"
#include "OSSLRSAPublicKey.h"
#undef private
#undef protected
#include <openssl/rsa.h>
#include <openssl/err.h>
#include <stdarg.h>
void softHSMLog(const int, const char*, const char*, const int, const char*, ...) {}

#if OP == 0
struct rsa_st { int id; };
static rsa_st model_rsa;
struct RsaGhost {
	bool typeOk, fail; int r; unsigned char rec[NMOD], junk[NMOD];
	unsigned long calls; int flen; unsigned char from[BS_CAP]; RSA* key; int padding;
};
static RsaGhost rg;
OSSLRSAPublicKey::OSSLRSAPublicKey() { rsa = 0; }
OSSLRSAPublicKey::~OSSLRSAPublicKey() {}
const char* OSSLRSAPublicKey::type = "model RSA public key";
bool OSSLRSAPublicKey::isOfType(const char* t) { return rg.typeOk && t == OSSLRSAPublicKey::type; }
void OSSLRSAPublicKey::setN(const ByteString& b) { RSAPublicKey::setN(b); }
void OSSLRSAPublicKey::setE(const ByteString& b) { RSAPublicKey::setE(b); }
void OSSLRSAPublicKey::setFromOSSL(const RSA*) {}
RSA* OSSLRSAPublicKey::getOSSLKey() { return &model_rsa; }
extern "C" {
unsigned long ERR_get_error(void) { return 0; }
int RSA_public_decrypt(int flen, const unsigned char* from, unsigned char* to, RSA* rsa, int padding)
{
	rg.calls++; rg.flen = flen; rg.key = rsa; rg.padding = padding;
	for (int i = 0; i < BS_CAP; i++) if (i < flen) rg.from[i] = from[i];
	if (flen < 0 || flen > NMOD) return -1;                      // "data greater than mod len"
	if (rg.fail) return -1;                                      // e.g. the recovered block is not correctly padded
	int r = padding == RSA_NO_PADDING ? NMOD : rg.r;
	for (int i = 0; i < NMOD; i++) to[i] = i < r ? rg.rec[i] : rg.junk[i];
	return r;
}
}
VRAW(OSSLRSA, alg, )
static OSSLRSAPublicKey pub;
extern "C" void harness(void)
{
	ByteString n; n.resize(NMOD); for (int i = 0; i < NMOD; i++) n[i] = nondet_uchar(); pub.setN(n);
	rg.typeOk = nondet_bool(); rg.fail = nondet_bool(); rg.r = nondet_uchar() % NMOD;
	for (int i = 0; i < NMOD; i++) { rg.rec[i] = nondet_uchar(); rg.junk[i] = nondet_uchar(); }
	size_t ol = nondet_uchar(), sl = nondet_uchar(); vassume(ol <= BS_CAP && sl <= BS_CAP);
	ByteString orig, sig; orig.resize(ol); sig.resize(sl);
	unsigned char ob[BS_CAP], sb[BS_CAP];
	for (size_t i = 0; i < BS_CAP; i++) { ob[i] = nondet_uchar(); sb[i] = nondet_uchar(); if (i < ol) orig[i] = ob[i]; if (i < sl) sig[i] = sb[i]; }
	const bool raw = nondet_bool();
	const AsymMech::Type mech = raw ? AsymMech::RSA : AsymMech::RSA_PKCS;
	bool ok = vraw_alg.OSSLRSA::verify(&pub, orig, sig, mech, NULL, 0);
	if (!rg.typeOk) { vassert(!ok && rg.calls == 0); vreach(); return; }
	// the primitive saw exactly the caller's signature, the given key, the padding of the mechanism
	vassert(rg.calls == 1 && rg.key == &model_rsa && rg.flen == (int)sl);
	vassert(rg.padding == (raw ? RSA_NO_PADDING : RSA_PKCS1_PADDING));
	for (size_t i = 0; i < BS_CAP; i++) if (i < sl) vassert(rg.from[i] == sb[i]);
	// sound and complete: recovered data == expected data, lengths included
	size_t r = raw ? NMOD : (size_t)rg.r;
	bool same = !rg.fail && sl <= NMOD && ol == r;
	for (size_t i = 0; i < NMOD; i++) if (i < ol && i < r && ob[i] != rg.rec[i]) same = false;
	vassert(ok == same);
	if (ok && raw) vreach();
	if (ok && !raw) vreach();
	if (!ok && !rg.fail && sl <= NMOD && ol == r) vreach();      // one changed byte
	if (!ok && !rg.fail && sl <= NMOD && ol + 1 == r) vreach();  // expected data is a proper prefix of the recovered data
	if (!ok && !rg.fail && sl <= NMOD && ol == r + 1) vreach();  // recovered data is a proper prefix of the expected data
}
#else
// ---- default composition
struct Call { int kind; const void* key; int mech; const void* param; size_t paramLen; size_t dataLen; unsigned char data[BS_CAP]; const void* sigAddr; };
static Call calls[4]; static unsigned ncalls; static bool rInit, rUpdate, rFinal;
static void rec(int kind, const void* key, int mech, const void* p, size_t pl, const ByteString* d, const void* sigAddr)
{
	if (ncalls < 4) { Call& c = calls[ncalls]; c.kind = kind; c.key = key; c.mech = mech; c.param = p; c.paramLen = pl; c.sigAddr = sigAddr; c.dataLen = d ? d->size() : 0;
		for (size_t i = 0; i < BS_CAP; i++) c.data[i] = (d && i < d->size()) ? d->const_byte_str()[i] : 0; }
	ncalls++;
}
class AsymUT : public AsymmetricAlgorithm {
public:
	virtual bool signInit(PrivateKey* k, const AsymMech::Type m, const void* p, const size_t pl) { rec(1, k, m, p, pl, 0, 0); return AsymmetricAlgorithm::signInit(k, m, p, pl) && rInit; }
	virtual bool signUpdate(const ByteString& d) { rec(2, 0, 0, 0, 0, &d, 0); return AsymmetricAlgorithm::signUpdate(d) && rUpdate; }
	virtual bool signFinal(ByteString& s) { rec(3, 0, 0, 0, 0, 0, &s); return AsymmetricAlgorithm::signFinal(s) && rFinal; }
	virtual bool verifyInit(PublicKey* k, const AsymMech::Type m, const void* p, const size_t pl) { rec(1, k, m, p, pl, 0, 0); return AsymmetricAlgorithm::verifyInit(k, m, p, pl) && rInit; }
	virtual bool verifyUpdate(const ByteString& d) { rec(2, 0, 0, 0, 0, &d, 0); return AsymmetricAlgorithm::verifyUpdate(d) && rUpdate; }
	virtual bool verifyFinal(const ByteString& s) { rec(3, 0, 0, 0, 0, &s, &s); return AsymmetricAlgorithm::verifyFinal(s) && rFinal; }
	virtual bool encrypt(PublicKey*, const ByteString&, ByteString&, const AsymMech::Type) { return false; }
	virtual bool decrypt(PrivateKey*, const ByteString&, ByteString&, const AsymMech::Type) { return false; }
	virtual bool generateKeyPair(AsymmetricKeyPair**, AsymmetricParameters*, RNG*) { return false; }
	virtual unsigned long getMinKeySize() { return 0; }
	virtual unsigned long getMaxKeySize() { return 0; }
	virtual bool reconstructKeyPair(AsymmetricKeyPair**, ByteString&) { return false; }
	virtual bool reconstructPublicKey(PublicKey**, ByteString&) { return false; }
	virtual bool reconstructPrivateKey(PrivateKey**, ByteString&) { return false; }
	virtual PublicKey* newPublicKey() { return 0; }
	virtual PrivateKey* newPrivateKey() { return 0; }
};
static AsymUT alg; static int keyObj, paramObj;
extern "C" void harness(void)
{
	rInit = nondet_bool(); rUpdate = nondet_bool(); rFinal = nondet_bool();
	size_t dl = nondet_uchar(), sl = nondet_uchar(); vassume(dl <= BS_CAP && sl <= BS_CAP);
	ByteString data, sig; data.resize(dl); sig.resize(sl);
	unsigned char db[BS_CAP], sb[BS_CAP];
	for (size_t i = 0; i < BS_CAP; i++) { db[i] = nondet_uchar(); sb[i] = nondet_uchar(); if (i < dl) data[i] = db[i]; if (i < sl) sig[i] = sb[i]; }
	const bool signing = nondet_bool(); const bool nullKey = nondet_bool();
	const AsymMech::Type mech = (AsymMech::Type)(nondet_uchar() % 32); const size_t pl = nondet_uchar();
	void* key = nullKey ? (void*)0 : (void*)&keyObj;
	bool ok = signing ? alg.AsymmetricAlgorithm::sign((PrivateKey*)key, data, sig, mech, &paramObj, pl) : alg.AsymmetricAlgorithm::verify((PublicKey*)key, data, sig, mech, &paramObj, pl);
	bool i = !nullKey && rInit;
	vassert(ok == (i && rUpdate && rFinal));
	vassert(ncalls == (!i ? 1u : !rUpdate ? 2u : 3u));                                   // short-circuit: nothing after a failing step
	vassert(calls[0].kind == 1 && calls[0].key == key && calls[0].mech == (int)mech && calls[0].param == &paramObj && calls[0].paramLen == pl);
	if (ncalls >= 2) { vassert(calls[1].kind == 2 && calls[1].dataLen == dl); for (size_t k = 0; k < BS_CAP; k++) if (k < dl) vassert(calls[1].data[k] == db[k]); }   // the whole data, once
	if (ncalls >= 3)
	{
		vassert(calls[2].kind == 3 && calls[2].sigAddr == &sig);                          // the caller's signature object
		if (!signing) { vassert(calls[2].dataLen == sl); for (size_t k = 0; k < BS_CAP; k++) if (k < sl) vassert(calls[2].data[k] == sb[k]); }
		vreach();
	}
	if (ok) { vassert(alg.currentOperation == AsymmetricAlgorithm::NONE); vreach(); }
	if (ncalls == 1) vreach();
}
#endif
