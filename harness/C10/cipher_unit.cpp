// C10 - symmetric cipher glue: real OSSLEVPSymmetricAlgorithm.cpp + SymmetricAlgorithm.cpp + OSSLUtil.cpp (byteString2bn) +
// ByteString.cpp + SymmetricKey.cpp over the functional EVP / BN model of evp_model.h.  The class under test is a minimal
// subclass that selects one model cipher per SymMode and has block size BLK.  -DMODE = SymMode value (concrete), -DOP:
//  0  encryptInit, <= 3 encryptUpdate with an ARBITRARY split of a message of <= MSGCAP bytes, encryptFinal: the concatenated
//     output is exactly the model ciphertext of the WHOLE message (block modes: + PKCS#7 block when padding, refusal of a partial
//     block without padding; GCM: + the tag of (key, IV, AAD, whole ciphertext) appended AFTER the ciphertext); key, IV (zero
//     block when absent), AAD, padding flag, cipher reach the primitive exactly as given; getBufferSize() == bytes held inside
//     the primitive after every call; the primitive is never asked to write more than the buffer the wrapper allocated
//  1  decryptInit, the same splits of an ARBITRARY input of <= DCAP bytes, decryptFinal (non-AEAD modes): accepted iff the model
//     accepts the whole input (block alignment, PKCS#7 padding), concatenated output == model plaintext of the whole input
//  2  GCM decrypt: no update hands data to the primitive or returns plaintext; decryptFinal refuses input shorter than the tag,
//     otherwise gives exactly the first n - tagBytes bytes to the primitive as ciphertext and installs exactly the last
//     tagBytes bytes as the expected tag; the result is the model's tag verdict; accepted => plaintext of exactly those bytes
//     (-DGCMPHASE=1 / 2 split this into 'updates, all splits: the AEAD buffer is the whole input' and 'final after one update')
//  5  CTR counter budget: checkMaximumBytes(b) is true iff (bytes processed so far) + b <= (2^counterBits - counter part of the
//     IV) * block size, i.e. an update that would wrap the counter is refused (counterBits 1..8), and true when counterBits == 0
//  6  state machine / parameter refusal: update / final without init fail and never reach the primitive; an IV that is neither
//     empty nor one block is refused for non-GCM modes before the primitive is touched; calls of the other direction and a
//     second init are refused without disturbing the running operation; after final the operation is gone, context released
#include "venv.h"
#include "caps.h"
#define private public
#define protected public
#include "OSSLEVPSymmetricAlgorithm.h"
#undef private
#undef protected
#include "evp_model.h"
#include <stdarg.h>
void softHSMLog(const int, const char*, const char*, const int, const char*, ...) {}
#ifndef MODE
#define MODE 1
#endif
#ifndef MSGCAP
#define MSGCAP 6
#endif
#ifndef FAILS
#define FAILS 0
#endif
#ifndef DIR
#define DIR 0
#endif
#ifndef TAGB
#define TAGB 0
#endif
#ifndef GCMPHASE
#define GCMPHASE 0      // OP 2: 0 = updates + final in one obligation; 1 = updates only (all splits): the AEAD buffer holds the whole input; 2 = final from ONE update
#endif
#ifdef L0
#define PINNED 1      // split shape fixed by -DL0 -DL1 -DL2
#define PTOTAL (L0 + L1 + L2)
#else
#define PINNED 0
#define PTOTAL 0
#endif
enum { DCAP = 2 * BLK, GCAP = MSGCAP + TAGCAP, OUTCAP = DCAP + 2 * BLK + TAGCAP };
#define IS_BLOCK (MODE == SymMode::CBC || MODE == SymMode::ECB)
#define IS_GCM (MODE == SymMode::GCM)
static evp_cipher_st model_ciphers[7] = { { -1, 0, 0 }, { EK_BLOCK, SymMode::CBC, BLK }, { EK_STREAM, SymMode::CFB, BLK }, { EK_STREAM, SymMode::CTR, BLK },
                                          { EK_BLOCK, SymMode::ECB, 0 }, { EK_GCM, SymMode::GCM, 12 }, { EK_STREAM, SymMode::OFB, BLK } };
class CipherUT : public OSSLEVPSymmetricAlgorithm {
public:
	virtual size_t getBlockSize() const { return BLK; }
	virtual const EVP_CIPHER* getCipher() const { if (currentCipherMode <= SymMode::Unknown || currentCipherMode > SymMode::OFB) return NULL; return &model_ciphers[currentCipherMode]; }
	virtual bool wrapKey(const SymmetricKey*, const SymWrap::Type, const ByteString&, ByteString&) { return false; }
	virtual bool unwrapKey(const SymmetricKey*, const SymWrap::Type, const ByteString&, ByteString&) { return false; }
};
static CipherUT ci; static SymmetricKey key;
static unsigned char kbytes[KEYLEN], ivb[IVCAP], aadb[AADCAP], eiv[IVCAP];
static size_t ivl, aal, tagBytes, eivlen; static bool padding;
static ByteString IV, AAD;
static size_t len[3], nparts, total;
static unsigned char all[OUTCAP]; static size_t nall;

static void choose_params(bool anyIvLen)
{
	ByteString kb; kb.resize(KEYLEN); for (size_t i = 0; i < KEYLEN; i++) { kbytes[i] = nondet_uchar(); kb[i] = kbytes[i]; }
	vassert(key.setKeyBits(kb));
	ivl = nondet_uchar(); vassume(ivl <= IVCAP);
	if (!anyIvLen && !IS_GCM) vassume(ivl == 0 || ivl == BLK);
	IV.resize(ivl); for (size_t i = 0; i < IVCAP; i++) { ivb[i] = nondet_uchar(); if (i < ivl) IV[i] = ivb[i]; }
	aal = nondet_uchar(); vassume(aal <= AADCAP);
	AAD.resize(aal); for (size_t i = 0; i < AADCAP; i++) { aadb[i] = nondet_uchar(); if (i < aal) AAD[i] = aadb[i]; }
	tagBytes = IS_GCM ? (TAGB ? TAGB : 1 + nondet_uchar() % TAGCAP) : 0;      // -DTAGB pins the tag length
	padding = nondet_bool();
	// what the primitive must see as IV: the caller's bytes, or one zero block when the caller gave none (ECB takes no IV)
	eivlen = MODE == SymMode::ECB ? 0 : (ivl ? ivl : BLK);
	for (size_t i = 0; i < IVCAP; i++) eiv[i] = ivl ? ivb[i] : 0;
}
static void choose_split(size_t cap)
{
	nparts = nondet_uchar(); vassume(nparts <= 3);
#ifdef L0
	len[0] = L0; len[1] = L1; len[2] = L2;
#else
	for (int p = 0; p < 3; p++) { len[p] = nondet_uchar(); vassume(len[p] <= cap); }
#endif
	for (size_t p = 0; p < 3; p++) if (p >= nparts) vassume(len[p] == 0);
	total = len[0] + len[1] + len[2]; vassume(total <= cap);
}
static void part(ByteString& d, const unsigned char* src, size_t cap, size_t p, size_t off) { d.resize(len[p]); for (size_t k = 0; k < cap; k++) if (k < len[p]) d[k] = src[off + k]; }
static void append(ByteString& o) { for (size_t k = 0; k < BS_CAP; k++) if (k < o.size()) { if (nall < OUTCAP) all[nall] = o[k]; nall++; } }
static bool idle() { return ci.currentOperation == SymmetricAlgorithm::NONE && ci.pCurCTX == NULL && ci.currentKey == NULL && ci.maximumBytes == NULL && ci.counterBytes == NULL && eg.nNew == eg.nFree && ci.getBufferSize() == 0; }
// the parameters reached the primitive exactly as the caller gave them
static void check_init(EVP_CIPHER_CTX* c, bool enc)
{
	vassert(c != NULL && c->live && c->cipher == &model_ciphers[MODE] && c->enc == enc && c->haveKey);
	vassert(c->padding == padding);
	for (size_t i = 0; i < KEYLEN; i++) vassert(c->key[i] == kbytes[i]);
	vassert(c->ivlen == eivlen && (eivlen == 0 || c->haveIv));
	for (size_t i = 0; i < IVCAP; i++) if (i < eivlen) vassert(c->iv[i] == eiv[i]);
	if (IS_GCM) { vassert(c->aadlen == aal && eg.nAad == (aal ? 1u : 0u)); for (size_t i = 0; i < AADCAP; i++) if (i < aal) vassert(c->aad[i] == aadb[i]); }
	else vassert(eg.nAad == 0 && eg.nCtrl == 0);
	vassert(!eg.badctx && !eg.overflow);
}

extern "C" void harness(void)
{
#if OP == 0 || OP == 1 || OP == 2
	const bool enc = OP == 0;
	static unsigned char src[GCAP > DCAP ? GCAP : DCAP];
	const size_t cap = OP == 0 ? MSGCAP : (OP == 1 ? DCAP : GCAP);
	choose_params(false); choose_split(cap);
#if OP == 2 && GCMPHASE == 2
	vassume(nparts == 1);        // decryptFinal depends on the updates only through the state asserted by phase 1
#endif
	for (size_t i = 0; i < sizeof src; i++) src[i] = nondet_uchar();
#if FAILS
	eg.failInit = nondet_bool(); eg.failUpdate = nondet_bool(); eg.failFinal = nondet_bool();   // a failing primitive: the call fails, the operation is gone, the context released
#endif
	bool ok = enc ? ci.encryptInit(&key, (SymMode::Type)MODE, IV, padding, 0, AAD, tagBytes) : ci.decryptInit(&key, (SymMode::Type)MODE, IV, padding, 0, AAD, tagBytes);
	bool initFails = eg.failInit || (IS_GCM && aal > 0 && eg.failUpdate);
	vassert(ok == !initFails);
	if (!ok) { vassert(idle()); if (FAILS) vreach(); return; }
	EVP_CIPHER_CTX* c = ci.pCurCTX;
	check_init(c, enc);
	vassert(eg.dataCalls == 0);
	const unsigned char K = ref_K(kbytes, eiv, eivlen);
	size_t off = 0;
	for (size_t p = 0; p < 3; p++) if (p < nparts)
	{
		ByteString d, o; part(d, src, cap, p, off); off += len[p]; if (nondet_bool()) o.resize(3);   // whatever the caller's buffer held before
		unsigned long calls0 = eg.dataCalls;
		ok = enc ? ci.encryptUpdate(d, o) : ci.decryptUpdate(d, o);
#if OP == 2
		vassert(ok && o.size() == 0 && eg.dataCalls == 0 && c->nin == 0);      // AEAD: nothing decrypted, nothing returned before the tag is checked
#else
		bool reaches = enc ? len[p] > 0 : true;                                // an empty encrypt part returns early
		vassert(ok == !(eg.failUpdate && reaches));
		if (!ok) { vassert(idle()); if (FAILS) vreach(); return; }
		vassert(eg.dataCalls == calls0 + (reaches ? 1 : 0));
		append(o);
		vassert(ci.getBufferSize() == c->nbuf);                                // bookkeeping used by the C_* length protocol
		vassert(c->nin == off);
#endif
	}
#if OP == 2 && GCMPHASE != 2
	// everything decryptFinal will look at is independent of the split: the buffer is the whole input, in order
	vassert(ci.currentAEADBuffer.size() == total && ci.currentBufferSize == total && ci.currentTagBytes == tagBytes && ci.currentCipherMode == SymMode::GCM && ci.currentOperation == SymmetricAlgorithm::DECRYPT && ci.pCurCTX == c);
	for (size_t j = 0; j < GCAP; j++) if (j < total && j < ci.currentAEADBuffer.size()) vassert(ci.currentAEADBuffer[j] == src[j]);
	vassert(eg.nUpdate == eg.nAad && eg.nFinal == 0 && eg.nCtrl == 1 && c->live && !c->tagSet);
#if GCMPHASE == 1
	vreach();
	if (total == GCAP && nparts == 3 && len[1] == 0) vreach();
	return;
#endif
#endif
#if OP == 0
	ByteString fin; if (nondet_bool()) fin.resize(3);
	ok = ci.encryptFinal(fin);
	bool partial = IS_BLOCK && !padding && total % BLK != 0;
	vassert(ok == !(eg.failFinal || partial)); vassert(idle()); vassert(!eg.badctx && !eg.overflow && !eg.overrun);
	vassert(c->nin == total);                                              // every byte once (order: the model output is position-dependent)
	if (ok)
	{
		append(fin);
		size_t padded = IS_BLOCK && padding ? (total / BLK + 1) * BLK : total;
		vassert(nall == padded + tagBytes);
		for (size_t j = 0; j < MSGCAP + BLK; j++) if (j < padded) vassert(all[j] == (unsigned char)((j < total ? src[j] : (unsigned char)(padded - total)) ^ ref_ks(K, j)));
		if (IS_GCM)
		{
			unsigned char ctf = ref_fold(all, total, MSGCAP), af = ref_fold(aadb, aal, AADCAP);
			for (size_t i = 0; i < TAGCAP; i++) if (i < tagBytes) vassert(all[total + i] == ref_tag(K, af, aal, ctf, total, i));   // tag AFTER the ciphertext
			if (!PINNED && tagBytes == TAGCAP && aal == AADCAP && total == MSGCAP) vreach();
		}
		vreach();
		if (!PINNED && total == MSGCAP && nparts == 3 && len[0] == 1 && len[1] == 0) vreach();
		if (!PINNED && total == 0) vreach();
	}
	if (!PINNED && partial) vreach();
#elif OP == 1
	ByteString fin; if (nondet_bool()) fin.resize(3);
	ok = ci.decryptFinal(fin);
	// reference on the whole input
	unsigned char pt[DCAP]; for (size_t j = 0; j < DCAP; j++) pt[j] = (unsigned char)(src[j] ^ ref_ks(K, j));
	bool valid = true; size_t outlen = total;
	if (IS_BLOCK && padding)
	{
		valid = total > 0 && total % BLK == 0;
		size_t pd = valid ? pt[total - 1] : 0;
		if (valid && (pd == 0 || pd > BLK)) valid = false;
		if (valid) for (size_t j = 0; j < DCAP; j++) if (j < total && j >= total - pd && pt[j] != pd) valid = false;
		outlen = valid ? total - pd : 0;
	}
	else if (IS_BLOCK) valid = total % BLK == 0;
	vassert(idle()); vassert(!eg.badctx && !eg.overflow && !eg.overrun);
	vassert(c->nin == total);
	if (eg.failFinal) vassert(!ok);
	else
	{
		vassert(ok == valid);
		if (ok)
		{
			append(fin);
			vassert(nall == outlen);
			for (size_t j = 0; j < DCAP; j++) if (j < outlen) vassert(all[j] == pt[j]);
			if (!PINNED || !IS_BLOCK || PTOTAL % BLK == 0) vreach();
			if (!PINNED && total == DCAP && nparts == 3 && len[1] == 0) vreach();
		}
		else if (!valid) vreach();
	}
#else
	ByteString fin; if (nondet_bool()) fin.resize(3);
	ok = ci.decryptFinal(fin);
	vassert(idle()); vassert(!eg.badctx && !eg.overflow && !eg.overrun);
	if (total < tagBytes) { vassert(!ok && eg.dataCalls == 0 && !c->tagSet); if (!PINNED || PTOTAL == 0) vreach(); }      // shorter than the tag: refused, primitive untouched
	else if (eg.failUpdate || eg.failFinal) vassert(!ok);
	else
	{
		size_t n = total - tagBytes;
		vassert(c->nin == n); for (size_t j = 0; j < GCAP; j++) if (j < n) vassert(c->in[j] == src[j]);          // exactly the first n - tagBytes bytes are ciphertext
		vassert(c->tagSet && c->taglen == tagBytes);
		for (size_t i = 0; i < TAGCAP; i++) if (i < tagBytes) vassert(c->tag[i] == src[n + i]);                 // exactly the last tagBytes bytes are the expected tag
		unsigned char ctf = ref_fold(src, n, GCAP), af = ref_fold(aadb, aal, AADCAP);
		bool valid = true; for (size_t i = 0; i < TAGCAP; i++) if (i < tagBytes && src[n + i] != ref_tag(K, af, aal, ctf, n, i)) valid = false;
		vassert(ok == valid);                                                                                    // any changed bit of ciphertext / tag / AAD / IV / key => refused
		if (ok)
		{
			vassert(fin.size() == n);
			for (size_t j = 0; j < GCAP; j++) if (j < n && j < fin.size()) vassert(fin[j] == (unsigned char)(src[j] ^ ref_ks(K, j)));
			if (!PINNED || PTOTAL >= TAGCAP) vreach();
			if (!PINNED && n == MSGCAP && (TAGB || tagBytes == TAGCAP) && (GCMPHASE == 2 || nparts == 3)) vreach();
			if (!PINNED && n == 0) vreach();
		}
		else if (!PINNED || PTOTAL >= TAGCAP) vreach();
	}
#endif
#elif OP == 5
	choose_params(false); vassume(ivl == BLK);
	size_t cb = nondet_uchar(); vassume(cb <= 8);
	const bool enc = DIR == 0;
	bool ok = enc ? ci.encryptInit(&key, (SymMode::Type)MODE, IV, padding, cb, AAD, 0) : ci.decryptInit(&key, (SymMode::Type)MODE, IV, padding, cb, AAD, 0);
	vassert(ok);
	check_init(ci.pCurCTX, enc);
	// budget written from the definition of CTR with a cb-bit counter field: blocks until the counter field wraps
	unsigned long field = cb ? (unsigned long)(ivb[BLK - 1] & ((1u << cb) - 1)) : 0;
	unsigned long budget = cb ? ((1UL << cb) - field) * BLK : 0;
	static unsigned char msg[MSGCAP]; for (size_t i = 0; i < MSGCAP; i++) msg[i] = nondet_uchar();
	choose_split(MSGCAP); vassume(nparts <= 2);
	unsigned long b0 = nondet_uint();
	bool r0 = ci.checkMaximumBytes(b0);
	vassert(r0 == (cb == 0 || b0 <= budget));
	size_t off = 0;
	for (size_t p = 0; p < 2; p++) if (p < nparts)
	{
		ByteString d, o; part(d, msg, MSGCAP, p, off); off += len[p];
		vassert(enc ? ci.encryptUpdate(d, o) : ci.decryptUpdate(d, o));
	}
	unsigned long b1 = nondet_uint();
	bool r1 = ci.checkMaximumBytes(b1);
	vassert(r1 == (cb == 0 || off + b1 <= budget));                  // refuses exactly what would wrap the counter
	vassert(!bn_ghost.range && !bn_ghost.bad);
	if (cb == 0) vassert(ci.maximumBytes == NULL); else vassert(ci.maximumBytes != NULL && ci.maximumBytes->v == budget && ci.counterBytes->v == off);
	if (r1 && cb == 8 && off > 0) vreach();
	if (!r1 && cb == 1 && b1 < 8) vreach();
	if (cb == 0) vreach();
	ByteString fin; vassert(enc ? ci.encryptFinal(fin) : ci.decryptFinal(fin));
	vassert(idle() && bn_ghost.nAlloc == bn_ghost.nFree);
	vreach();
#elif OP == 6
	choose_params(true);
	ByteString d, o; d.resize(1); d[0] = nondet_uchar();
	// nothing without init
	vassert(!ci.encryptUpdate(d, o) && !ci.encryptFinal(o) && !ci.decryptUpdate(d, o) && !ci.decryptFinal(o));
	vassert(eg.nNew == 0 && eg.nUpdate == 0 && eg.nFinal == 0 && idle());
	vassert(!ci.encryptInit(NULL, (SymMode::Type)MODE, IV, padding, 0, AAD, tagBytes) && !ci.decryptInit(NULL, (SymMode::Type)MODE, IV, padding, 0, AAD, tagBytes) && eg.nNew == 0 && idle());
	const bool enc = DIR == 0;
	bool ok = enc ? ci.encryptInit(&key, (SymMode::Type)MODE, IV, padding, 0, AAD, tagBytes) : ci.decryptInit(&key, (SymMode::Type)MODE, IV, padding, 0, AAD, tagBytes);
	bool ivOk = IS_GCM || ivl == 0 || ivl == BLK;
	vassert(ok == ivOk);
	if (!ivOk) { vassert(eg.nNew == 0 && eg.nInit == 0 && idle()); vreach(); return; }    // refused before the primitive is touched
	EVP_CIPHER_CTX* c = ci.pCurCTX; check_init(c, enc);
	unsigned long u0 = eg.nUpdate, f0 = eg.nFinal;
	static SymmetricKey other; ByteString ob; ob.resize(KEYLEN); for (size_t i = 0; i < KEYLEN; i++) ob[i] = nondet_uchar(); other.setKeyBits(ob);
	vassert(!ci.encryptInit(&other, (SymMode::Type)MODE, IV, padding, 0, AAD, tagBytes) && !ci.decryptInit(&other, (SymMode::Type)MODE, IV, padding, 0, AAD, tagBytes));
	vassert(eg.nNew == 1 && eg.nFree == 0 && eg.nUpdate == u0 && ci.currentKey == &key && ci.pCurCTX == c);           // a second init is refused, the operation undisturbed
	for (size_t i = 0; i < KEYLEN; i++) vassert(c->key[i] == kbytes[i]);
	ok = enc ? ci.encryptUpdate(d, o) : ci.decryptUpdate(d, o);
	vassert(ok);
	ByteString fin;
	ok = enc ? ci.encryptFinal(fin) : ci.decryptFinal(fin);
	vassert(idle() && eg.nNew == 1 && !eg.badctx);
	// the operation is gone: nothing reaches the primitive any more
	u0 = eg.nUpdate; f0 = eg.nFinal;
	vassert(!ci.encryptUpdate(d, o) && !ci.encryptFinal(o) && !ci.decryptUpdate(d, o) && !ci.decryptFinal(o));
	vassert(eg.nUpdate == u0 && eg.nFinal == f0 && idle());
	vassert(ci.decryptInit(&key, (SymMode::Type)MODE, IV, padding, 0, AAD, tagBytes) && eg.nNew == 2);
	vreach();
#endif
}
