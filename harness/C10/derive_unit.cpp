// C10 - value of the derived secret: real OSSLDH::deriveKey (-DALG=0), OSSLECDH::deriveKey (-DALG=1), OSSLEDDSA::deriveKey
// (-DALG=2, X25519/X448) over models of the OpenSSL key-agreement calls.  The key wrapper classes are not under test: their
// getOSSLKey() accessors (and OSSLECPublicKey::getOrderLength) are defined HERE and hand out model objects.
//
// Contract of the primitives (OpenSSL 3.0 manual pages DH_compute_key(3), ECDH_compute_key(3), EVP_PKEY_derive(3)):
//   DH_size(dh)            N = length of the prime in bytes
//   DH_compute_key(out, pub, dh)   returns -1 on error, otherwise the length k (1 <= k <= N) of the shared secret with its
//                          leading zero bytes REMOVED, written to out[0, k); the rest of the N-byte buffer is unspecified
//   ECDH_compute_key(out, outlen, point, key, NULL)   returns <= 0 on error, otherwise the number k <= outlen of bytes written to out[0, k)
//   EVP_PKEY_derive(ctx, NULL, &len)  len = size of the secret;  EVP_PKEY_derive(ctx, out, &len)  writes exactly that many bytes
// Property (PKCS#11 / RFC 2631 / SEC1: the shared secret is the fixed-length big-endian encoding of Z, as long as the prime /
// the field): the derived key has exactly N bytes = (N - k) zero bytes followed by the k bytes of the primitive, in order; a
// failing primitive gives `false` and no key; the private key / the peer's public value handed to the primitive are the given ones.
#include "venv.h"
#include "caps.h"
#ifndef ALG
#define ALG 0
#endif
#ifndef NMAX
#define NMAX 4
#endif
#define private public
#define protected public
#include "SymmetricKey.h"
#if ALG == 0
#include "OSSLDH.h"
#include "OSSLDHPublicKey.h"
#include "OSSLDHPrivateKey.h"
#elif ALG == 1
#include "OSSLECDH.h"
#include "OSSLECPublicKey.h"
#include "OSSLECPrivateKey.h"
#else
#include "OSSLEDDSA.h"
#include "OSSLEDPublicKey.h"
#include "OSSLEDPrivateKey.h"
#endif
#undef private
#undef protected
#include <openssl/err.h>
#include <stdarg.h>
void softHSMLog(const int, const char*, const char*, const int, const char*, ...) {}

struct DeriveGhost {
	int N;                          // DH_size / order length / secret length
	int k;                          // what the primitive returns (<= 0: failure)
	unsigned char z[NMAX];          // the secret bytes it writes
	unsigned char junk[NMAX];       // what it leaves in the rest of the buffer
	bool pubNull, privNull, pubValueNull;
	bool failCtx, failInit, failPeer, failLen;
	unsigned long calls, sizeCalls, ctxNew, ctxFree; bool wrongArgs, peerSet, inited;
};
static DeriveGhost dg;
extern "C" {
unsigned long ERR_get_error(void) { return 0; }
}
static void write_secret(unsigned char* out, size_t room)
{
	for (size_t i = 0; i < NMAX; i++) if (i < room) out[i] = (int)i < dg.k ? dg.z[i] : dg.junk[i];
}

#if ALG == 0
struct bignum_st { int id; };
struct dh_st { int id; const BIGNUM* pub; };
static bignum_st model_pub_value; static dh_st model_pub = { 1, 0 }, model_priv = { 2, 0 };
DH* OSSLDHPublicKey::getOSSLKey() { return dg.pubNull ? (DH*)0 : &model_pub; }
DH* OSSLDHPrivateKey::getOSSLKey() { return dg.privNull ? (DH*)0 : &model_priv; }
extern "C" {
void DH_get0_key(const DH* dh, const BIGNUM** pub, const BIGNUM** priv) { if (pub) *pub = dh->pub; if (priv) *priv = 0; }
int DH_size(const DH* dh) { dg.sizeCalls++; return dg.N; }
int DH_compute_key(unsigned char* key, const BIGNUM* pub, DH* dh)
{
	dg.calls++; if (pub != &model_pub_value || dh != &model_priv) dg.wrongArgs = true;
	if (dg.k <= 0) return -1;
	write_secret(key, (size_t)dg.N); return dg.k;
}
}
VRAW(OSSLDH, alg, ) VRAW(OSSLDHPublicKey, pub, ) VRAW(OSSLDHPrivateKey, priv, )
#define DERIVE(pp, pu, pr) vraw_alg.OSSLDH::deriveKey(pp, pu, pr)
#elif ALG == 1
struct ec_point_st { int id; };
struct ec_key_st { int id; const EC_POINT* pub; };
struct ec_key_method_st { int id; };
static ec_point_st model_pub_value; static ec_key_st model_pub = { 1, 0 }, model_priv = { 2, 0 }; static ec_key_method_st model_method;
EC_KEY* OSSLECPublicKey::getOSSLKey() { return dg.pubNull ? (EC_KEY*)0 : &model_pub; }
EC_KEY* OSSLECPrivateKey::getOSSLKey() { return dg.privNull ? (EC_KEY*)0 : &model_priv; }
unsigned long OSSLECPublicKey::getOrderLength() const { dg.sizeCalls++; return (unsigned long)dg.N; }
// the rest of the wrapper class (not under test; getOrderLength is virtual, so the object needs a real vtable): trivial bodies
OSSLECPublicKey::OSSLECPublicKey() { eckey = 0; }
OSSLECPublicKey::~OSSLECPublicKey() {}
const char* OSSLECPublicKey::type = "model EC public key";
bool OSSLECPublicKey::isOfType(const char*) { return true; }
void OSSLECPublicKey::setEC(const ByteString& b) { ECPublicKey::setEC(b); }
void OSSLECPublicKey::setQ(const ByteString& b) { ECPublicKey::setQ(b); }
void OSSLECPublicKey::setFromOSSL(const EC_KEY*) {}
extern "C" {
const EC_POINT* EC_KEY_get0_public_key(const EC_KEY* k) { return k->pub; }
const EC_KEY_METHOD* EC_KEY_OpenSSL(void) { return &model_method; }
int EC_KEY_set_method(EC_KEY* k, const EC_KEY_METHOD* m) { return 1; }
int ECDH_compute_key(void* out, size_t outlen, const EC_POINT* pub, const EC_KEY* key, void* (*kdf)(const void*, size_t, void*, size_t*))
{
	dg.calls++; if (pub != &model_pub_value || key != &model_priv || kdf != 0 || outlen != (size_t)dg.N) dg.wrongArgs = true;
	if (dg.k <= 0) return dg.k < 0 ? -1 : 0;
	write_secret((unsigned char*)out, outlen); return dg.k;
}
}
VRAW(OSSLECDH, alg, ) VRAW(OSSLECPrivateKey, priv, )
static OSSLECPublicKey vraw_pub;
#define DERIVE(pp, pu, pr) vraw_alg.OSSLECDH::deriveKey(pp, pu, pr)
#else
struct evp_pkey_st { int id; };
struct evp_pkey_ctx_st { bool live; EVP_PKEY* key; EVP_PKEY* peer; bool inited; };
static evp_pkey_st model_pub = { 1 }, model_priv = { 2 }; static evp_pkey_ctx_st model_ctx;
EVP_PKEY* OSSLEDPublicKey::getOSSLKey() { return dg.pubNull ? (EVP_PKEY*)0 : &model_pub; }
EVP_PKEY* OSSLEDPrivateKey::getOSSLKey() { return dg.privNull ? (EVP_PKEY*)0 : &model_priv; }
extern "C" {
EVP_PKEY_CTX* EVP_PKEY_CTX_new(EVP_PKEY* k, ENGINE* e) { if (dg.failCtx) return 0; dg.ctxNew++; model_ctx.live = true; model_ctx.key = k; model_ctx.peer = 0; model_ctx.inited = false; return &model_ctx; }
void EVP_PKEY_CTX_free(EVP_PKEY_CTX* c) { if (c) { if (!c->live) dg.wrongArgs = true; c->live = false; dg.ctxFree++; } }
int EVP_PKEY_derive_init(EVP_PKEY_CTX* c) { if (!c || !c->live) { dg.wrongArgs = true; return -1; } if (dg.failInit) return 0; c->inited = true; return 1; }
int EVP_PKEY_derive_set_peer(EVP_PKEY_CTX* c, EVP_PKEY* peer) { if (!c || !c->live || !c->inited) { dg.wrongArgs = true; return -1; } if (dg.failPeer) return 0; c->peer = peer; return 1; }
int EVP_PKEY_derive(EVP_PKEY_CTX* c, unsigned char* out, size_t* len)
{
	if (!c || !c->live || !c->inited || c->key != &model_priv || c->peer != &model_pub || !len) { dg.wrongArgs = true; return -1; }
	if (!out) { dg.sizeCalls++; if (dg.failLen) return 0; *len = (size_t)dg.N; return 1; }
	dg.calls++; if (*len < (size_t)dg.N) { dg.wrongArgs = true; return -1; }       // buffer too small
	if (dg.k <= 0) return dg.k < 0 ? -1 : 0;
	write_secret(out, (size_t)dg.N); *len = (size_t)dg.N; return 1;                 // X25519 / X448: fixed-length secret
}
}
VRAW(OSSLEDDSA, alg, ) VRAW(OSSLEDPublicKey, pub, ) VRAW(OSSLEDPrivateKey, priv, )
#define DERIVE(pp, pu, pr) vraw_alg.OSSLEDDSA::deriveKey(pp, pu, pr)
#endif

extern "C" void harness(void)
{
	dg.N = 1 + nondet_uchar() % NMAX;
	int k = (int)(nondet_uchar() % (NMAX + 2)) - 1;           // -1 = failure, 0, 1..NMAX
	vassume(k <= dg.N);
#if ALG == 2
	if (k > 0) k = dg.N;                                     // fixed-length secret
#endif
	dg.k = k;
	for (int i = 0; i < NMAX; i++) { dg.z[i] = nondet_uchar(); dg.junk[i] = nondet_uchar(); }
	dg.pubNull = nondet_bool(); dg.privNull = nondet_bool(); dg.pubValueNull = nondet_bool();
#if ALG == 0 || ALG == 1
	model_pub.pub = dg.pubValueNull ? 0 : &model_pub_value;
#else
	dg.pubValueNull = false; dg.failCtx = nondet_bool(); dg.failInit = nondet_bool(); dg.failPeer = nondet_bool(); dg.failLen = nondet_bool();
#endif
	SymmetricKey* sentinel = (SymmetricKey*)&dg; SymmetricKey* out = sentinel;
	unsigned which = nondet_uchar() % 4;
	bool ok = DERIVE(which == 1 ? (SymmetricKey**)0 : &out, which == 2 ? (PublicKey*)0 : (PublicKey*)&vraw_pub, which == 3 ? (PrivateKey*)0 : (PrivateKey*)&vraw_priv);
	if (which != 0) { vassert(!ok && out == sentinel && dg.calls == 0); vreach(); return; }
	bool setupFails = dg.pubNull || dg.privNull || dg.pubValueNull || dg.failCtx || dg.failInit || dg.failPeer || dg.failLen;
	if (setupFails) { vassert(!ok && out == sentinel && dg.calls == 0); vreach(); }
	else
	{
		vassert(dg.calls == 1 && !dg.wrongArgs);                // the given private key and the peer's public value, once
		vassert(ok == (k > 0));
		if (!ok) { vassert(out == sentinel); vreach(); }        // a failing primitive: no key is handed out
		else
		{
			vassert(out != sentinel && out != 0);
			const ByteString& bits = out->getKeyBits();
			vassert(bits.size() == (size_t)dg.N && out->getBitLen() == 8u * dg.N);                 // as long as the prime / the field
			for (int i = 0; i < NMAX; i++) if (i < dg.N) vassert(bits.const_byte_str()[i] == (i < dg.N - k ? 0 : dg.z[i - (dg.N - k)]));   // left-padded with zeros, secret bytes in order
			vreach();
#if ALG != 2
			if (k < dg.N) vreach();                          // short secret: the zero padding is at the FRONT
#endif
			if (k == dg.N && dg.N == NMAX) vreach();
		}
	}
	vassert(dg.ctxNew == dg.ctxFree);
}
