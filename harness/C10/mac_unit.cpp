// C10 - MAC glue: real OSSLEVPMacAlgorithm.cpp (HMAC) / OSSLEVPCMacAlgorithm.cpp (CMAC, -DCMAC=1) + MacAlgorithm.cpp +
// ByteString.cpp + SymmetricKey.cpp over the functional model of mac_model.h.  -DOP:
//  0  signInit, <= 3 signUpdate calls with an ARBITRARY split of a message of <= MSGCAP bytes (empty parts, fewer parts),
//     signFinal: the result is exactly model_mac(key, whole message) - every byte fed exactly once, in order, with the
//     caller's key - i.e. multi-part == single-part; a failing primitive makes the call fail and ends the operation
//  1  verifyInit, the same splits, verifyFinal(sig) for an ARBITRARY sig of 0..BS_CAP bytes: accepted iff sig has exactly
//     the MAC length and equals the model MAC in every byte (changed bit, truncated, extended, empty: rejected)
//  3  (CMAC) init refused for lack of a cipher leaves no operation - recorded observation, tier 'finding'
//  2  state machine: update / final without init fail and never reach the primitive; sign calls on a verify operation
//     (and vice versa) fail; a second init while active is refused and does not disturb the running operation; after
//     final (or a failure) the operation is gone, the context released exactly once
#include "venv.h"
#include "caps.h"
#define private public
#define protected public
#include "OSSLEVPMacAlgorithm.h"
#include "OSSLEVPCMacAlgorithm.h"
#undef private
#undef protected
#include "mac_model.h"
#include <stdarg.h>
void softHSMLog(const int, const char*, const char*, const int, const char*, ...) {}
#ifndef KLEN
#define KLEN 2
#endif
#if CMAC
static bool noCipher;   // OP 3: the key has no cipher (e.g. an AES key of 136 bits: OSSLCMACAES::getEVPCipher returns NULL)
class MacUT : public OSSLEVPCMacAlgorithm { public: virtual const EVP_CIPHER* getEVPCipher() const { return noCipher ? (const EVP_CIPHER*)0 : &model_cipher; } virtual size_t getMacSize() const { return MACSZ; } };
#define ALG (&model_cipher)
#else
class MacUT : public OSSLEVPMacAlgorithm { public: virtual const EVP_MD* getEVPHash() const { return &model_md; } virtual size_t getMacSize() const { return MACSZ; } };
#define ALG (&model_md)
#endif
static unsigned char msg[MSGCAP], kbytes[KEYCAP];
static size_t len[3], nparts, total;
static void choose_input(SymmetricKey& key)
{
	ByteString kb; kb.resize(KLEN);
	for (size_t i = 0; i < KEYCAP; i++) { kbytes[i] = nondet_uchar(); if (i < KLEN) kb[i] = kbytes[i]; }
	vassert(key.setKeyBits(kb));
	for (size_t i = 0; i < MSGCAP; i++) msg[i] = nondet_uchar();
	nparts = nondet_uchar(); vassume(nparts <= 3);
#ifdef L0
	len[0] = L0; len[1] = L1; len[2] = L2;
#else
	for (int p = 0; p < 3; p++) { len[p] = nondet_uchar(); vassume(len[p] <= MSGCAP); }
#endif
	for (size_t p = 0; p < 3; p++) if (p >= nparts) vassume(len[p] == 0);
	total = len[0] + len[1] + len[2]; vassume(total <= MSGCAP);
}
static void part(ByteString& d, size_t p, size_t off) { d.resize(len[p]); for (size_t k = 0; k < MSGCAP; k++) if (k < len[p]) d[k] = msg[off + k]; }
static bool idle(MacUT& m) { return m.currentOperation == MacAlgorithm::NONE && m.curCTX == NULL && m.currentKey == NULL && mg.nNew == mg.nFree; }

extern "C" void harness(void)
{
	static MacUT mac; static SymmetricKey key;
	choose_input(key);
	unsigned char ref[MACSZ]; model_mac(kbytes, KLEN, msg, total, ref);
#if OP == 0 || OP == 1
	mg.failInit = nondet_bool(); mg.failUpdate = nondet_bool(); mg.failFinal = nondet_bool();
	bool ok = OP == 0 ? mac.signInit(&key) : mac.verifyInit(&key);
	vassert(ok == !mg.failInit);
	vassert(mg.nInit == 1 && mg.lastAlg == ALG);              // the hash / cipher the subclass selected
	if (!ok) { vassert(idle(mac)); vreach(); return; }
	size_t off = 0; size_t nonEmpty = 0;
	for (size_t p = 0; p < 3; p++) if (p < nparts)
	{
		ByteString d; part(d, p, off); off += len[p]; if (len[p]) nonEmpty++;
		ok = OP == 0 ? mac.signUpdate(d) : mac.verifyUpdate(d);
		vassert(ok == !(mg.failUpdate && len[p] > 0));            // an empty part never reaches the primitive (and cannot fail)
		if (!ok) { vassert(idle(mac)); vreach(); return; }
	}
	vassert(mg.fed == total && !mg.overflow && mg.nUpdate == nonEmpty);   // every byte exactly once
#if OP == 0
	ByteString sig; sig.resize(nondet_uchar() % (BS_CAP + 1));   // whatever the caller's buffer held before
	ok = mac.signFinal(sig);
	vassert(ok == !mg.failFinal); vassert(idle(mac)); vassert(mg.nFinal == 1 && !mg.badctx);
	if (ok)
	{
		vassert(sig.size() == MACSZ);
		for (size_t i = 0; i < MACSZ; i++) vassert(sig[i] == ref[i]);      // == model(key, whole message): multi-part == single-part
		vreach();
		if (total == MSGCAP && nparts == 3 && len[1] == 0) vreach();
		if (total == 0) vreach();
	}
#else
	ByteString sig; size_t sl = nondet_uchar(); vassume(sl <= BS_CAP); sig.resize(sl);
	unsigned char sb[BS_CAP]; for (size_t i = 0; i < BS_CAP; i++) { sb[i] = nondet_uchar(); if (i < sl) sig[i] = sb[i]; }
	bool same = sl == MACSZ; for (size_t i = 0; i < MACSZ; i++) if (i < sl && sb[i] != ref[i]) same = false;
	ok = mac.verifyFinal(sig);
	vassert(idle(mac)); vassert(mg.nFinal == 1 && !mg.badctx);
	if (mg.failFinal) vassert(!ok);
	else
	{
		vassert(ok == same);                                      // sound and complete
		if (ok) vreach();
		if (!ok && sl == MACSZ) vreach();                         // one changed byte
		if (!ok && sl == MACSZ - 1) vreach();                     // truncated
		if (!ok && sl == MACSZ + 1) vreach();                     // extended
	}
#endif
#elif OP == 2
	ByteString d; part(d, 0, 0); ByteString sig; sig.resize(MACSZ); for (size_t i = 0; i < MACSZ; i++) sig[i] = ref[i];
	// nothing without init
	vassert(!mac.signUpdate(d) && !mac.signFinal(sig) && !mac.verifyUpdate(d) && !mac.verifyFinal(sig));
	vassert(mg.calls == 0 && mg.nNew == 0 && idle(mac));
	vassert(!mac.signInit(NULL) && !mac.verifyInit(NULL) && mg.calls == 0 && idle(mac));
	bool signing = nondet_bool();
	vassert(signing ? mac.signInit(&key) : mac.verifyInit(&key));
	// calls of the other kind are refused and reach nothing; a second init is refused; the running operation is undisturbed
	unsigned long c0 = mg.calls;
	if (signing) vassert(!mac.verifyUpdate(d) && !mac.verifyFinal(sig)); else vassert(!mac.signUpdate(d) && !mac.signFinal(sig));
	static SymmetricKey other; ByteString ob; ob.resize(KLEN); for (size_t i = 0; i < KLEN; i++) ob[i] = nondet_uchar(); other.setKeyBits(ob);
	vassert(!mac.signInit(&other) && !mac.verifyInit(&other));
	vassert(mg.calls == c0 && mg.nNew == 1 && mg.nFree == 0 && mac.currentKey == &key);
	vassert(signing ? mac.signUpdate(d) : mac.verifyUpdate(d));
	ByteString out;
	bool ok = signing ? mac.signFinal(out) : mac.verifyFinal(sig);
	// the first part alone was fed: the result is the MAC of exactly that prefix under the FIRST key
	unsigned char r0[MACSZ]; model_mac(kbytes, KLEN, msg, len[0], r0);
	if (signing) { vassert(ok && out.size() == MACSZ); for (size_t i = 0; i < MACSZ; i++) vassert(out[i] == r0[i]); vreach(); }
	else { vassert(ok == (len[0] == total)); vreach(); }
	vassert(idle(mac) && mg.nNew == 1 && !mg.badctx);
	// the operation is gone: nothing reaches the primitive any more
	c0 = mg.calls;
	vassert(!mac.signUpdate(d) && !mac.signFinal(out) && !mac.verifyUpdate(d) && !mac.verifyFinal(sig));
	vassert(mg.calls == c0 && idle(mac));
	// and a new operation can be started
	vassert(mac.verifyInit(&key) && mg.nNew == 2);
	vreach();
#elif OP == 3 && CMAC
	// an init that is refused because the key length has no cipher must leave no operation behind (sign and verify alike)
	noCipher = true;
	bool signing = nondet_bool();
	bool ok = signing ? mac.signInit(&key) : mac.verifyInit(&key);
	vassert(!ok && mg.calls == 0 && mg.nNew == 0);
	vassert(mac.currentOperation == MacAlgorithm::NONE);          // KNOWN to fail for verifyInit (see obl_c10.py, tier 'finding')
	vreach();
#endif
}
