// C10 - functional model of the OpenSSL HMAC_* / CMAC_* C API (the arithmetic is binary code, outside the claim).
// The model context keeps the key it was initialised with and ACCUMULATES every byte it is fed, in order, in a ghost
// buffer; *_Final writes model_mac(key, accumulated bytes), a deterministic function that is sensitive to every key
// byte, every message byte, the POSITION of every message byte and the total message length.  Everything the wrapper
// does wrong to the byte stream (a byte dropped, duplicated, reordered, taken from another buffer, a wrong length) or
// to the comparison therefore changes an observable result.  Contract encoded (OpenSSL 3.0 manual pages HMAC(3), CMAC):
//   *_CTX_new    a fresh context (allocation failure is NOT modelled: outside C10)
//   *_Init       records key bytes / key length / hash or cipher; returns 1, or 0 when the model is told to fail
//   *_Update     appends len bytes; returns 1 / 0
//   HMAC_Final   writes EVP_MD_size(md) bytes, *len = that size; CMAC_Final writes block-size bytes, *poutlen = size
//   *_CTX_free   releases the context (NULL allowed)
// Ghost counters observe how often and with which context the primitive was called.
#ifndef C10_MAC_MODEL_H
#define C10_MAC_MODEL_H
#include "venv.h"
#include <openssl/evp.h>
#include <openssl/hmac.h>
#include <openssl/cmac.h>
#ifndef MSGCAP
#define MSGCAP 4                      // ghost accumulator: messages of at most MSGCAP bytes
#endif
#ifndef KEYCAP
#define KEYCAP 2
#endif
enum { MACSZ = MSGCAP + 2 };          // size of the model MAC (= model digest size = model cipher block size)
struct evp_md_st { int size; int id; };
struct evp_cipher_st { int blockSize; int id; };
struct MacCtx { bool live; bool inited; unsigned char key[KEYCAP]; size_t klen; unsigned char acc[MSGCAP]; size_t n; const void* alg; };
struct hmac_ctx_st { MacCtx m; };
struct CMAC_CTX_st { MacCtx m; };
struct MacGhost {
	unsigned long nNew, nFree, nInit, nUpdate, nFinal, calls;   // calls = Init + Update + Final
	unsigned long fed;                 // total bytes handed to *_Update
	bool overflow;                     // more than MSGCAP bytes fed / key longer than KEYCAP
	bool badctx;                       // a primitive was called with a NULL / not live / not initialised context
	bool failInit, failUpdate, failFinal;   // failure switches (set by the harness)
	const void* lastAlg;
};
static MacGhost mg;
static hmac_ctx_st hmac_pool[2]; static CMAC_CTX_st cmac_pool[2];
static evp_md_st model_md = { MACSZ, 1 };
static evp_cipher_st model_cipher = { MACSZ, 2 };

// the model MAC: byte i (i < MSGCAP) = message byte i (or a pad constant beyond the length) xor key byte (i mod 2);
// then the message length and the key length.  Injective in (message, length) for a fixed key; every key byte matters.
static inline void model_mac(const unsigned char* key, size_t klen, const unsigned char* msg, size_t n, unsigned char* out)
{
	unsigned char k0 = klen > 0 ? key[0] : 0x36, k1 = klen > 1 ? key[1] : 0x5C;
	for (size_t i = 0; i < MSGCAP; i++) out[i] = (unsigned char)((i < n ? msg[i] : 0xA5) ^ ((i & 1) ? k1 : k0) ^ (unsigned char)(17 * i));
	out[MSGCAP] = (unsigned char)(n ^ k1);
	out[MSGCAP + 1] = (unsigned char)((klen * 16 + 1) ^ k0);
}
static inline void mac_ctx_init(MacCtx* c, const void* key, size_t len, const void* alg)
{
	if (len > KEYCAP) { mg.overflow = true; len = KEYCAP; }
	for (size_t i = 0; i < KEYCAP; i++) c->key[i] = i < len ? ((const unsigned char*)key)[i] : 0;
	c->klen = len; c->n = 0; c->alg = alg; c->inited = true;
}
static inline void mac_ctx_update(MacCtx* c, const unsigned char* d, size_t len)
{
	mg.fed += len;
	for (size_t i = 0; i < MSGCAP + 1; i++) if (i < len) { if (c->n < MSGCAP) { c->acc[c->n] = d[i]; c->n++; } else mg.overflow = true; }
	if (len > MSGCAP + 1) mg.overflow = true;
}
extern "C" {
HMAC_CTX* HMAC_CTX_new(void) { hmac_ctx_st* c = &hmac_pool[mg.nNew & 1]; mg.nNew++; c->m.live = true; c->m.inited = false; c->m.n = 0; return c; }
void HMAC_CTX_free(HMAC_CTX* c) { if (c) { if (!c->m.live) mg.badctx = true; c->m.live = false; mg.nFree++; } }
int HMAC_Init_ex(HMAC_CTX* c, const void* key, int len, const EVP_MD* md, ENGINE* impl)
{
	mg.nInit++; mg.calls++; mg.lastAlg = md;
	if (!c || !c->m.live || !md || len < 0) { mg.badctx = true; return 0; }
	if (mg.failInit) return 0;
	mac_ctx_init(&c->m, key, (size_t)len, md); return 1;
}
int HMAC_Update(HMAC_CTX* c, const unsigned char* d, size_t len)
{
	mg.nUpdate++; mg.calls++;
	if (!c || !c->m.live || !c->m.inited) { mg.badctx = true; return 0; }
	if (mg.failUpdate) return 0;
	mac_ctx_update(&c->m, d, len); return 1;
}
int HMAC_Final(HMAC_CTX* c, unsigned char* out, unsigned int* len)
{
	mg.nFinal++; mg.calls++;
	if (!c || !c->m.live || !c->m.inited) { mg.badctx = true; return 0; }
	if (mg.failFinal) return 0;
	model_mac(c->m.key, c->m.klen, c->m.acc, c->m.n, out);
	if (len) *len = MACSZ;
	return 1;
}
int EVP_MD_get_size(const EVP_MD* md) { return md ? md->size : -1; }

CMAC_CTX* CMAC_CTX_new(void) { CMAC_CTX_st* c = &cmac_pool[mg.nNew & 1]; mg.nNew++; c->m.live = true; c->m.inited = false; c->m.n = 0; return c; }
void CMAC_CTX_free(CMAC_CTX* c) { if (c) { if (!c->m.live) mg.badctx = true; c->m.live = false; mg.nFree++; } }
int CMAC_Init(CMAC_CTX* c, const void* key, size_t len, const EVP_CIPHER* cipher, ENGINE* impl)
{
	mg.nInit++; mg.calls++; mg.lastAlg = cipher;
	if (!c || !c->m.live || !cipher) { mg.badctx = true; return 0; }
	if (mg.failInit) return 0;
	mac_ctx_init(&c->m, key, len, cipher); return 1;
}
int CMAC_Update(CMAC_CTX* c, const void* d, size_t len)
{
	mg.nUpdate++; mg.calls++;
	if (!c || !c->m.live || !c->m.inited) { mg.badctx = true; return 0; }
	if (mg.failUpdate) return 0;
	mac_ctx_update(&c->m, (const unsigned char*)d, len); return 1;
}
int CMAC_Final(CMAC_CTX* c, unsigned char* out, size_t* poutlen)
{
	mg.nFinal++; mg.calls++;
	if (!c || !c->m.live || !c->m.inited) { mg.badctx = true; return 0; }
	if (mg.failFinal) return 0;
	if (out) model_mac(c->m.key, c->m.klen, c->m.acc, c->m.n, out);
	if (poutlen) *poutlen = MACSZ;
	return 1;
}
unsigned long ERR_get_error(void) { return 0; }
char* ERR_error_string(unsigned long e, char* buf) { static char none[1]; return none; }
}
#endif
