// C09 - rejected template on a SESSION object: real SessionObject.cpp (attribute store + its transaction functions) under the real
// P11Object::saveTemplate with the template (CKA_LABEL = symbolic bytes, <unknown attribute type>): the call fails, so the label must
// be what it was before.  (SessionObject transactions were no-ops in the pinned sources: repaired, see known-findings.txt.)
#include "entry_env.h"
#define private public
#define protected public
#include "P11Objects.h"
#include "P11Attributes.h"
#include "SessionObject.h"
#undef private
#undef protected
VRAW(SessionObject, so, )
static SessionObject proto(NULL, 1, 1, false);    // real constructor: provides the vtable pointer
extern "C" void harness(void)
{
	env_init(0, 0);
	SessionObject& o = vraw_so;
	*(void**)&o = *(void**)&proto; o.valid = true; o.parent = 0; o.isPrivate = false; o.slotID = 1; o.hSession = 1; o.objectMutex = MutexFactory::i()->getMutex();
	bool hadLabel = nondet_bool(); unsigned char l0 = nondet_uchar();
	if (hadLabel) { ByteString b; b.resize(1); b[0] = l0; o.setAttribute(CKA_LABEL, OSAttribute(b)); }
	static P11Object p11; p11.osobject = &o; p11.initialized = true;
	p11.attributes[CKA_LABEL] = new P11AttrLabel(&o);
	static CK_ATTRIBUTE tmpl[2]; static unsigned char val[2]; val[0] = nondet_uchar(); val[1] = nondet_uchar();
	tmpl[0].type = CKA_LABEL; tmpl[0].pValue = &val[0]; tmpl[0].ulValueLen = 1;
	tmpl[1].type = 0x80001234UL; tmpl[1].pValue = &val[1]; tmpl[1].ulValueLen = 1;
	CK_RV rv = p11.saveTemplate(env.token, false, tmpl, 2, OBJECT_OP_SET);
	vassert(rv == CKR_ATTRIBUTE_TYPE_INVALID);
	// no prefix of the rejected template is applied
	vassert_id(o.attributeExists(CKA_LABEL) == hadLabel, 19001);
	if (hadLabel) { ByteString now = o.getByteStringValue(CKA_LABEL); vassert_id(now.size() == 1 && now[0] == l0, 19002); }
	vreach();
}
