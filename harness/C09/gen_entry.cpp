// C08 / C06 / C09 / C01 / C07 - symmetric key generation (real SoftHSM.cpp).
//   GEN 0      C_GenerateKey wrapper: mechanism advertised, template class / key type consistent with the mechanism, private keys only for
//              the logged-in user, token keys only through RW sessions; the generate* bodies are cut (sink records the arguments)
//   GEN 1..5   generateAES / generateGeneric / generateDES / generateDES2 / generateDES3 (real) with CreateObject cut: what a generated key
//              looks like (LOCAL, KEY_GEN_MECHANISM, ALWAYS_SENSITIVE == SENSITIVE, NEVER_EXTRACTABLE == !EXTRACTABLE, value == the random
//              bytes - encrypted when private), one committed transaction, and the clean-up when any step fails
#include "entry_env.h"
#include "spec_mech.h"
#include "P11Attributes.h"
extern "C" bool det_token_encrypt(Token*, const ByteString& in, ByteString& out) { store_log.encrypts++; out.resize(in.size() + 1); out[0] = ENC_TAG; for (size_t i = 0; i < in.size(); i++) out[i + 1] = in.const_byte_str()[i]; return true; }
static unsigned long nCreate, nGen; static bool createOk; static CK_OBJECT_HANDLE createdHandle; static int createOp; static CK_ULONG createClass, createKeyType; static bool createTok, createPriv;
static CK_BBOOL genTok, genPriv; static int genWhich;
extern "C" CK_RV sink_create(SoftHSM* h, CK_SESSION_HANDLE hs, CK_ATTRIBUTE_PTR a, CK_ULONG n, CK_OBJECT_HANDLE_PTR ph, int op)
{
	nCreate++; createOp = op; createTok = false; createPriv = true; createClass = createKeyType = ~0UL;
	// defaults of a secret key object, then the template
	env_newobj.has_SENSITIVE = true; env_newobj.b_SENSITIVE = false; env_newobj.has_EXTRACTABLE = true; env_newobj.b_EXTRACTABLE = false;
	for (CK_ULONG i = 0; i < n && i < 8; i++)
	{
		if (a[i].type == CKA_TOKEN) createTok = *(CK_BBOOL*)a[i].pValue != CK_FALSE; if (a[i].type == CKA_PRIVATE) createPriv = *(CK_BBOOL*)a[i].pValue != CK_FALSE;
		if (a[i].type == CKA_CLASS) createClass = *(CK_ULONG*)a[i].pValue; if (a[i].type == CKA_KEY_TYPE) createKeyType = *(CK_ULONG*)a[i].pValue;
		if (a[i].type == CKA_SENSITIVE) env_newobj.b_SENSITIVE = *(CK_BBOOL*)a[i].pValue != CK_FALSE;
		if (a[i].type == CKA_EXTRACTABLE) env_newobj.b_EXTRACTABLE = *(CK_BBOOL*)a[i].pValue != CK_FALSE;
	}
	if (!createOk) return CKR_TEMPLATE_INCONSISTENT;
	env_newobj.has_PRIVATE = true; env_newobj.b_PRIVATE = createPriv; env_newobj.has_TOKEN = true; env_newobj.b_TOKEN = createTok;
	createdHandle = createTok ? env.hm->addTokenObject(env.slotID, createPriv, &env_newobj) : env.hm->addSessionObject(env.slotID, hs, createPriv, &env_newobj);
	*ph = createdHandle; return CKR_OK;
}
#define GEN_SINK(name, w) extern "C" CK_RV name(SoftHSM*, CK_SESSION_HANDLE, CK_ATTRIBUTE_PTR, CK_ULONG, CK_OBJECT_HANDLE_PTR ph, CK_BBOOL tok, CK_BBOOL priv) { nGen++; genWhich = w; genTok = tok; genPriv = priv; return nondet_bool() ? CKR_OK : CKR_FUNCTION_FAILED; }
GEN_SINK(sink_genAES, 1) GEN_SINK(sink_genGeneric, 2) GEN_SINK(sink_genDES, 3) GEN_SINK(sink_genDES2, 4) GEN_SINK(sink_genDES3, 5) GEN_SINK(sink_genDSAParams, 6) GEN_SINK(sink_genDHParams, 7)
#ifndef KEYLEN
#define KEYLEN 16
#endif
#ifdef BIGT
#undef vreach
#define vreach() do { } while (0)      /* a template that long can only be refused: the success witnesses do not apply */
#endif
extern "C" void harness(void)
{
	env_init(0, 2);
	env_newobj_reset(); createOk = nondet_bool();
	SoftHSM* hsm = env.hsm; Session* s = env.session;
	bool userIn = env_user_logged_in(), rw = s->isReadWrite;
	CK_SESSION_HANDLE hS = nondet_bool() ? env.hSession : nondet_ulong();
	CK_OBJECT_HANDLE hNew = 0x4321; size_t handles0 = env.hm->handles.size();
	// template: CKA_VALUE_LEN, SENSITIVE, EXTRACTABLE (symbolic values), optionally CLASS / KEY_TYPE / TOKEN / PRIVATE
	static CK_ULONG vlen; static CK_BBOOL tSens, tExtr, tTok, tPriv; static CK_ULONG tClass, tKt;
	vlen = nondet_ulong(); tSens = nondet_uchar(); tExtr = nondet_uchar(); tTok = nondet_uchar(); tPriv = nondet_uchar(); tClass = nondet_bool() ? CKO_SECRET_KEY : nondet_ulong(); tKt = nondet_ulong();
	static CK_ATTRIBUTE tmpl[5];
	tmpl[0].type = CKA_VALUE_LEN; tmpl[0].pValue = &vlen; tmpl[0].ulValueLen = sizeof(vlen);
	tmpl[1].type = CKA_SENSITIVE; tmpl[1].pValue = &tSens; tmpl[1].ulValueLen = 1;
	tmpl[2].type = CKA_EXTRACTABLE; tmpl[2].pValue = &tExtr; tmpl[2].ulValueLen = 1;
#if GEN == 0
	bool hasTok = nondet_bool(), hasClass = nondet_bool();
	tmpl[3].type = hasTok ? CKA_TOKEN : CKA_PRIVATE; tmpl[3].pValue = hasTok ? &tTok : &tPriv; tmpl[3].ulValueLen = 1;
	tmpl[4].type = hasClass ? CKA_CLASS : CKA_KEY_TYPE; tmpl[4].pValue = hasClass ? &tClass : &tKt; tmpl[4].ulValueLen = sizeof(CK_ULONG);
	CK_ULONG cnt = 3 + nondet_uchar() % 3;
	bool wantTok = cnt >= 4 && hasTok ? tTok != CK_FALSE : false, wantPriv = cnt >= 4 && !hasTok ? tPriv != CK_FALSE : true;
	CK_MECHANISM mech; mech.mechanism = nondet_ulong(); mech.pParameter = NULL_PTR; mech.ulParameterLen = 0;
	CK_RV rv = hsm->C_GenerateKey(hS, &mech, tmpl, cnt, &hNew);
	if (nGen)
	{
		vassert(nGen == 1 && hS == env.hSession);
		vassert(in_supported(mech.mechanism));                                   // C07: only advertised mechanisms
		CK_MECHANISM_TYPE m = mech.mechanism;
		vassert((genWhich == 1) == (m == CKM_AES_KEY_GEN) && (genWhich == 2) == (m == CKM_GENERIC_SECRET_KEY_GEN) && (genWhich == 3) == (m == CKM_DES_KEY_GEN) && (genWhich == 4) == (m == CKM_DES2_KEY_GEN) && (genWhich == 5) == (m == CKM_DES3_KEY_GEN) && (genWhich == 6) == (m == CKM_DSA_PARAMETER_GEN) && (genWhich == 7) == (m == CKM_DH_PKCS_PARAMETER_GEN));
		// C01: the flags handed on are the template's (defaults: session object, private); private only for the user, token only via RW
		vassert((genTok != CK_FALSE) == wantTok && (genPriv != CK_FALSE) == wantPriv);
		vassert(!wantPriv || userIn); vassert(!wantTok || rw);
		// the template does not contradict the mechanism
		if (cnt == 5 && hasClass) vassert(tClass == (genWhich >= 6 ? CKO_DOMAIN_PARAMETERS : CKO_SECRET_KEY));
		if (cnt == 5 && !hasClass) vassert(tKt == (genWhich == 1 ? CKK_AES : genWhich == 2 ? CKK_GENERIC_SECRET : genWhich == 3 ? CKK_DES : genWhich == 4 ? CKK_DES2 : genWhich == 5 ? CKK_DES3 : genWhich == 6 ? CKK_DSA : CKK_DH));
		vreach();
	}
	if (hS == env.hSession && ((wantPriv && !userIn) || (wantTok && !rw))) { vassert(rv != CKR_OK && nGen == 0); vreach(); }
	if (rv == CKR_OK) { vassert(nGen == 1); vreach(); }
	vassert(nCreate == 0 && env.hm->handles.size() == handles0);
#else
	CK_BBOOL isTok = nondet_bool() ? CK_TRUE : CK_FALSE, isPriv = nondet_bool() ? CK_TRUE : CK_FALSE;
	CK_ULONG cnt = nondet_uchar() % 4;
#ifdef BIGT
	// C17: a template longer than the generator's fixed attribute array (32 entries, 4 of them taken): refused, nothing written out of range
	static CK_ATTRIBUTE big[BIGT]; static CK_BYTE bigv; bigv = nondet_uchar();
	for (int i = 0; i < BIGT; i++) { if (i < 3) big[i] = tmpl[i]; else { big[i].type = CKA_LABEL; big[i].pValue = &bigv; big[i].ulValueLen = 1; } }
	#define tmpl big
	cnt = BIGT;      // (count and entry types concrete: the loop shape stays concrete, pointer checks stay affordable)
#endif
#if GEN == 1
	CK_RV rv = hsm->generateAES(hS, tmpl, cnt, &hNew, isTok, isPriv); const CK_ULONG genMech = CKM_AES_KEY_GEN, kt = CKK_AES; const size_t klen = KEYLEN; bool lenOk = cnt >= 1 && vlen == KEYLEN; vassume(cnt == 0 || vlen == KEYLEN || (vlen != 16 && vlen != 24 && vlen != 32));
#elif GEN == 2
	CK_RV rv = hsm->generateGeneric(hS, tmpl, cnt, &hNew, isTok, isPriv); const CK_ULONG genMech = CKM_GENERIC_SECRET_KEY_GEN, kt = CKK_GENERIC_SECRET; const size_t klen = KEYLEN; bool lenOk = cnt >= 1 && vlen == KEYLEN; vassume(cnt == 0 || vlen == KEYLEN || vlen == 0 || vlen > 0x8000000);
#elif GEN == 3
	CK_RV rv = hsm->generateDES(hS, tmpl + 1, cnt ? cnt - 1 : 0, &hNew, isTok, isPriv); const CK_ULONG genMech = CKM_DES_KEY_GEN, kt = CKK_DES; const size_t klen = 7; bool lenOk = true;
#elif GEN == 4
	CK_RV rv = hsm->generateDES2(hS, tmpl + 1, cnt ? cnt - 1 : 0, &hNew, isTok, isPriv); const CK_ULONG genMech = CKM_DES2_KEY_GEN, kt = CKK_DES2; const size_t klen = 14; bool lenOk = true;
#else
	CK_RV rv = hsm->generateDES3(hS, tmpl + 1, cnt ? cnt - 1 : 0, &hNew, isTok, isPriv); const CK_ULONG genMech = CKM_DES3_KEY_GEN, kt = CKK_DES3; const size_t klen = 21; bool lenOk = true;
#endif
	SymObject& n = env_newobj;
	if (nCreate) { vassert(nCreate == 1 && hS == env.hSession && lenOk && createOp == OBJECT_OP_GENERATE && createClass == CKO_SECRET_KEY && createKeyType == kt && createTok == (isTok != CK_FALSE) && createPriv == (isPriv != CK_FALSE)); vreach(); }
	if (rv == CKR_OK)
	{
		vassert(nCreate == 1 && createOk && hNew == createdHandle && env.hm->getObject(hNew) == &n && !n.destroyed);
		vassert(n.nStart == 1 && n.nCommit == 1 && n.nAbort == 0);                          // C09: one transaction, committed
		// ---- C08: history attributes of a generated key
		vassert(n.has_LOCAL && n.b_LOCAL);
		vassert(n.has_KEY_GEN_MECHANISM && n.u_KEY_GEN_MECHANISM == genMech);
		vassert(n.has_ALWAYS_SENSITIVE && n.b_ALWAYS_SENSITIVE == n.b_SENSITIVE);
		vassert(n.has_NEVER_EXTRACTABLE && n.b_NEVER_EXTRACTABLE == !n.b_EXTRACTABLE);
		// ---- C06 / C10: the stored value is exactly the random key, encrypted when the key is private
		size_t off = isPriv ? 1 : 0;
		vassert(n.has_VALUE && n.s_VALUE.size() == klen + off && model_rng_len == klen);
		if (isPriv) vassert(n.s_VALUE[0] == ENC_TAG);
		for (size_t i = 0; i < klen; i++) vassert(n.s_VALUE[i + off] == model_rng_last[i]);
		if (isPriv && n.has_CHECK_VALUE && n.s_CHECK_VALUE.size() > 0) vassert(n.s_CHECK_VALUE[0] == ENC_TAG);
		vreach();
	}
	else
	{	// ---- C09: a failed generation leaves no object and no handle
		vassert(hNew == CK_INVALID_HANDLE || hNew == 0x4321);
		vassert(env.hm->handles.size() == handles0);
		if (nCreate && createOk) { vassert(n.destroyed); vassert(env.hm->getObject(createdHandle) == NULL); vreach(); }
	}
#endif
	vreach_(__LINE__);
}
