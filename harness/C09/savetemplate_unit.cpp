// C09 - "no prefix of a rejected template is applied": real P11Object::saveTemplate (P11Objects.cpp) over an object with two
// real attributes (CKA_LABEL: generic byte string, CKA_SENSITIVE: one-way flag), template of <= 2 entries with symbolic types
// (including unknown ones), lengths, values and operation kind: EVERY error exit aborts the transaction it started, success
// commits it, and nothing is committed after an error.
#include "entry_env.h"
#define private public
#define protected public
#include "P11Objects.h"
#include "P11Attributes.h"
#undef private
#undef protected
extern "C" void harness(void)
{
	env_init(1, 3);
	SymObject& o = env.obj[0]; o.setOk = true;
	static P11Object p11; p11.osobject = &o; p11.initialized = true;
	p11.attributes[CKA_LABEL] = new P11AttrLabel(&o);
	p11.attributes[CKA_SENSITIVE] = new P11AttrSensitive(&o);
	o.nSet = o.nStart = o.nCommit = o.nAbort = 0;
	static CK_ATTRIBUTE tmpl[2]; static unsigned char val[2][4];
	CK_ULONG cnt = TCNT;
	for (int i = 0; i < 2; i++)
	{
		tmpl[i].type = i == 0 ? (CK_ATTRIBUTE_TYPE)T0 : (CK_ATTRIBUTE_TYPE)T1;   // attribute types are concrete per obligation (the attribute lookup then resolves statically), everything else symbolic
		tmpl[i].ulValueLen = nondet_uchar() % 5; tmpl[i].pValue = nondet_bool() ? (CK_VOID_PTR)val[i] : NULL_PTR; for (int k = 0; k < 4; k++) val[i][k] = nondet_uchar();
	}
	int op = nondet_uchar(); vassume(op >= OBJECT_OP_COPY && op <= OBJECT_OP_UNWRAP);
	bool isPriv = o.getBooleanValue(CKA_PRIVATE, false);
	CK_RV rv = p11.saveTemplate(env.token, isPriv, tmpl, cnt, op);
	vassert(o.nStart == 1);
	const bool hasUnknown = (TCNT >= 1 && (CK_ATTRIBUTE_TYPE)T0 != CKA_LABEL && (CK_ATTRIBUTE_TYPE)T0 != CKA_SENSITIVE) || (TCNT >= 2 && (CK_ATTRIBUTE_TYPE)T1 != CKA_LABEL && (CK_ATTRIBUTE_TYPE)T1 != CKA_SENSITIVE);
	if (rv == CKR_OK) { vassert(o.nCommit == 1 && o.nAbort == 0); if (!hasUnknown) vreach(); }
	else { vassert(o.nCommit == 0); vassert(o.nAbort == 1); vreach(); }                              // every refusal rolls back
	// a template whose SECOND entry is rejected after the first was applied: rolled back as well
	if (rv != CKR_OK && o.nSet > 0) { vassert(o.nAbort == 1); if (TCNT == 2) vreach(); }
	for (CK_ULONG i = 0; i < 2; i++) if (i < cnt && tmpl[i].type != CKA_LABEL && tmpl[i].type != CKA_SENSITIVE) { vassert(rv != CKR_OK); if (hasUnknown) vreach(); }   // unknown attribute type
	if (op == OBJECT_OP_SET && !o.getBooleanValue(CKA_MODIFIABLE, true)) vassert(rv == CKR_ACTION_PROHIBITED && o.nSet == 0);
	if (op == OBJECT_OP_COPY && !o.getBooleanValue(CKA_COPYABLE, true)) vassert(rv == CKR_ACTION_PROHIBITED && o.nSet == 0);
	vreach();
}
