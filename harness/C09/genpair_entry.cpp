// C09 / C08 / C06 / C01 / C07 - key-pair generation (real SoftHSM.cpp).
//   GEN 0  C_GenerateKeyPair wrapper: advertised mechanism, template classes / key type consistent, authorisation on the union of both
//          templates (private -> logged-in user, token -> RW session); generators are cuts
//   GEN 1  generateEC (real) with CreateObject cut and a model key pair: attributes of both objects, private value stored encrypted when
//          the private key object is private, one committed transaction per object, and the clean-up of BOTH objects when any step fails
#include "entry_env.h"
#include "spec_mech.h"
#include "P11Attributes.h"
#include "ECPublicKey.h"
#include "ECPrivateKey.h"
#include "ECParameters.h"
#include "AsymmetricKeyPair.h"
#include "EDPublicKey.h"
#include "EDPrivateKey.h"
#include "DHPublicKey.h"
#include "DHPrivateKey.h"
#include "DHParameters.h"
#ifndef KIND
#define KIND 1      /* 1 EC, 2 EdDSA, 3 DH */
#endif
extern "C" bool det_token_encrypt(Token*, const ByteString& in, ByteString& out) { store_log.encrypts++; out.resize(in.size() + 1); out[0] = ENC_TAG; for (size_t i = 0; i < in.size(); i++) out[i + 1] = in.const_byte_str()[i]; return true; }
static SymObject env_newobj2;
static unsigned long nCreate, nGen; static bool createOk[2]; static CK_OBJECT_HANDLE createdHandle[2]; static int createOp[2]; static CK_ULONG createClass[2], createKeyType[2]; static bool createTok[2], createPriv[2];
extern "C" CK_RV sink_create(SoftHSM* h, CK_SESSION_HANDLE hs, CK_ATTRIBUTE_PTR a, CK_ULONG n, CK_OBJECT_HANDLE_PTR ph, int op)
{
	unsigned k = nCreate < 2 ? nCreate : 1; nCreate++; SymObject& o = k ? env_newobj2 : env_newobj;
	createOp[k] = op; createTok[k] = false; createPriv[k] = true; createClass[k] = createKeyType[k] = ~0UL;
	o.has_SENSITIVE = true; o.b_SENSITIVE = false; o.has_EXTRACTABLE = true; o.b_EXTRACTABLE = false;
	for (CK_ULONG i = 0; i < n && i < 8; i++)
	{
		if (a[i].type == CKA_TOKEN) createTok[k] = *(CK_BBOOL*)a[i].pValue != CK_FALSE; if (a[i].type == CKA_PRIVATE) createPriv[k] = *(CK_BBOOL*)a[i].pValue != CK_FALSE;
		if (a[i].type == CKA_CLASS) createClass[k] = *(CK_ULONG*)a[i].pValue; if (a[i].type == CKA_KEY_TYPE) createKeyType[k] = *(CK_ULONG*)a[i].pValue;
		if (a[i].type == CKA_SENSITIVE) o.b_SENSITIVE = *(CK_BBOOL*)a[i].pValue != CK_FALSE;
		if (a[i].type == CKA_EXTRACTABLE) o.b_EXTRACTABLE = *(CK_BBOOL*)a[i].pValue != CK_FALSE;
	}
	if (!createOk[k]) return CKR_TEMPLATE_INCONSISTENT;
	o.has_PRIVATE = true; o.b_PRIVATE = createPriv[k]; o.has_TOKEN = true; o.b_TOKEN = createTok[k];
	createdHandle[k] = createTok[k] ? env.hm->addTokenObject(env.slotID, createPriv[k], &o) : env.hm->addSessionObject(env.slotID, hs, createPriv[k], &o);
	*ph = createdHandle[k]; return CKR_OK;
}
static int genWhich; static CK_BBOOL gPubTok, gPubPriv, gPrivTok, gPrivPriv;
#define GP_SINK(name, w) extern "C" CK_RV name(SoftHSM*, CK_SESSION_HANDLE, CK_ATTRIBUTE_PTR, CK_ULONG, CK_ATTRIBUTE_PTR, CK_ULONG, CK_OBJECT_HANDLE_PTR, CK_OBJECT_HANDLE_PTR, CK_BBOOL a, CK_BBOOL b, CK_BBOOL c, CK_BBOOL d) { nGen++; genWhich = w; gPubTok = a; gPubPriv = b; gPrivTok = c; gPrivPriv = d; return nondet_bool() ? CKR_OK : CKR_FUNCTION_FAILED; }
GP_SINK(sink_genRSA, 1) GP_SINK(sink_genDSA, 2) GP_SINK(sink_genDH, 3) GP_SINK(sink_genEC, 4) GP_SINK(sink_genED, 5) GP_SINK(sink_genGOST, 6)    /* generateGOST exists without WITH_GOST but must be unreachable */
#if KIND == 1
class MPub : public ECPublicKey { public: virtual unsigned long getOrderLength() const { return 2; } };
class MPriv : public ECPrivateKey { public: virtual unsigned long getOrderLength() const { return 2; } virtual ByteString PKCS8Encode() { return ByteString(); } virtual bool PKCS8Decode(const ByteString&) { return false; } };
#define GEN_CALL generateEC
#define GEN_MECH CKM_EC_KEY_PAIR_GEN
#define GEN_KT CKK_EC
#define PARAM_ATTR CKA_EC_PARAMS
#elif KIND == 2
class MPub : public EDPublicKey { public: virtual unsigned long getOrderLength() const { return 2; } };
class MPriv : public EDPrivateKey { public: virtual unsigned long getOrderLength() const { return 2; } virtual ByteString PKCS8Encode() { return ByteString(); } virtual bool PKCS8Decode(const ByteString&) { return false; } };
#define GEN_CALL generateED
#define GEN_MECH CKM_EC_EDWARDS_KEY_PAIR_GEN
#define GEN_KT CKK_EC_EDWARDS
#define PARAM_ATTR CKA_EC_PARAMS
#else
class MPub : public DHPublicKey { public: };
class MPriv : public DHPrivateKey { public: virtual ByteString PKCS8Encode() { return ByteString(); } virtual bool PKCS8Decode(const ByteString&) { return false; } };
#define GEN_CALL generateDH
#define GEN_MECH CKM_DH_PKCS_KEY_PAIR_GEN
#define GEN_KT CKK_DH
#define PARAM_ATTR CKA_PRIME
#endif
class MKp : public AsymmetricKeyPair { public: MPub pub; MPriv priv;
	virtual PublicKey* getPublicKey() { return &pub; } virtual const PublicKey* getConstPublicKey() const { return &pub; }
	virtual PrivateKey* getPrivateKey() { return &priv; } virtual const PrivateKey* getConstPrivateKey() const { return &priv; } };
static MKp kp;
extern "C" void harness(void)
{
	env_init(0, 2);
	env_newobj_reset(); env_newobj2.valid = true; env_newobj2.destroyed = false; env_newobj2.destroyOk = true; env_newobj2.setOk = nondet_bool();
	createOk[0] = nondet_bool(); createOk[1] = nondet_bool();
	SoftHSM* hsm = env.hsm; Session* s = env.session;
	bool userIn = env_user_logged_in(), rw = s->isReadWrite;
	CK_SESSION_HANDLE hS = nondet_bool() ? env.hSession : nondet_ulong();
	CK_OBJECT_HANDLE hPub = 0x4321, hPriv = 0x4322; size_t handles0 = env.hm->handles.size();
	static CK_BYTE ecp[2]; ecp[0] = nondet_uchar(); ecp[1] = nondet_uchar();
	static CK_BBOOL tSens, tExtr, tTokA, tPrivA, tTokB, tPrivB; tSens = nondet_uchar(); tExtr = nondet_uchar(); tTokA = nondet_uchar(); tPrivA = nondet_uchar(); tTokB = nondet_uchar(); tPrivB = nondet_uchar();
	static CK_ATTRIBUTE pubT[2], privT[3];
	pubT[0].type = PARAM_ATTR; pubT[0].pValue = ecp; pubT[0].ulValueLen = 2;
	privT[0].type = CKA_SENSITIVE; privT[0].pValue = &tSens; privT[0].ulValueLen = 1; privT[1].type = CKA_EXTRACTABLE; privT[1].pValue = &tExtr; privT[1].ulValueLen = 1;
#if GEN == 0
	bool aTok = nondet_bool(), bTok = nondet_bool();
	pubT[1].type = aTok ? CKA_TOKEN : CKA_PRIVATE; pubT[1].pValue = aTok ? &tTokA : &tPrivA; pubT[1].ulValueLen = 1;
	privT[2].type = bTok ? CKA_TOKEN : CKA_PRIVATE; privT[2].pValue = bTok ? &tTokB : &tPrivB; privT[2].ulValueLen = 1;
	CK_ULONG nPub = 1 + (nondet_uchar() & 1), nPriv = 2 + (nondet_uchar() & 1);
	bool pubTok = nPub == 2 && aTok ? tTokA != 0 : false, pubPriv = nPub == 2 && !aTok ? tPrivA != 0 : false;        // defaults: public key: session, not private
	bool privTok = nPriv == 3 && bTok ? tTokB != 0 : false, privPriv = nPriv == 3 && !bTok ? tPrivB != 0 : true;     //           private key: session, private
	CK_MECHANISM mech; mech.mechanism = nondet_ulong(); mech.pParameter = NULL_PTR; mech.ulParameterLen = 0;
	CK_RV rv = hsm->C_GenerateKeyPair(hS, &mech, pubT, nPub, privT, nPriv, &hPub, &hPriv);
	if (nGen)
	{
		CK_MECHANISM_TYPE m = mech.mechanism;
		vassert(nGen == 1 && hS == env.hSession && in_supported(m) && genWhich != 6);
		vassert((genWhich == 1) == (m == CKM_RSA_PKCS_KEY_PAIR_GEN) && (genWhich == 2) == (m == CKM_DSA_KEY_PAIR_GEN) && (genWhich == 3) == (m == CKM_DH_PKCS_KEY_PAIR_GEN) && (genWhich == 4) == (m == CKM_EC_KEY_PAIR_GEN) && (genWhich == 5) == (m == CKM_EC_EDWARDS_KEY_PAIR_GEN));
		vassert((gPubTok != 0) == pubTok && (gPubPriv != 0) == pubPriv && (gPrivTok != 0) == privTok && (gPrivPriv != 0) == privPriv);
		vassert(!(pubPriv || privPriv) || userIn); vassert(!(pubTok || privTok) || rw);                     // C01
		vreach();
	}
	if (hS == env.hSession && (((pubPriv || privPriv) && !userIn) || ((pubTok || privTok) && !rw))) { vassert(rv != CKR_OK && nGen == 0); vreach(); }
	if (rv == CKR_OK) { vassert(nGen == 1); vreach(); }
	vassert(nCreate == 0 && env.hm->handles.size() == handles0);
#else
	model_keypair = &kp;
	unsigned char q0 = nondet_uchar(), q1 = nondet_uchar(), d0 = nondet_uchar(), d1 = nondet_uchar();
	{ ByteString q; q.resize(2); q[0] = q0; q[1] = q1; ByteString d; d.resize(2); d[0] = d0; d[1] = d1; ByteString e; e.resize(2); e[0] = ecp[0]; e[1] = ecp[1];
#if KIND == 1
	  kp.pub.setQ(q); kp.priv.setD(d); kp.pub.setEC(e); kp.priv.setEC(e);
#elif KIND == 2
	  kp.pub.setA(q); kp.priv.setK(d); kp.pub.setEC(e); kp.priv.setEC(e);
#else
	  kp.pub.setY(q); kp.priv.setX(d); kp.pub.setP(e); kp.priv.setP(e); kp.pub.setG(e); kp.priv.setG(e);
#endif
	}
#if KIND == 3
	static CK_ATTRIBUTE pubDH[2]; pubDH[0] = pubT[0]; pubDH[1].type = CKA_BASE; pubDH[1].pValue = ecp; pubDH[1].ulValueLen = 2;
#endif
	CK_BBOOL pubTok = nondet_bool(), pubPriv = nondet_bool(), privTok = nondet_bool(), privPriv = nondet_bool();
	CK_ULONG nPub = nondet_uchar() & 1, nPriv = nondet_uchar() % 3;
#if KIND == 3
	if (nPub) nPub = 2;
	CK_RV rv = hsm->GEN_CALL(hS, pubDH, nPub, privT, nPriv, &hPub, &hPriv, pubTok, pubPriv, privTok, privPriv);
	if (nPub) nPub = 1;
#else
	CK_RV rv = hsm->GEN_CALL(hS, pubT, nPub, privT, nPriv, &hPub, &hPriv, pubTok, pubPriv, privTok, privPriv);
#endif
	SymObject& A = env_newobj; SymObject& B = env_newobj2;
	if (nCreate >= 1) { vassert(hS == env.hSession && nPub == 1 && createOp[0] == OBJECT_OP_GENERATE && createClass[0] == CKO_PUBLIC_KEY && createKeyType[0] == GEN_KT && createTok[0] == (pubTok != 0) && createPriv[0] == (pubPriv != 0)); vreach(); }
	if (nCreate >= 2) { vassert(nCreate == 2 && createOk[0] && createOp[1] == OBJECT_OP_GENERATE && createClass[1] == CKO_PRIVATE_KEY && createKeyType[1] == GEN_KT && createTok[1] == (privTok != 0) && createPriv[1] == (privPriv != 0)); vreach(); }
	if (rv == CKR_OK)
	{
		vassert(nCreate == 2 && createOk[0] && createOk[1] && hPub == createdHandle[0] && hPriv == createdHandle[1] && env.hm->getObject(hPub) == &A && env.hm->getObject(hPriv) == &B && !A.destroyed && !B.destroyed);
		vassert(A.nStart == 1 && A.nCommit == 1 && A.nAbort == 0 && B.nStart == 1 && B.nCommit == 1 && B.nAbort == 0);
		vassert(A.has_LOCAL && A.b_LOCAL && A.has_KEY_GEN_MECHANISM && A.u_KEY_GEN_MECHANISM == GEN_MECH);
		vassert(B.has_LOCAL && B.b_LOCAL && B.has_KEY_GEN_MECHANISM && B.u_KEY_GEN_MECHANISM == GEN_MECH);
		vassert(B.has_ALWAYS_SENSITIVE && B.b_ALWAYS_SENSITIVE == B.b_SENSITIVE && B.has_NEVER_EXTRACTABLE && B.b_NEVER_EXTRACTABLE == !B.b_EXTRACTABLE);
		size_t off = privPriv ? 1 : 0;                                                       // C06: the private value is stored encrypted when the object is private
		vassert(B.has_VALUE && B.s_VALUE.size() == 2 + off && B.s_VALUE[off] == d0 && B.s_VALUE[off + 1] == d1); if (privPriv) vassert(B.s_VALUE[0] == ENC_TAG);
		vreach();
	}
	else
	{	// ---- C09: a failed generation leaves neither object nor handle behind
		vassert((hPub == CK_INVALID_HANDLE || hPub == 0x4321) && (hPriv == CK_INVALID_HANDLE || hPriv == 0x4322));
		vassert(env.hm->handles.size() == handles0);
		if (nCreate >= 1 && createOk[0]) { vassert(A.destroyed && env.hm->getObject(createdHandle[0]) == NULL); vreach(); }
		if (nCreate >= 2 && createOk[1]) { vassert(B.destroyed && env.hm->getObject(createdHandle[1]) == NULL); vreach(); }
	}
#endif
	vreach();
}
