// C13 / C08 / C09 / C06 - SoftHSM::deriveDH / deriveECDH / deriveEDDSA (real, -DFN): what the derived secret key looks like and the clean-up.
// The primitive (AsymmetricAlgorithm::deriveKey) delivers a model secret of SECLEN symbolic bytes or fails; the base key's private material
// access (get*PrivateKey) and the peer public key construction (get*PublicKey) are cuts; CreateObject is a cut that may fail.
//   value  = the LAST byteLen bytes of the shared secret (PKCS#11: truncate from the leading end), DES keys parity-adjusted, stored
//            encrypted when the derived key is private
//   history: LOCAL false; ALWAYS_SENSITIVE = base.ALWAYS_SENSITIVE && new.SENSITIVE; NEVER_EXTRACTABLE = base.NEVER_EXTRACTABLE && !new.EXTRACTABLE
//   failure (also: requested length longer than the secret): no object, no handle
#include "entry_env.h"
#include "P11Attributes.h"
#ifndef SECLEN
#define SECLEN 4
#endif
#ifndef DKT
#define DKT CKK_GENERIC_SECRET
#endif
extern "C" bool det_token_encrypt(Token*, const ByteString& in, ByteString& out) { store_log.encrypts++; out.resize(in.size() + 1); out[0] = ENC_TAG; for (size_t i = 0; i < in.size(); i++) out[i + 1] = in.const_byte_str()[i]; return true; }
static unsigned long nCreate, nGetPriv, nGetPub; static bool createOk; static CK_OBJECT_HANDLE createdHandle; static int createOp; static CK_ULONG createClass, createKeyType; static bool createTok, createPriv;
extern "C" {
CK_RV sink_create(SoftHSM* h, CK_SESSION_HANDLE hs, CK_ATTRIBUTE_PTR a, CK_ULONG n, CK_OBJECT_HANDLE_PTR ph, int op)
{
	nCreate++; createOp = op; createTok = false; createPriv = true; createClass = createKeyType = ~0UL;
	env_newobj.has_SENSITIVE = true; env_newobj.b_SENSITIVE = false; env_newobj.has_EXTRACTABLE = true; env_newobj.b_EXTRACTABLE = false;
	for (CK_ULONG i = 0; i < n && i < 8; i++)
	{
		if (a[i].type == CKA_TOKEN) createTok = *(CK_BBOOL*)a[i].pValue != CK_FALSE; if (a[i].type == CKA_PRIVATE) createPriv = *(CK_BBOOL*)a[i].pValue != CK_FALSE;
		if (a[i].type == CKA_CLASS) createClass = *(CK_ULONG*)a[i].pValue; if (a[i].type == CKA_KEY_TYPE) createKeyType = *(CK_ULONG*)a[i].pValue;
		if (a[i].type == CKA_SENSITIVE) env_newobj.b_SENSITIVE = *(CK_BBOOL*)a[i].pValue != CK_FALSE;
		if (a[i].type == CKA_EXTRACTABLE) env_newobj.b_EXTRACTABLE = *(CK_BBOOL*)a[i].pValue != CK_FALSE;
	}
	if (!createOk) return CKR_TEMPLATE_INCONSISTENT;
	env_newobj.has_PRIVATE = true; env_newobj.b_PRIVATE = createPriv; env_newobj.has_TOKEN = true; env_newobj.b_TOKEN = createTok;
	createdHandle = createTok ? env.hm->addTokenObject(env.slotID, createPriv, &env_newobj) : env.hm->addSessionObject(env.slotID, hs, createPriv, &env_newobj);
	*ph = createdHandle; return CKR_OK;
}
CK_RV sink_getKey(SoftHSM*, void* k, Token* t, OSObject* o) { nGetPriv++; return nondet_bool() ? CKR_OK : CKR_GENERAL_ERROR; }
CK_RV sink_getPub(SoftHSM*, void* pub, void* priv, ByteString& params) { nGetPub++; return nondet_bool() ? CKR_OK : CKR_GENERAL_ERROR; }
}
static bool odd(unsigned char b) { int n = 0; for (int i = 0; i < 8; i++) n += (b >> i) & 1; return (n & 1) == 1; }
#ifdef BIGT
#undef vreach
#define vreach() do { } while (0)      /* a template that long can only be refused: the success witnesses do not apply */
#endif
extern "C" void harness(void)
{
	env_init(1, 2);
	env_newobj_reset(); createOk = nondet_bool();
	SoftHSM* hsm = env.hsm; SymObject& base = env.obj[0];
	static SymmetricKey secret; unsigned char sec[SECLEN]; { ByteString b; b.resize(SECLEN); for (int i = 0; i < SECLEN; i++) { sec[i] = nondet_uchar(); b[i] = sec[i]; } secret.setKeyBits(b); }
	model_secret = &secret; model_hash.hashSize = 3;
	static CK_BYTE peer[4]; for (int i = 0; i < 4; i++) peer[i] = nondet_uchar();
	static CK_ECDH1_DERIVE_PARAMS ecp; ecp.kdf = nondet_bool() ? CKD_NULL : nondet_ulong(); ecp.ulSharedDataLen = nondet_bool() ? 0 : nondet_uchar(); ecp.pSharedData = ecp.ulSharedDataLen ? peer : NULL_PTR; ecp.ulPublicDataLen = nondet_uchar() % 5; ecp.pPublicData = nondet_bool() ? peer : NULL_PTR;
	CK_MECHANISM mech;
#if FN == 0
	mech.mechanism = CKM_DH_PKCS_DERIVE; mech.pParameter = nondet_bool() ? peer : NULL_PTR; mech.ulParameterLen = nondet_uchar() % 5;
#else
	mech.mechanism = CKM_ECDH1_DERIVE; mech.pParameter = nondet_bool() ? (CK_VOID_PTR)&ecp : NULL_PTR; mech.ulParameterLen = nondet_bool() ? sizeof(ecp) : nondet_uchar();
#endif
	static CK_ULONG vlen; static CK_BBOOL tSens, tExtr; vlen = nondet_uchar(); tSens = nondet_uchar(); tExtr = nondet_uchar();
	static CK_ATTRIBUTE tmpl[3];
	tmpl[0].type = CKA_VALUE_LEN; tmpl[0].pValue = &vlen; tmpl[0].ulValueLen = sizeof(vlen);
	tmpl[1].type = CKA_SENSITIVE; tmpl[1].pValue = &tSens; tmpl[1].ulValueLen = 1; tmpl[2].type = CKA_EXTRACTABLE; tmpl[2].pValue = &tExtr; tmpl[2].ulValueLen = 1;
	const bool des = DKT == CKK_DES || DKT == CKK_DES2 || DKT == CKK_DES3;
	CK_ATTRIBUTE* T = des ? tmpl + 1 : tmpl; CK_ULONG cnt = des ? nondet_uchar() % 3 : nondet_uchar() % 4;       // DES keys must not carry CKA_VALUE_LEN
	vassume(vlen <= SECLEN + 2);
#ifdef BIGT
	// C17: a template longer than the derivation's fixed attribute array: refused, nothing written out of range
	static CK_ATTRIBUTE big[BIGT]; static CK_BYTE bigv; bigv = nondet_uchar();
	for (int i = 0; i < BIGT; i++) { if (i < 3) big[i] = tmpl[i]; else { big[i].type = CKA_LABEL; big[i].pValue = &bigv; big[i].ulValueLen = 1; } }
	T = big; cnt = BIGT;      // (count and entry types concrete: the loop shape stays concrete, pointer checks stay affordable)
#endif
	// DH: a generic secret needs CKA_VALUE_LEN; ECDH / EdDSA: a missing or zero CKA_VALUE_LEN means the whole shared secret
	const size_t want = DKT == CKK_DES ? 8 : DKT == CKK_DES2 ? 16 : DKT == CKK_DES3 ? 24 : (cnt >= 1 && vlen != 0 ? vlen : (FN == 0 ? 0 : SECLEN));
	CK_BBOOL isTok = nondet_bool(), isPriv = nondet_bool();
	CK_SESSION_HANDLE hS = nondet_bool() ? env.hSession : nondet_ulong(); CK_OBJECT_HANDLE hK = nondet_bool() ? env.hObj[0] : nondet_ulong();
	CK_OBJECT_HANDLE hNew = 0x4321; size_t handles0 = env.hm->handles.size();
	bool bAS = base.getBooleanValue(CKA_ALWAYS_SENSITIVE, false), bNE = base.getBooleanValue(CKA_NEVER_EXTRACTABLE, true);
#if FN == 0
	CK_RV rv = hsm->deriveDH(hS, &mech, hK, T, cnt, &hNew, DKT, isTok, isPriv);
#elif FN == 1
	CK_RV rv = hsm->deriveECDH(hS, &mech, hK, T, cnt, &hNew, DKT, isTok, isPriv);
#else
	CK_RV rv = hsm->deriveEDDSA(hS, &mech, hK, T, cnt, &hNew, DKT, isTok, isPriv);
#endif
	SymObject& n = env_newobj;
	if (nCreate) { vassert(nCreate == 1 && hS == env.hSession && hK == env.hObj[0] && base.valid && createOp == OBJECT_OP_DERIVE && createClass == CKO_SECRET_KEY && createKeyType == DKT && createTok == (isTok != 0) && createPriv == (isPriv != 0)); vreach(); }
	if (rv == CKR_OK)
	{
		vassert(nCreate == 1 && createOk && hNew == createdHandle && env.hm->getObject(hNew) == &n && !n.destroyed);
		vassert(n.nStart == 1 && n.nCommit == 1 && n.nAbort == 0);
		vassert(want >= 1 && want <= SECLEN);                                   // never more bytes than the shared secret has
		// ---- C08: history attributes
		vassert(n.has_LOCAL && !n.b_LOCAL);
		vassert(n.has_ALWAYS_SENSITIVE && n.b_ALWAYS_SENSITIVE == (bAS && n.b_SENSITIVE));
		vassert(n.has_NEVER_EXTRACTABLE && n.b_NEVER_EXTRACTABLE == (bNE && !n.b_EXTRACTABLE));
		// ---- C13 / C06: the value is the trailing `want` bytes of the shared secret (parity-adjusted for DES), encrypted when private
		size_t off = isPriv ? 1 : 0;
		vassert(n.has_VALUE && n.s_VALUE.size() == want + off); if (isPriv) vassert(n.s_VALUE[0] == ENC_TAG);
		for (size_t i = 0; i < SECLEN; i++) if (i < want)
		{
			unsigned char got = n.s_VALUE[off + i], exp = sec[SECLEN - want + i];
			if (des) vassert((got & 0xFE) == (exp & 0xFE) && odd(got)); else vassert(got == exp);
		}
		// ---- C13: the check value is computed from the FINAL key value with the check-value algorithm of the key type (generic secret: digest of
		// the value; DES / AES: encryption under the key) - not from the untruncated shared secret, not with another type's algorithm
		{
			if (des) { vassert(kcv_seen.hashGets == 0 && kcv_seen.symGets == 1 && kcv_seen.lastSymAlgo == (unsigned long)(DKT == CKK_DES ? SymAlgo::DES : SymAlgo::DES3)); vassert(kcv_seen.keyLen == want); for (size_t i = 0; i < 4; i++) if (i < want) vassert(kcv_seen.key[i] == n.s_VALUE[off + i]); }
			else if (DKT == CKK_AES) { vassert(kcv_seen.hashGets == 0 && kcv_seen.symGets == 1 && kcv_seen.lastSymAlgo == (unsigned long)SymAlgo::AES && kcv_seen.keyLen == want); }
			else {
				vassert(kcv_seen.symGets == 0);
				vassert(kcv_seen.hashGets == 1);
				if (kcv_seen.hashUpdates) { vassert(kcv_seen.hashUpdates == 1 && kcv_seen.hashLen == want); for (size_t i = 0; i < 4; i++) if (i < want) vassert(kcv_seen.hashIn[i] == n.s_VALUE[off + i]); vreach(); } }
		}
		vreach();
	}
	else
	{	// ---- C09: a failed derivation leaves no object and no handle
		vassert(hNew == CK_INVALID_HANDLE || hNew == 0x4321);
		vassert(env.hm->handles.size() == handles0);
		if (nCreate && createOk) { vassert(n.destroyed); vassert(env.hm->getObject(createdHandle) == NULL); vreach(); }
	}
	vreach_(__LINE__);
}
