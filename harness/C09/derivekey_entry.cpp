// C01 / C07 / C13 - SoftHSM::C_DeriveKey wrapper (real): guards on the base key and gates for the key to be created; the derivation bodies
// (deriveDH / deriveECDH / deriveEDDSA / deriveSymmetric) are cuts that record their arguments (deriveSymmetric itself: obligations derive_*).
#include "entry_env.h"
#include "spec_mech.h"
static unsigned long nDerive; static int which; static CK_KEY_TYPE dKt; static CK_BBOOL dTok, dPriv; static CK_OBJECT_HANDLE dBase; static CK_SESSION_HANDLE dSess;
#define DSINK(name, w) extern "C" CK_RV name(SoftHSM*, CK_SESSION_HANDLE hs, CK_MECHANISM_PTR, CK_OBJECT_HANDLE hb, CK_ATTRIBUTE_PTR, CK_ULONG, CK_OBJECT_HANDLE_PTR, CK_KEY_TYPE kt, CK_BBOOL tok, CK_BBOOL priv) { nDerive++; which = w; dKt = kt; dTok = tok; dPriv = priv; dBase = hb; dSess = hs; return nondet_bool() ? CKR_OK : CKR_FUNCTION_FAILED; }
DSINK(sink_deriveDH, 1) DSINK(sink_deriveECDH, 2) DSINK(sink_deriveEDDSA, 3) DSINK(sink_deriveSym, 4)
extern "C" void harness(void)
{
	env_init(1, 2);
	SoftHSM* hsm = env.hsm; Session* s = env.session; SymObject& key = env.obj[0];
	static unsigned long paramw[4]; CK_MECHANISM mech; mech.mechanism = nondet_ulong(); mech.pParameter = paramw; mech.ulParameterLen = nondet_uchar(); vassume(mech.ulParameterLen <= sizeof(paramw));
	static CK_ATTRIBUTE tmpl[3]; static CK_OBJECT_CLASS cls; static CK_KEY_TYPE kt; static CK_BBOOL bTok, bPriv;
	cls = nondet_bool() ? CKO_SECRET_KEY : nondet_ulong(); kt = nondet_ulong(); bTok = nondet_uchar(); bPriv = nondet_uchar();
	bool haveTok = nondet_bool(), haveCls = nondet_bool(), haveKt = nondet_bool();
	tmpl[0].type = haveCls ? CKA_CLASS : CKA_LABEL; tmpl[0].pValue = &cls; tmpl[0].ulValueLen = sizeof(cls);
	tmpl[1].type = haveKt ? CKA_KEY_TYPE : CKA_ID; tmpl[1].pValue = &kt; tmpl[1].ulValueLen = sizeof(kt);
	tmpl[2].type = haveTok ? CKA_TOKEN : CKA_PRIVATE; tmpl[2].pValue = haveTok ? &bTok : &bPriv; tmpl[2].ulValueLen = 1;
	CK_ULONG cnt = 2 + (nondet_uchar() & 1);
	bool newTok = cnt == 3 && haveTok ? bTok != 0 : false, newPriv = cnt == 3 && !haveTok ? bPriv != 0 : true;
	CK_SESSION_HANDLE hS = nondet_bool() ? env.hSession : nondet_ulong(); CK_OBJECT_HANDLE hK = nondet_bool() ? env.hObj[0] : nondet_ulong();
	CK_OBJECT_HANDLE hNew = 0x4321; size_t handles0 = env.hm->handles.size(); int op0 = s->operation;
	bool userIn = env_user_logged_in(), rw = s->isReadWrite, kPriv = key.getBooleanValue(CKA_PRIVATE, true);
	bool allowedEmpty = true, allowedHas = false; if (key.has_ALLOWED) for (int m = 0; m < ALLOWED_CAP; m++) if (key.allowed.u_[m]) { allowedEmpty = false; if (key.allowed.k_[m] == mech.mechanism) allowedHas = true; }
	CK_ULONG kClass = key.getUnsignedLongValue(CKA_CLASS, CKO_VENDOR_DEFINED), kType = key.getUnsignedLongValue(CKA_KEY_TYPE, CKK_VENDOR_DEFINED);
	CK_RV rv = hsm->C_DeriveKey(hS, &mech, hK, tmpl, cnt, &hNew);
	if (nDerive)
	{
		CK_MECHANISM_TYPE m = mech.mechanism;
		vassert(nDerive == 1 && hS == env.hSession && hK == env.hObj[0] && key.valid && dBase == hK && dSess == hS);
		vassert(!kPriv || userIn);                                                  // C01: private base key only for the logged-in user
		vassert(key.getBooleanValue(CKA_DERIVE, false));                            // C07: usage flag
		vassert(allowedEmpty || allowedHas); vassert(in_supported(m));
		// C07 / C13: the base key's class and type fit the mechanism, and the right derivation is chosen
		bool concat = m == CKM_CONCATENATE_DATA_AND_BASE || m == CKM_CONCATENATE_BASE_AND_DATA || m == CKM_CONCATENATE_BASE_AND_KEY;
		if (m == CKM_DH_PKCS_DERIVE) vassert(which == 1 && kClass == CKO_PRIVATE_KEY && kType == CKK_DH);
		else if (m == CKM_ECDH1_DERIVE) vassert(kClass == CKO_PRIVATE_KEY && ((which == 2 && kType == CKK_EC) || (which == 3 && kType == CKK_EC_EDWARDS)));
		else
		{
			vassert(which == 4 && kClass == CKO_SECRET_KEY);
			vassert(concat || m == CKM_DES_ECB_ENCRYPT_DATA || m == CKM_DES_CBC_ENCRYPT_DATA || m == CKM_DES3_ECB_ENCRYPT_DATA || m == CKM_DES3_CBC_ENCRYPT_DATA || m == CKM_AES_ECB_ENCRYPT_DATA || m == CKM_AES_CBC_ENCRYPT_DATA);
			if (m == CKM_DES_ECB_ENCRYPT_DATA || m == CKM_DES_CBC_ENCRYPT_DATA) vassert(kType == CKK_DES);
			if (m == CKM_DES3_ECB_ENCRYPT_DATA || m == CKM_DES3_CBC_ENCRYPT_DATA) vassert(kType == CKK_DES2 || kType == CKK_DES3);
			if (m == CKM_AES_ECB_ENCRYPT_DATA || m == CKM_AES_CBC_ENCRYPT_DATA) vassert(kType == CKK_AES);
		}
		// the key to be created: a secret key of a supported type; private only for the user, token object only via RW
		CK_KEY_TYPE wantKt = haveKt ? kt : CKK_GENERIC_SECRET;
		if (!concat) vassert(haveCls && haveKt);
		if (haveCls) vassert(cls == CKO_SECRET_KEY);
		vassert(dKt == wantKt && (dKt == CKK_GENERIC_SECRET || dKt == CKK_DES || dKt == CKK_DES2 || dKt == CKK_DES3 || dKt == CKK_AES));
		vassert((dTok != CK_FALSE) == newTok && (dPriv != CK_FALSE) == newPriv);
		vassert(!newPriv || userIn); vassert(!newTok || rw);
		vreach();
	}
	if (hS == env.hSession && hK == env.hObj[0] && kPriv && !userIn) { vassert(rv != CKR_OK && nDerive == 0); vreach(); }
	if (hS == env.hSession && hK == env.hObj[0] && !key.getBooleanValue(CKA_DERIVE, false)) { vassert(rv != CKR_OK && nDerive == 0); vreach(); }
	if (rv == CKR_OK) { vassert(nDerive == 1); vreach(); }
	vassert(s->operation == op0 && env.hm->handles.size() == handles0);
	vreach();
}
