// C09 / C01 - SoftHSM::C_CreateObject (CreateObject): access gates for the object to be created and clean-up of the half-built object.
// Template of <= 3 entries (CKA_CLASS fixed to one of two representative classes, CKA_TOKEN / CKA_PRIVATE / anything else symbolic);
// object creation, P11Object::init / saveTemplate are sinks with symbolic results (the policy engine behind them is C02/C08's subject).
#include "entry_env.h"
#include "p11_sink_model.h"
extern "C" void harness(void)
{
	env_init(0, 0);
	env_newobj_reset(); p11_sink_reset(); env_newobj.setOk = nondet_bool();
	SoftHSM* hsm = env.hsm; Session* s = env.session;
	static CK_ATTRIBUTE tmpl[3]; static unsigned char val[3][8];
	CK_ULONG cnt = 1 + nondet_uchar() % 3;
	static CK_OBJECT_CLASS cls; cls = nondet_bool() ? CKO_DATA : CKO_SECRET_KEY; static CK_KEY_TYPE kt = CKK_AES;
	tmpl[0].type = CKA_CLASS; tmpl[0].pValue = &cls; tmpl[0].ulValueLen = sizeof(cls);
	bool tTok = false, tPriv = true;   // PKCS#11 defaults used by the code when the template is silent: session object, private
	for (int i = 1; i < 3; i++)
	{
		unsigned sel = nondet_uchar() % 4; tmpl[i].type = sel == 0 ? CKA_TOKEN : sel == 1 ? CKA_PRIVATE : sel == 2 ? CKA_KEY_TYPE : nondet_ulong();
		vassume(tmpl[i].type != CKA_CLASS && tmpl[i].type != CKA_CERTIFICATE_TYPE);
		if (tmpl[i].type == CKA_KEY_TYPE) { tmpl[i].pValue = &kt; tmpl[i].ulValueLen = sizeof(kt); }
		else { tmpl[i].pValue = val[i]; tmpl[i].ulValueLen = nondet_uchar() % 9; for (int k = 0; k < 8; k++) val[i][k] = nondet_uchar(); }
		if ((CK_ULONG)i < cnt && tmpl[i].type == CKA_TOKEN && tmpl[i].ulValueLen == 1) tTok = val[i][0];
		if ((CK_ULONG)i < cnt && tmpl[i].type == CKA_PRIVATE && tmpl[i].ulValueLen == 1) tPriv = val[i][0];
	}
	vassume(!(cnt == 3 && tmpl[1].type == tmpl[2].type));
	CK_SESSION_HANDLE hS = nondet_bool() ? env.hSession : nondet_ulong();
	CK_OBJECT_HANDLE hNew = 0x4321; size_t handles0 = env.hm->handles.size(); bool userIn = env_user_logged_in(); bool rw = s->isReadWrite;
	CK_RV rv = hsm->C_CreateObject(hS, tmpl, cnt, &hNew);
	bool created = (store_log.tokCreates || store_log.sessCreates) && !store_log.createFails;
	// ---- C01: private objects only for the logged-in user, token objects only through RW sessions
	if (store_log.tokCreates || store_log.sessCreates)
	{
		vassert(hS == env.hSession);
		vassert(!tPriv || userIn); vassert(!tTok || rw);
		vassert((store_log.tokCreates > 0) == (tTok != 0));
		if (store_log.sessCreates) vassert(store_log.lastSessPriv == (tPriv != 0) && store_log.lastSessHandle == hS && store_log.lastSlot == env.slotID);
		vreach();
	}
	if (hS == env.hSession && tPriv && !userIn) { vassert(rv != CKR_OK && !store_log.tokCreates && !store_log.sessCreates); vreach(); }
	if (hS == env.hSession && tTok && !rw) { vassert(rv != CKR_OK && !store_log.tokCreates && !store_log.sessCreates); vreach(); }
	// ---- C09: a failed creation leaves no object and no handle behind
	if (rv != CKR_OK)
	{
		vassert(env.hm->handles.size() == handles0);
		vassert(hNew == 0x4321 || hNew == CK_INVALID_HANDLE);
		if (created) { vassert(env_newobj.destroyed); vreach(); }          // the half-built object is destroyed
	}
	else
	{
		vassert(created && !env_newobj.destroyed && p11_log.saves == 1 && p11_log.saveRv == CKR_OK);
		vassert(env.hm->getObject(hNew) == &env_newobj);
		vassert(p11_log.lastIsPrivate == (tPriv != 0) && p11_log.lastOp == OBJECT_OP_CREATE);
		// history attributes of an imported key tell the truth
		if (cls == CKO_SECRET_KEY) { vassert(env_newobj.has_LOCAL && !env_newobj.b_LOCAL && env_newobj.has_ALWAYS_SENSITIVE && !env_newobj.b_ALWAYS_SENSITIVE && env_newobj.has_NEVER_EXTRACTABLE && !env_newobj.b_NEVER_EXTRACTABLE); vreach(); }
		vreach();
	}
	vreach();
}
