// C02 / C08 / C13 / C09 - SoftHSM::deriveSymmetric (real) for the concatenation mechanisms (-DMECH): inheritance of the protections,
// truthful history attributes, exact derived value, clean-up on failure.  Base key (and second key) are SymObjects with symbolic
// flags and 2-byte values; the template supplies symbolic CKA_SENSITIVE / CKA_EXTRACTABLE; CreateObject is a cut that hands out
// env_newobj with the template's flags applied (or fails); Token::encrypt/decrypt = tagging model.
#include "entry_env.h"
#include "P11Attributes.h"
// deterministic tagging model here: the pinned code ignores the result of Token::encrypt when it stores the derived value (a failing
// encryption is a fault, outside the quantifiers of C02/C08/C13)
extern "C" bool det_token_encrypt(Token*, const ByteString& in, ByteString& out) { store_log.encrypts++; out.resize(in.size() + 1); out[0] = ENC_TAG; for (size_t i = 0; i < in.size(); i++) out[i + 1] = in.const_byte_str()[i]; return true; }
static unsigned long nCreate; static bool createOk; static CK_OBJECT_HANDLE createdHandle; static int createOp;
extern "C" CK_RV sink_create(SoftHSM* h, CK_SESSION_HANDLE hs, CK_ATTRIBUTE_PTR a, CK_ULONG n, CK_OBJECT_HANDLE_PTR ph, int op)
{
	nCreate++; createOp = op; bool tok = false, priv = true;
	if (!createOk) return CKR_TEMPLATE_INCONSISTENT;
	// defaults of a derived secret key, then the template
	env_newobj.has_SENSITIVE = true; env_newobj.b_SENSITIVE = false; env_newobj.has_EXTRACTABLE = true; env_newobj.b_EXTRACTABLE = false;
	env_newobj.has_ALWAYS_SENSITIVE = true; env_newobj.b_ALWAYS_SENSITIVE = false; env_newobj.has_NEVER_EXTRACTABLE = true; env_newobj.b_NEVER_EXTRACTABLE = true; env_newobj.has_LOCAL = true; env_newobj.b_LOCAL = false;
	for (CK_ULONG i = 0; i < n && i < 8; i++)
	{
		if (a[i].type == CKA_TOKEN) tok = *(CK_BBOOL*)a[i].pValue; if (a[i].type == CKA_PRIVATE) priv = *(CK_BBOOL*)a[i].pValue;
		if (a[i].type == CKA_SENSITIVE) env_newobj.b_SENSITIVE = *(CK_BBOOL*)a[i].pValue != CK_FALSE;
		if (a[i].type == CKA_EXTRACTABLE) env_newobj.b_EXTRACTABLE = *(CK_BBOOL*)a[i].pValue != CK_FALSE;
	}
	env_newobj.has_PRIVATE = true; env_newobj.b_PRIVATE = priv;
	createdHandle = tok ? env.hm->addTokenObject(env.slotID, priv, &env_newobj) : env.hm->addSessionObject(env.slotID, hs, priv, &env_newobj);
	*ph = createdHandle; return CKR_OK;
}
static void plain(SymObject& k, unsigned char& a, unsigned char& b)
{	// key value: 2 symbolic bytes, stored encrypted when the key is private
	a = nondet_uchar(); b = nondet_uchar(); k.has_VALUE = true; k.valid = true;
	vassume(k.has_SENSITIVE && k.has_EXTRACTABLE && k.has_ALWAYS_SENSITIVE && k.has_NEVER_EXTRACTABLE && k.has_PRIVATE);   // every secret key carries these attributes (P11SecretKeyObj::init defaults)
	if (k.getBooleanValue(CKA_PRIVATE, false)) { k.s_VALUE.resize(3); k.s_VALUE[0] = ENC_TAG; k.s_VALUE[1] = a; k.s_VALUE[2] = b; } else { k.s_VALUE.resize(2); k.s_VALUE[0] = a; k.s_VALUE[1] = b; }
}
extern "C" void harness(void)
{
	env_init(2, 2);
	env_newobj_reset(); createOk = nondet_bool(); model_hash.hashSize = 3;   // env_newobj.setOk stays symbolic: storing an attribute of the new object may fail
	SoftHSM* hsm = env.hsm; SymObject& base = env.obj[0]; SymObject& other = env.obj[1];
	unsigned char b0, b1, o0, o1; plain(base, b0, b1); plain(other, o0, o1);
	static CK_BYTE d[2]; d[0] = nondet_uchar(); d[1] = nondet_uchar();
	static CK_BYTE d16[16]; for (int i = 0; i < 16; i++) d16[i] = nondet_uchar();
	static CK_KEY_DERIVATION_STRING_DATA sd; sd.pData = GENERIC ? d16 : d; sd.ulLen = GENERIC ? 16 : 2; static CK_OBJECT_HANDLE hOther; hOther = env.hObj[1];
	CK_MECHANISM mech; mech.mechanism = MECH;
	if (MECH == CKM_CONCATENATE_BASE_AND_KEY) { mech.pParameter = &hOther; mech.ulParameterLen = sizeof(hOther); } else { mech.pParameter = &sd; mech.ulParameterLen = sizeof(sd); }
	static CK_BBOOL tSens, tExtr; tSens = nondet_uchar(); tExtr = nondet_uchar();
	static CK_ULONG vlen = 2; static CK_ATTRIBUTE tmpl[3]; tmpl[2].type = CKA_VALUE_LEN; tmpl[2].pValue = &vlen; tmpl[2].ulValueLen = sizeof(vlen);
	tmpl[0].type = CKA_SENSITIVE; tmpl[0].pValue = &tSens; tmpl[0].ulValueLen = 1; tmpl[1].type = CKA_EXTRACTABLE; tmpl[1].pValue = &tExtr; tmpl[1].ulValueLen = 1;
	CK_ULONG cnt = GENERIC ? 3 : nondet_uchar() % 3;      // the data-encryption mechanisms need CKA_VALUE_LEN for a generic secret
	bool isPrivate = nondet_bool();
	CK_OBJECT_HANDLE hNew = 0x4321; size_t handles0 = env.hm->handles.size();
	bool bSens = base.getBooleanValue(CKA_SENSITIVE, true), bExtr = base.getBooleanValue(CKA_EXTRACTABLE, false), bAS = base.getBooleanValue(CKA_ALWAYS_SENSITIVE, false), bNE = base.getBooleanValue(CKA_NEVER_EXTRACTABLE, false);
	bool oSens = other.getBooleanValue(CKA_SENSITIVE, true), oExtr = other.getBooleanValue(CKA_EXTRACTABLE, false), oAS = other.getBooleanValue(CKA_ALWAYS_SENSITIVE, false), oNE = other.getBooleanValue(CKA_NEVER_EXTRACTABLE, false);
	CK_RV rv = hsm->deriveSymmetric(env.hSession, &mech, env.hObj[0], tmpl, cnt, &hNew, CKK_GENERIC_SECRET, CK_FALSE, isPrivate ? CK_TRUE : CK_FALSE);
	if (rv == CKR_OK)
	{
		SymObject& n = env_newobj;
		vassert(nCreate == 1 && createOp == OBJECT_OP_DERIVE && hNew == createdHandle && !n.destroyed && n.nCommit == 1);
		bool twoKeys = MECH == CKM_CONCATENATE_BASE_AND_KEY;
		// ---- C02: the derived key inherits the protections of the key(s) it contains
#if !GENERIC
		if (bSens || (twoKeys && oSens)) { vassert(n.b_SENSITIVE); vreach(); }
		if (!bExtr || (twoKeys && !oExtr)) { vassert(!n.b_EXTRACTABLE); vreach(); }
#endif
		// ---- C08: history attributes tell the truth
		vassert(n.has_LOCAL && !n.b_LOCAL);
#if GENERIC
		// derived by encrypting data: always-sensitive only if the base key always was AND the derived key is sensitive; likewise never-extractable
		vassert(n.b_ALWAYS_SENSITIVE == (bAS && n.b_SENSITIVE));
		vassert(n.b_NEVER_EXTRACTABLE == (bNE && !n.b_EXTRACTABLE));
#else
		vassert(n.b_ALWAYS_SENSITIVE == (twoKeys ? (bAS && oAS) : bAS));
		vassert(n.b_NEVER_EXTRACTABLE == (twoKeys ? (bNE && oNE) : bNE));
#endif
		// ---- C13: exactly the concatenation (stored encrypted for a private key)
		vassert(n.has_VALUE);
#if !GENERIC
		{
			size_t off = isPrivate ? 1 : 0; vassert(n.s_VALUE.size() == 4 + off); if (isPrivate) vassert(n.s_VALUE[0] == ENC_TAG);
			unsigned char e0, e1, e2, e3;
			if (MECH == CKM_CONCATENATE_DATA_AND_BASE) { e0 = d[0]; e1 = d[1]; e2 = b0; e3 = b1; } else if (twoKeys) { e0 = b0; e1 = b1; e2 = o0; e3 = o1; } else { e0 = b0; e1 = b1; e2 = d[0]; e3 = d[1]; }
			vassert(n.s_VALUE[off] == e0 && n.s_VALUE[off + 1] == e1 && n.s_VALUE[off + 2] == e2 && n.s_VALUE[off + 3] == e3);
		}
#else
		vassert(n.s_VALUE.size() == 2 + (isPrivate ? 1 : 0));      // cut to the requested CKA_VALUE_LEN
#endif
		vreach();
	}
	else
	{	// ---- C09: a failed derive leaves no object and no handle
		vassert(hNew == CK_INVALID_HANDLE || hNew == 0x4321);
		vassert(env.hm->handles.size() == handles0);
		if (nCreate && createOk) { vassert(env_newobj.destroyed); vreach(); }
	}
	vreach();
}
