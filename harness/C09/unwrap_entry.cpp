// C09 / C13 / C07 / C01 - SoftHSM::C_UnwrapKey (real): guards on the unwrapping key, gates for the key to be created, the attributes
// of an unwrapped key, and the clean-up when the call fails after the object exists.
// Cuts: UnwrapKeySym/UnwrapKeyAsym (the decryption, returns symbolic key bytes or fails), CreateObject (hands out env_newobj under a
// fresh handle or fails - its own obligations are C09 create_object), set*PrivateKey (PKCS#8 import, succeeds or fails).
#include "entry_env.h"
#include "spec_mech.h"
#include "P11Attributes.h"
static unsigned long nUnwrap, nCreate, nSetPriv; static bool unwrapOk, createOk, setPrivOk; static CK_OBJECT_HANDLE createdHandle; static int createOp;
static bool createTok, createPriv; static CK_ULONG createClass, createKeyType;
extern "C" {
CK_RV sink_unwrap(SoftHSM*, CK_MECHANISM_PTR m, ByteString& wrapped, Token* t, OSObject* key, ByteString& out) { nUnwrap++; if (!unwrapOk) return CKR_GENERAL_ERROR; out.resize(2); out[0] = nondet_uchar(); out[1] = nondet_uchar(); return CKR_OK; }
CK_RV sink_create(SoftHSM* h, CK_SESSION_HANDLE hs, CK_ATTRIBUTE_PTR a, CK_ULONG n, CK_OBJECT_HANDLE_PTR ph, int op)
{
	nCreate++; createOp = op;
	for (CK_ULONG i = 0; i < n && i < 8; i++) { if (a[i].type == CKA_TOKEN) createTok = *(CK_BBOOL*)a[i].pValue; if (a[i].type == CKA_PRIVATE) createPriv = *(CK_BBOOL*)a[i].pValue; if (a[i].type == CKA_CLASS) createClass = *(CK_ULONG*)a[i].pValue; if (a[i].type == CKA_KEY_TYPE) createKeyType = *(CK_ULONG*)a[i].pValue; }
	if (!createOk) return CKR_TEMPLATE_INCOMPLETE;
	createdHandle = createTok ? env.hm->addTokenObject(env.slotID, createPriv, &env_newobj) : env.hm->addSessionObject(env.slotID, hs, createPriv, &env_newobj);
	*ph = createdHandle; return CKR_OK;
}
bool sink_setPriv(const SoftHSM*, OSObject* o, const ByteString& ber, Token* t, bool isPrivate) { nSetPriv++; return setPrivOk; }
}
#ifdef BIGT
#undef vreach
#define vreach() do { } while (0)      /* a template that long can only be refused: the success witnesses do not apply */
#endif
extern "C" void harness(void)
{
	env_init(1, 2);
	env_newobj_reset(); env_newobj.setOk = nondet_bool();
	unwrapOk = nondet_bool(); createOk = nondet_bool(); setPrivOk = nondet_bool();
	SoftHSM* hsm = env.hsm; Session* s = env.session; SymObject& key = env.obj[0];
	static unsigned long paramw[6]; CK_MECHANISM mech; mech.mechanism = nondet_ulong(); mech.ulParameterLen = nondet_uchar(); vassume(mech.ulParameterLen <= sizeof(paramw));
	mech.pParameter = nondet_bool() ? (CK_VOID_PTR)paramw : NULL_PTR; for (int i = 0; i < 6; i++) paramw[i] = nondet_ulong();
	if (mech.mechanism == CKM_RSA_PKCS_OAEP && mech.pParameter && mech.ulParameterLen == sizeof(CK_RSA_PKCS_OAEP_PARAMS)) { CK_RSA_PKCS_OAEP_PARAMS* o = (CK_RSA_PKCS_OAEP_PARAMS*)paramw; if (o->pSourceData) o->pSourceData = paramw; }
	static CK_BYTE wrapped[BS_CAP]; CK_ULONG wl = nondet_uchar(); vassume(wl <= BS_CAP);
	static CK_ATTRIBUTE tmpl[3]; static CK_OBJECT_CLASS cls; static CK_KEY_TYPE kt; static CK_BBOOL bTok, bPriv;
	cls = nondet_bool() ? CKO_SECRET_KEY : (nondet_bool() ? CKO_PRIVATE_KEY : nondet_ulong()); kt = nondet_bool() ? CKK_AES : (nondet_bool() ? CKK_RSA : nondet_ulong()); bTok = nondet_uchar(); bPriv = nondet_uchar();
	tmpl[0].type = CKA_CLASS; tmpl[0].pValue = &cls; tmpl[0].ulValueLen = sizeof(cls);
	tmpl[1].type = CKA_KEY_TYPE; tmpl[1].pValue = &kt; tmpl[1].ulValueLen = sizeof(kt);
	bool haveTok = nondet_bool(); tmpl[2].type = haveTok ? CKA_TOKEN : CKA_PRIVATE; tmpl[2].pValue = haveTok ? &bTok : &bPriv; tmpl[2].ulValueLen = 1;
	CK_ULONG cnt = 2 + (nondet_uchar() & 1);
#ifdef BIGT
	// C17: a template longer than C_UnwrapKey's fixed attribute array: refused, nothing written out of range
	static CK_ATTRIBUTE big[BIGT]; static CK_BYTE bigv; bigv = nondet_uchar();
	for (int i = 0; i < BIGT; i++) { if (i < 3) big[i] = tmpl[i]; else { big[i].type = CKA_LABEL; big[i].pValue = &bigv; big[i].ulValueLen = 1; } }
	#define tmpl big
	cnt = BIGT;      // (count and entry types concrete: the loop shape stays concrete, pointer checks stay affordable) haveTok = haveTok;
#endif
	bool newTok = cnt == 3 && haveTok ? bTok != 0 : false, newPriv = cnt == 3 && !haveTok ? bPriv != 0 : true;      // PKCS#11 defaults: session object, private
	CK_SESSION_HANDLE hS = nondet_bool() ? env.hSession : nondet_ulong(); CK_OBJECT_HANDLE hK = nondet_bool() ? env.hObj[0] : nondet_ulong();
	CK_OBJECT_HANDLE hNew = 0x4321; size_t handles0 = env.hm->handles.size();
	bool userIn = env_user_logged_in(), rw = s->isReadWrite, kPriv = key.getBooleanValue(CKA_PRIVATE, true);
	bool allowedEmpty = true, allowedHas = false; if (key.has_ALLOWED) for (int m = 0; m < ALLOWED_CAP; m++) if (key.allowed.u_[m]) { allowedEmpty = false; if (key.allowed.k_[m] == mech.mechanism) allowedHas = true; }
	CK_RV rv = hsm->C_UnwrapKey(hS, &mech, hK, wrapped, wl, tmpl, cnt, &hNew);
	bool used = nUnwrap > 0;
	// ---- C01 / C07: the unwrapping key
	if (used)
	{
		vassert(hS == env.hSession && hK == env.hObj[0] && key.valid);
		vassert(!kPriv || userIn);
		vassert(key.getBooleanValue(CKA_UNWRAP, false));
		vassert(allowedEmpty || allowedHas); vassert(in_supported(mech.mechanism));
		CK_KEY_TYPE ukt = key.getUnsignedLongValue(CKA_KEY_TYPE, CKK_VENDOR_DEFINED);
		if (mech.mechanism == CKM_AES_KEY_WRAP || mech.mechanism == CKM_AES_KEY_WRAP_PAD || mech.mechanism == CKM_AES_CBC_PAD) vassert(ukt == CKK_AES);
		if (mech.mechanism == CKM_RSA_PKCS || mech.mechanism == CKM_RSA_PKCS_OAEP) vassert(ukt == CKK_RSA);
		if (mech.mechanism == CKM_DES3_CBC_PAD) vassert(ukt == CKK_DES2 || ukt == CKK_DES3);          // separate id: see known-findings.txt
		// ---- the key to be created: private only for the logged-in user, token object only through an RW session
		vassert(!newPriv || userIn); vassert(!newTok || rw);
		vassert(cls == CKO_SECRET_KEY || cls == CKO_PRIVATE_KEY);
		vreach();
	}
	if (hS == env.hSession && hK == env.hObj[0] && kPriv && !userIn) { vassert(rv != CKR_OK && !used && nCreate == 0); vreach(); }
	if (nCreate) { vassert(used && unwrapOk && createOp == OBJECT_OP_UNWRAP && createTok == newTok && createPriv == newPriv && createClass == cls && createKeyType == kt); vreach(); }
	// ---- C13: what an unwrapped key looks like
	if (rv == CKR_OK)
	{
		vassert(nCreate == 1 && createOk && hNew == createdHandle && env.hm->getObject(hNew) == &env_newobj && !env_newobj.destroyed);
		vassert(env_newobj.has_LOCAL && !env_newobj.b_LOCAL && env_newobj.has_ALWAYS_SENSITIVE && !env_newobj.b_ALWAYS_SENSITIVE && env_newobj.has_NEVER_EXTRACTABLE && !env_newobj.b_NEVER_EXTRACTABLE);
		vassert(env_newobj.nStart == 1 && env_newobj.nCommit == 1 && env_newobj.nAbort == 0);
		if (cls == CKO_SECRET_KEY) { vassert(env_newobj.has_VALUE); vassert(nSetPriv == 0); vreach(); } else { vassert(nSetPriv == 1 && setPrivOk); vreach(); }
	}
	else
	{	// ---- C09 / C13: a rejected or failed unwrap leaves no object and no handle
		vassert(hNew == CK_INVALID_HANDLE || hNew == 0x4321);
		vassert(env.hm->handles.size() == handles0);
		if (nCreate && createOk) { vassert(env_newobj.destroyed); vassert(env.hm->getObject(createdHandle) == NULL); vreach(); }
	}
	vreach_(__LINE__);
}
