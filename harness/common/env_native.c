/* Native side of the environment: nondeterministic inputs come from a replay stream or a
 * seeded PRNG; assertion / assumption outcomes are printed and end the process. */
#include <stdint.h>
#include <stdio.h>
#include <stdlib.h>
#include <string.h>
#include <unistd.h>
#include <sys/wait.h>
static uint64_t *stream; static size_t stream_n, stream_pos; static int fuzz; static uint64_t rng;
static uint64_t trace_hash = 1469598103934665603ULL;
static uint64_t rnd(void) { rng ^= rng << 13; rng ^= rng >> 7; rng ^= rng << 17; return rng; }
static uint64_t next(void) {
	if (fuzz) { uint64_t r = rnd(); unsigned k = (unsigned)(r >> 60); if (k < 10) return (r >> 8) % 5; if (k < 13) return (r >> 8) & 0xff; return r; }
	if (stream_pos < stream_n) return stream[stream_pos++];
	return 0;
}
static int nd_trace = -1;
static uint64_t nxt(const char* k) { uint64_t v = next(); if (nd_trace < 0) nd_trace = getenv("VERIF_TRACE_ND") != 0; if (nd_trace) fprintf(stderr, "ND %s %llu\n", k, (unsigned long long)v); return v; }
uint64_t nondet_ulong(void) { return nxt("ulong"); }
uint32_t nondet_uint(void) { return (uint32_t)nxt("uint"); }
uint8_t nondet_uchar(void) { return (uint8_t)nxt("uchar"); }
uint64_t vnd_ulong(void) { return nxt("ulong"); }
uint32_t vnd_uint(void) { return (uint32_t)nxt("uint"); }
uint8_t vnd_uchar(void) { return (uint8_t)nxt("uchar"); }
static void finish(const char* what, long id, int code) { printf("%s %ld hash=%016llx\n", what, id, (unsigned long long)trace_hash); fflush(stdout); _exit(code); }
void vassert_(int c, int id) { if (!c) finish("ASSERT-FAIL", id, 10); }
void vassume_(int c) { if (!c) finish("ASSUME-FALSE", 0, 0); }
void vreach_(int id) { (void)id; }
void vtrace(uint64_t v) { trace_hash = (trace_hash ^ v) * 1099511628211ULL; }
void ir_throw(void) { finish("THROW", 0, 12); }
void vstl_capacity_exceeded(void) { finish("ASSUME-FALSE", 1, 0); }
void vstl_length_error(void) { finish("THROW", 1, 12); }
void vstl_oob(void) { finish("OOB", 0, 13); }
#ifndef VSTL_ACCESS_HOOK
void vstl_access(const void* c) { (void)c; }
#endif
/* memory reclamation is not modelled (as in the CBMC environment): objects of harness pools are never really freed */
void _ZdlPv(void* p) { (void)p; }
void _ZdaPv(void* p) { (void)p; }
void _ZdlPvm(void* p, unsigned long n) { (void)p; (void)n; }
void _ZdaPvm(void* p, unsigned long n) { (void)p; (void)n; }
void harness(void);
void ir_run_global_ctors(void) __attribute__((weak));   /* generated C only: static initialisers of the translated module */
static void run_harness(void) { if (ir_run_global_ctors) ir_run_global_ctors(); harness(); }
int main(int argc, char** argv) {
	if (argc >= 3 && !strcmp(argv[1], "--replay")) {
		FILE* f = fopen(argv[2], "r"); if (!f) { perror("replay"); return 2; }
		size_t cap = 1024; stream = malloc(cap * sizeof *stream); unsigned long long v;
		while (fscanf(f, "%llu", &v) == 1) { if (stream_n == cap) { cap *= 2; stream = realloc(stream, cap * sizeof *stream); } stream[stream_n++] = v; }
		fclose(f);
		run_harness();
		finish("DONE", 0, 0);
	}
	if (argc >= 4 && !strcmp(argv[1], "--fuzz")) {
		uint64_t seed = strtoull(argv[2], 0, 10); long n = atol(argv[3]);
		for (long i = 0; i < n; i++) {
			fflush(stdout);
			pid_t p = fork();
			if (p == 0) { fuzz = 1; rng = (seed + 1) * 0x9E3779B97F4A7C15ULL + (uint64_t)i * 0xD1B54A32D192ED03ULL + 1; rnd(); rnd(); printf("%ld ", i); run_harness(); finish("DONE", 0, 0); }
			int st; waitpid(p, &st, 0);
			if (!WIFEXITED(st)) { printf("%ld CRASH signal=%d\n", i, WIFSIGNALED(st) ? WTERMSIG(st) : -1); }
		}
		return 0;
	}
	fprintf(stderr, "usage: %s --replay FILE | --fuzz SEED COUNT\n", argv[0]); return 2;
}
