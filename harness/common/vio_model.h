// Model file system + stdio ("vio") for the object-store harnesses.
//  * NFILES in-memory files of at most FCAP bytes, selected by the FIRST character of the path ('A' + index)
//  * streams keep a position, an EOF flag and a pending (buffered, not yet written) tail like stdio does
//  * FAULTS: operation number vio.failAt (symbolic, or NOFAIL) fails the way POSIX allows (open -1, short fwrite, fflush EOF,
//    ftruncate -1, fcntl -1, fclose EOF)
//  * CRASH: at operation number vio.crashAt the process "dies": the durable image of every file is frozen (data still in a
//    stdio buffer is lost; a flush that is in progress leaves a symbolic prefix); later operations have no effect on it
// Everything here is part of the claim (DESIGN.md section 3).
#ifndef VIO_MODEL_H
#define VIO_MODEL_H
#include "venv.h"
#include <stdio.h>
#include <string.h>
#include <stdarg.h>
#include <fcntl.h>
#include <sys/stat.h>
#ifndef FCAP
#define FCAP 48
#endif
#ifndef NFILES
#define NFILES 2
#endif
#ifndef NSTREAMS
#define NSTREAMS 4
#endif
enum { VIO_NOFAIL = 0xFFFF };
// file contents live in top-level arrays (one per file) so that CBMC keeps them field-sensitive (concrete bytes propagate)
static unsigned char vio_bytes0[FCAP], vio_bytes1[FCAP], vio_durable0[FCAP], vio_durable1[FCAP];
struct VFile { unsigned char* data; size_t size; bool exists; size_t flushed;    // bytes [0, flushed) have reached the disk
               unsigned char* durable; size_t durableSize; bool durableExists; unsigned mode; unsigned long opens, truncs; };
struct VStream { bool used; int file; size_t pos; bool eof; bool writable, readable; bool dirty; };
struct Vio { VFile f[NFILES]; VStream s[NSTREAMS]; unsigned ops; unsigned failAt; unsigned crashAt; bool crashed; unsigned long failures; unsigned lastOpenMode; unsigned long nOpen, nWrite, nFlush, nTrunc, nLock, nClose; };
static Vio vio;
// concrete switches (set by the harness before the code under test runs): without them a merged, symbolic operation counter
// would make symbolic execution explore the crash snapshot at every single file operation
static bool vio_arm_crash, vio_arm_fail;
// FILE* handles are the addresses of real FILE objects; the model stream is found by comparing addresses (no type punning
// between FILE and VStream: a punned access would defeat CBMC's field sensitivity and constant propagation)
static FILE vio_handles[NSTREAMS];
static inline VStream* vio_s(FILE* fp) { for (int k = 1; k < NSTREAMS; k++) if (fp == &vio_handles[k]) return &vio.s[k]; return &vio.s[0]; }
static inline void vio_bind() { vio.f[0].data = vio_bytes0; vio.f[0].durable = vio_durable0; if (NFILES > 1) { vio.f[1].data = vio_bytes1; vio.f[1].durable = vio_durable1; } }
static inline void vio_reset() { vio_bind(); vio.ops = 0; vio.failAt = VIO_NOFAIL; vio.crashAt = VIO_NOFAIL; vio.crashed = false; vio.failures = 0; for (int i = 0; i < NSTREAMS; i++) vio.s[i].used = false; for (int i = 0; i < NFILES; i++) vio.f[i].flushed = vio.f[i].size; }
// the process dies now: data written but not yet flushed are lost; `partial` = a flush is in progress, any prefix of the
// unflushed tail may have reached the disk.  (The object store writes its files sequentially after truncating them.)
static __attribute__((noinline)) void vio_freeze(bool partial)
{
	if (vio.crashed) return; vio.crashed = true;
	for (int i = 0; i < NFILES; i++)
	{
		VFile* f = &vio.f[i]; size_t keep = f->flushed <= f->size ? f->flushed : f->size;
		if (partial) { size_t extra = nondet_ulong(); vassume(extra <= f->size - keep); keep += extra; }
		for (size_t k = 0; k < FCAP; k++) f->durable[k] = f->data[k];
		f->durableSize = keep; f->durableExists = f->exists;
	}
}
// one operation: returns true if this operation must fail; handles the crash point
static inline bool vio_step(bool flushing = false) { unsigned k = vio.ops++; if (vio_arm_crash && k == vio.crashAt) vio_freeze(flushing); if (vio_arm_fail && k == vio.failAt) { vio.failures++; return true; } return false; }
static inline int vio_file_of(const char* path) { int i = path[0] - 'A'; return (i >= 0 && i < NFILES) ? i : -1; }
extern "C" {
int vio_open3(const char* path, int flags, unsigned mode)
{
	vio.nOpen++; vio.lastOpenMode = mode;
	if (vio_step()) return -1;
	int i = vio_file_of(path); if (i < 0) return -1;
	VFile* f = &vio.f[i];
	if (!f->exists) { if (!(flags & O_CREAT)) return -1; f->exists = true; f->size = 0; f->flushed = 0; f->mode = mode; }
	if (flags & O_TRUNC) { f->size = 0; f->flushed = 0; f->truncs++; }
	f->opens++;
	for (int k = 0; k < NSTREAMS; k++) if (!vio.s[k].used) { VStream* s = &vio.s[k]; s->used = true; s->file = i; s->pos = 0; s->eof = false; s->dirty = false; s->readable = (flags & O_ACCMODE) != O_WRONLY; s->writable = (flags & O_ACCMODE) != O_RDONLY; return 100 + k; }
	vstl_capacity_exceeded(); return -1;
}
FILE* vio_fdopen(int fd, const char* mode) { if (fd < 100 || fd >= 100 + NSTREAMS) return NULL; if (vio_step()) { vio.s[fd - 100].used = false; return NULL; } return &vio_handles[fd - 100]; }
FILE* vio_fopen(const char* path, const char* mode) { int fd = vio_open3(path, mode[0] == 'r' ? O_RDONLY : (O_WRONLY | O_CREAT | O_TRUNC), 0666); if (fd < 0) return NULL; return &vio_handles[fd - 100]; }
int vio_fileno(FILE* fp) { for (int k = 1; k < NSTREAMS; k++) if (fp == &vio_handles[k]) return 100 + k; return 100; }
int vio_fstat(int fd, struct stat* st) { if (vio_step()) return -1; VStream* s = &vio.s[fd - 100]; st->st_size = (off_t)vio.f[s->file].size; return 0; }
int vio_feof(FILE* fp) { return vio_s(fp)->eof ? 1 : 0; }
size_t vio_fread(void* p, size_t sz, size_t n, FILE* fp)
{
	VStream* s = vio_s(fp); VFile* f = &vio.f[s->file]; unsigned char* d = (unsigned char*)p; size_t want = sz * n, got = 0;
	if (vio_step()) return 0;
	for (size_t k = 0; k < want && k < FCAP; k++) if (s->pos < f->size) { d[k] = f->data[s->pos]; s->pos++; got++; }
	if (got < want) s->eof = true;
	return sz ? got / sz : 0;
}
size_t vio_fwrite(const void* p, size_t sz, size_t n, FILE* fp)
{
	VStream* s = vio_s(fp); VFile* f = &vio.f[s->file]; const unsigned char* d = (const unsigned char*)p; size_t want = sz * n;
	vio.nWrite++;
	if (vio_step()) return 0;                                  // e.g. ENOSPC / EIO when the stdio buffer is flushed underneath
	if (s->pos + want > FCAP) { vstl_capacity_exceeded(); return 0; }   // files larger than FCAP: outside the bound
	for (size_t k = 0; k < want && k < FCAP; k++) f->data[s->pos + k] = d[k];
	if (s->pos < f->flushed) f->flushed = s->pos;              // rewritten region is dirty again
	s->pos += want; if (s->pos > f->size) f->size = s->pos; s->dirty = true;
	return n;
}
int vio_fflush(FILE* fp)
{
	VStream* s = vio_s(fp); VFile* f = &vio.f[s->file]; vio.nFlush++;
	if (vio_step(true)) { f->size = f->flushed <= f->size ? f->flushed : f->size; s->dirty = false; return EOF; }   // the buffered data are lost (disk full)
	f->flushed = f->size; s->dirty = false;
	return 0;
}
int vio_fseek(FILE* fp, long off, int whence)
{
	VStream* s = vio_s(fp); VFile* f = &vio.f[s->file];
	if (vio_step()) return -1;
	if (whence == SEEK_END) s->pos = f->size; else if (whence == SEEK_SET) { if (off < 0) return -1; s->pos = (size_t)off; } else return -1;
	s->eof = false; return 0;
}
void vio_rewind(FILE* fp) { vio_fseek(fp, 0, SEEK_SET); }
int vio_ftruncate(int fd, off_t len) { vio.nTrunc++; if (vio_step()) return -1; VStream* s = &vio.s[fd - 100]; VFile* f = &vio.f[s->file]; if ((size_t)len < f->size) f->size = (size_t)len; if (f->flushed > f->size) f->flushed = f->size; f->truncs++; return 0; }
int vio_fcntl3(int fd, int cmd, void* arg) { vio.nLock++; if (vio_step()) return -1; return 0; }
int vio_fclose(FILE* fp)
{
	VStream* s = vio_s(fp); VFile* f = &vio.f[s->file]; vio.nClose++;
	bool fail = vio_step(true);
	if (!fail) f->flushed = f->size; else if (s->dirty) f->size = f->flushed <= f->size ? f->flushed : f->size;
	s->used = false; s->dirty = false;
	return fail ? EOF : 0;
}
int vio_remove(const char* path) { if (vio_step()) return -1; int i = vio_file_of(path); if (i < 0 || !vio.f[i].exists) return -1; vio.f[i].exists = false; vio.f[i].size = 0; vio.f[i].flushed = 0; return 0; }
char* vio_fgets(char* out, int n, FILE* fp)
{
	VStream* s = vio_s(fp); VFile* f = &vio.f[s->file]; int got = 0;
	if (n <= 0) return NULL;
	for (size_t k = 0; k < FCAP && got < n - 1 && s->pos < f->size; k++) { unsigned char c = f->data[s->pos++]; out[got++] = (char)c; if (c == '\n') break; }
	out[got] = 0;
	if (got == 0) { s->eof = true; return NULL; }
	return out;
}
}
#endif
