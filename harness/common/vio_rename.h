// Force-included (via a caps header) into the real object-store translation units: the libc file API they use is
// renamed to the model file system of vio_model.h.  The libc headers are included FIRST so that only the calls in the
// code under test are renamed, not the declarations.
#ifndef VIO_RENAME_H
#define VIO_RENAME_H
#include <stdio.h>
#include <stdlib.h>
#include <fcntl.h>
#include <unistd.h>
#include <sys/stat.h>
#include <sys/types.h>
#include <dirent.h>
#include <string>
#ifdef __cplusplus
extern "C" {
#endif
int vio_open3(const char* path, int flags, unsigned mode);
FILE* vio_fdopen(int fd, const char* mode);
FILE* vio_fopen(const char* path, const char* mode);
int vio_fclose(FILE* f);
int vio_fstat(int fd, struct stat* st);
int vio_fileno(FILE* f);
int vio_feof(FILE* f);
size_t vio_fread(void* p, size_t sz, size_t n, FILE* f);
size_t vio_fwrite(const void* p, size_t sz, size_t n, FILE* f);
int vio_fseek(FILE* f, long off, int whence);
void vio_rewind(FILE* f);
int vio_fflush(FILE* f);
int vio_ftruncate(int fd, off_t len);
int vio_fcntl3(int fd, int cmd, void* arg);
int vio_remove(const char* path);
char* vio_fgets(char* s, int n, FILE* f);
#ifdef __cplusplus
}
#endif
#define open(p, f, m) vio_open3(p, f, (unsigned)(m))
#define fdopen(...) vio_fdopen(__VA_ARGS__)
#define fopen(...) vio_fopen(__VA_ARGS__)
#define fclose(...) vio_fclose(__VA_ARGS__)
#define fstat(...) vio_fstat(__VA_ARGS__)
#define fileno(...) vio_fileno(__VA_ARGS__)
#define feof(...) vio_feof(__VA_ARGS__)
#define fread(...) vio_fread(__VA_ARGS__)
#define fwrite(...) vio_fwrite(__VA_ARGS__)
#define fseek(...) vio_fseek(__VA_ARGS__)
#define fflush(...) vio_fflush(__VA_ARGS__)
#define ftruncate(...) vio_ftruncate(__VA_ARGS__)
#define fcntl(fd, c, a) vio_fcntl3(fd, c, (void*)(a))
#define fgets(...) vio_fgets(__VA_ARGS__)
#define rewind(...) vio_rewind(__VA_ARGS__)   /* also renames File::rewind() consistently in every TU */
#endif
