/* C++ runtime functions that stay external in the generated C, for the native (gcc) build of
 * the generated C used by the translator validation. */
#include <stdint.h>
#include <stdlib.h>
void ir_throw(void);
int __cxa_atexit(void (*f)(void*), void* a, void* d) { (void)f; (void)a; (void)d; return 0; }
uint8_t* _Znwm(uint64_t n) { return malloc(n ? n : 1); }
uint8_t* _Znam(uint64_t n) { return malloc(n ? n : 1); }
void __cxa_pure_virtual(void) { abort(); }
uint8_t* __cxa_allocate_exception(uint64_t n) { (void)n; ir_throw(); return 0; }
void __cxa_throw(uint8_t* a, uint8_t* b, uint8_t* c) { (void)a; (void)b; (void)c; ir_throw(); }
void __cxa_free_exception(uint8_t* a) { (void)a; }
void _ZSt17__throw_bad_allocv(void) { ir_throw(); }
void _ZSt20__throw_length_errorPKc(uint8_t* m) { (void)m; ir_throw(); }
void _ZSt19__throw_logic_errorPKc(uint8_t* m) { (void)m; ir_throw(); }
void _ZSt20__throw_out_of_rangePKc(uint8_t* m) { (void)m; ir_throw(); }
void _ZSt24__throw_out_of_range_fmtPKcz(uint8_t* m, ...) { (void)m; ir_throw(); }
void _ZSt28__throw_bad_array_new_lengthv(void) { ir_throw(); }
void _ZSt9terminatev(void) { abort(); }
