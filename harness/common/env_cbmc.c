/* CBMC side of the environment: nondeterministic inputs (recorded so that a counterexample
 * trace can be turned into a replay stream), and models of the C++ runtime functions that
 * stay external after translation. */
#include <stdint.h>
#include <stddef.h>
#include <stdlib.h>
uint64_t nondet_raw_u64(void);
uint32_t nondet_raw_u32(void);
uint8_t nondet_raw_u8(void);
uint64_t vnd_ulong(void) { uint64_t vnd_value = nondet_raw_u64(); return vnd_value; }
uint32_t vnd_uint(void) { uint32_t vnd_value = nondet_raw_u32(); return vnd_value; }
uint8_t vnd_uchar(void) { uint8_t vnd_value = nondet_raw_u8(); return vnd_value; }
void vtrace(uint64_t v) { (void)v; }
#ifndef THROW_IS_ASSERT
void ir_throw(void) { __CPROVER_assume(0); }
#else
void ir_throw(void) { __CPROVER_assert(0, "vassert L0 C++ exception thrown (would reach exit())"); __CPROVER_assume(0); }
#endif
void vstl_capacity_exceeded(void) { __CPROVER_assume(0); }
void vstl_length_error(void) { ir_throw(); }
void vstl_oob(void) { __CPROVER_assert(0, "vassert L0 container index out of range (heap out-of-bounds access in the real code)"); __CPROVER_assume(0); }
#ifndef VSTL_ACCESS_HOOK
void vstl_access(uint8_t* c) { (void)c; }
#endif
int __cxa_atexit(void (*f)(void*), void* a, void* d) { (void)f; (void)a; (void)d; return 0; }
#ifdef ARENA_NEW
/* operator new as a bump allocator over ONE static arena: every `new` returns arena + offset, so pointers to
 * heap objects have a single target object (CBMC case-splits every access over all candidate dynamic objects
 * otherwise).  Blocks are never freed.  Overflow between blocks is not detectable in this mode (memory-safety
 * obligations - C17 - use the malloc model below instead). Exceeding the arena = outside the bound. */
#ifndef ARENA_WORDS
#define ARENA_WORDS 1024
#endif
static uint64_t ir_arena[ARENA_WORDS]; static uint64_t ir_arena_used;
uint8_t* _Znwm(uint64_t n) { uint64_t w = (n + 7) / 8; if (w == 0) w = 1; if (ir_arena_used + w > ARENA_WORDS) { __CPROVER_assume(0); } uint8_t* p = (uint8_t*)&ir_arena[ir_arena_used]; ir_arena_used += w; return p; }
uint8_t* _Znam(uint64_t n) { return _Znwm(n); }
#else
uint8_t* _Znwm(uint64_t n) { uint8_t* p = malloc(n); __CPROVER_assume(p != 0); return p; }
uint8_t* _Znam(uint64_t n) { uint8_t* p = malloc(n); __CPROVER_assume(p != 0); return p; }
#endif
void _ZdlPv(uint8_t* p) { (void)p; }
void _ZdaPv(uint8_t* p) { (void)p; }
void _ZdlPvm(uint8_t* p, uint64_t n) { (void)p; (void)n; }
void __cxa_pure_virtual(void) { __CPROVER_assert(0, "vassert L0 pure virtual call"); __CPROVER_assume(0); }
uint8_t* __cxa_allocate_exception(uint64_t n) { (void)n; ir_throw(); return 0; }
void __cxa_throw(uint8_t* a, uint8_t* b, uint8_t* c) { (void)a; (void)b; (void)c; ir_throw(); }
void __cxa_free_exception(uint8_t* a) { (void)a; }
void _ZSt17__throw_bad_allocv(void) { ir_throw(); }
void _ZSt20__throw_length_errorPKc(uint8_t* m) { (void)m; ir_throw(); }
void _ZSt19__throw_logic_errorPKc(uint8_t* m) { (void)m; ir_throw(); }
void _ZSt20__throw_out_of_rangePKc(uint8_t* m) { (void)m; ir_throw(); }
void _ZSt24__throw_out_of_range_fmtPKcz(uint8_t* m, ...) { (void)m; ir_throw(); }
void _ZSt28__throw_bad_array_new_lengthv(void) { ir_throw(); }
void _ZSt9terminatev(void) { __CPROVER_assert(0, "vassert L0 std::terminate"); __CPROVER_assume(0); }
