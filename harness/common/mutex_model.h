// Model of MutexFactory / Mutex / MutexLocker: execution is single-threaded; a mutex is a
// ghost lock-depth counter kept in Mutex::handle (read by the C18 lock-discipline hook).
#ifndef MUTEX_MODEL_H
#define MUTEX_MODEL_H
#define private public
#define protected public
#include "MutexFactory.h"
#undef private
#undef protected
static inline size_t vmutex_depth(Mutex* m) { return m ? (size_t)m->handle : 0; }
#ifdef MUTEX_MODEL_IMPL
Mutex::Mutex() { handle = 0; isValid = true; }
Mutex::~Mutex() {}
static Mutex vmutex_pool[8]; static size_t vmutex_next; static unsigned long vmutex_locks[8];   // acquisitions per pool mutex (ghost)
bool Mutex::lock() { handle = (CK_VOID_PTR)((size_t)handle + 1); 
#define VM_CNT(i) if (this == &vmutex_pool[i]) vmutex_locks[i]++;
	VM_CNT(0) VM_CNT(1) VM_CNT(2) VM_CNT(3) VM_CNT(4) VM_CNT(5) VM_CNT(6) VM_CNT(7)      /* (no loop: obligations with small unwinding bounds use this model) */
#undef VM_CNT
	return true; }
void Mutex::unlock() { handle = (CK_VOID_PTR)((size_t)handle - 1); }
MutexLocker::MutexLocker(Mutex* inMutex) { mutex = inMutex; if (mutex != NULL) mutex->lock(); }
MutexLocker::~MutexLocker() { if (mutex != NULL) mutex->unlock(); }
static long vmutex_factory_storage[(sizeof(MutexFactory) + 7) / 8];
MutexFactory* MutexFactory::i() { return (MutexFactory*)vmutex_factory_storage; }
MutexFactory::~MutexFactory() {}
Mutex* MutexFactory::getMutex() { Mutex* m = &vmutex_pool[vmutex_next & 7]; vmutex_next++; return m; }
void MutexFactory::recycleMutex(Mutex*) {}
static inline unsigned long vmutex_lock_count(Mutex* m)
{
#define VM_GET(i) if (m == &vmutex_pool[i]) return vmutex_locks[i];
	VM_GET(0) VM_GET(1) VM_GET(2) VM_GET(3) VM_GET(4) VM_GET(5) VM_GET(6) VM_GET(7)
#undef VM_GET
	return 0;
}
#endif
#endif
