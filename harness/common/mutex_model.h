// Model of MutexFactory / Mutex / MutexLocker: execution is single-threaded; a mutex is a
// ghost lock-depth counter kept in Mutex::handle (read by the C18 lock-discipline hook).
#ifndef MUTEX_MODEL_H
#define MUTEX_MODEL_H
#define private public
#define protected public
#include "MutexFactory.h"
#undef private
#undef protected
static inline size_t vmutex_depth(Mutex* m) { return m ? (size_t)m->handle : 0; }
#ifdef MUTEX_MODEL_IMPL
Mutex::Mutex() { handle = 0; isValid = true; }
Mutex::~Mutex() {}
bool Mutex::lock() { handle = (CK_VOID_PTR)((size_t)handle + 1); return true; }
void Mutex::unlock() { handle = (CK_VOID_PTR)((size_t)handle - 1); }
MutexLocker::MutexLocker(Mutex* inMutex) { mutex = inMutex; if (mutex != NULL) mutex->lock(); }
MutexLocker::~MutexLocker() { if (mutex != NULL) mutex->unlock(); }
static Mutex vmutex_pool[8]; static size_t vmutex_next;
static long vmutex_factory_storage[(sizeof(MutexFactory) + 7) / 8];
MutexFactory* MutexFactory::i() { return (MutexFactory*)vmutex_factory_storage; }
MutexFactory::~MutexFactory() {}
Mutex* MutexFactory::getMutex() { Mutex* m = &vmutex_pool[vmutex_next & 7]; vmutex_next++; return m; }
void MutexFactory::recycleMutex(Mutex*) {}
#endif
#endif
