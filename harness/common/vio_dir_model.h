// Model TOKEN DIRECTORY on top of the model file system of vio_model.h (additive: vio_model.h is unchanged; every existing
// obligation keeps its behaviour).  Used by the OSToken-level obligations of C15 / C16 / C05 (harness/C15/store.cpp).
//
//  * ONE directory, path "T", with a FIXED set of possible entries (table vio_dir_names): generation, token.object, token.lock,
//    a.object, a.lock, b.object, b.lock.  Entry i is the vio file i (its `exists` flag IS the directory entry; its bytes, flush
//    state and durable image are those of vio_model.h).  A path is resolved by comparing the WHOLE string "T/<name>" with the
//    table (concrete strings: the comparison folds to a constant during symbolic execution); a path outside the table cannot be
//    opened or created and is COUNTED (vio_dir.unknownPaths; harnesses assert that it stays 0 - nothing is silently dropped).
//  * open()/remove() resolve the path and delegate to vio_open3()/vio_remove() with the one-letter name of the file ('A'+i), so
//    operation counting, the failing operation and the crash point are exactly those of vio_model.h.
//  * opendir/readdir/closedir: ".", "..", then the existing entries in table order (VIO_DIR_ORDER=1: reverse table order; one
//    directory stream at a time; the real readdir order is unspecified - other orders are outside the claim); lstat: regular file iff the entry exists, "T" is a
//    directory; mkdir/rmdir create / remove "T" (rmdir refuses a non-empty directory).
//  * CONTRACT for crash / durability (part of every claim that uses it): creating, unlinking, truncating a file and mkdir/rmdir
//    are durable at once (the most favourable assumption for the code under test: real file systems may lose or reorder
//    directory updates that were not fsync'ed); file DATA are durable once flushed; a crash during a flush leaves any prefix.
//  * opendir, remove, mkdir, rmdir are numbered operations (they can be the failing operation / the crash point); readdir,
//    closedir, lstat are not (they cannot change the disk; a crash there equals a crash at the next numbered operation).
//  * UUID::newUUID() (VIO_DIR_UUID_MODEL): returns "a", then "b" - the names of the two object slots of the table; a third
//    request is outside the bound.  Contract of the real one: a fresh name that no file of the directory carries.
#ifndef VIO_DIR_MODEL_H
#define VIO_DIR_MODEL_H
#ifndef NFILES
#define NFILES 7
#endif
#include "vio_model.h"
#include <dirent.h>
#include <errno.h>
#include <string>
#ifndef VIO_DIR_ORDER
#define VIO_DIR_ORDER 0
#endif
static_assert(NFILES >= 7, "the token-directory model needs 7 model files");
enum { VD_GEN = 0, VD_TOKOBJ = 1, VD_TOKLOCK = 2, VD_AOBJ = 3, VD_ALOCK = 4, VD_BOBJ = 5, VD_BLOCK = 6, VD_N = 7 };
static const char* const vio_dir_names[VD_N] = { "generation", "token.object", "token.lock", "a.object", "a.lock", "b.object", "b.lock" };
static const char vio_dir_canon[VD_N + 1][2] = { "A", "B", "C", "D", "E", "F", "G", "~" };   // '~' - 'A' is no file index: vio_open3 / vio_remove answer "no such file"
static unsigned char vio_bytes2[FCAP], vio_bytes3[FCAP], vio_bytes4[FCAP], vio_bytes5[FCAP], vio_bytes6[FCAP];
static unsigned char vio_durable2[FCAP], vio_durable3[FCAP], vio_durable4[FCAP], vio_durable5[FCAP], vio_durable6[FCAP];
struct VioDir { bool exists; bool durableExists; bool open; int cursor; unsigned long unknownPaths, nOpendir, nRemove; };
static VioDir vio_dir;
static struct dirent vio_dirent;
static char vio_dir_handle[8];
static inline void vio_dir_bind()
{
	vio_bind();
	vio.f[2].data = vio_bytes2; vio.f[2].durable = vio_durable2; vio.f[3].data = vio_bytes3; vio.f[3].durable = vio_durable3;
	vio.f[4].data = vio_bytes4; vio.f[4].durable = vio_durable4; vio.f[5].data = vio_bytes5; vio.f[5].durable = vio_durable5;
	vio.f[6].data = vio_bytes6; vio.f[6].durable = vio_durable6;
}
// an empty, existing directory "T"; no fault, no crash armed
static inline void vio_dir_reset()
{
	vio_dir_bind();
	for (int i = 0; i < VD_N; i++) { vio.f[i].exists = false; vio.f[i].size = 0; vio.f[i].flushed = 0; vio.f[i].durableExists = false; vio.f[i].durableSize = 0; }
	vio_reset(); vio_dir_bind();
	vio_dir.exists = true; vio_dir.durableExists = true; vio_dir.open = false; vio_dir.cursor = 0; vio_dir.unknownPaths = 0;
}
// the machine comes up again after the crash: the durable image becomes the disk, no stream is open, nothing is armed
static inline void vio_dir_recover()
{
	vio_arm_crash = false; vio_arm_fail = false;
	for (int i = 0; i < VD_N; i++)
	{
		VFile* f = &vio.f[i];
		f->exists = f->durableExists; f->size = f->exists ? f->durableSize : 0; f->flushed = f->size;
		for (size_t k = 0; k < FCAP; k++) f->data[k] = f->durable[k];
	}
	for (int i = 0; i < NSTREAMS; i++) vio.s[i].used = false;
	vio_dir.exists = vio_dir.durableExists; vio_dir.open = false; vio.crashed = false; vio.crashAt = VIO_NOFAIL; vio.failAt = VIO_NOFAIL;
}
static inline bool vio_dir_streq(const char* a, const char* b) { for (int k = 0; k < 16; k++) { if (a[k] != b[k]) return false; if (a[k] == 0) return true; } return false; }
// "T/<name>" -> table index; -1: "T" itself; -2: not a path of the model
static inline int vio_dir_lookup(const char* path)
{
	if (path[0] != 'T') return -2;
	if (path[1] == 0) return -1;
	if (path[1] != '/') return -2;
	for (int i = 0; i < VD_N; i++) if (vio_dir_streq(path + 2, vio_dir_names[i])) return i;
	return -2;
}
// the directory part of the crash snapshot (vio_freeze snapshots the files): directory creation / removal is durable at once
static inline void vio_dir_note() { if (!vio.crashed) vio_dir.durableExists = vio_dir.exists; }
extern "C" {
int vio_dir_open3(const char* path, int flags, unsigned mode)
{
	int i = vio_dir_lookup(path);
	if (i < 0 || !vio_dir.exists) { if (i == -2) vio_dir.unknownPaths++; i = VD_N; }
	return vio_open3(vio_dir_canon[i], flags, mode);
}
int vio_dir_remove(const char* path)
{
	int i = vio_dir_lookup(path); vio_dir.nRemove++;
	if (i < 0 || !vio_dir.exists) { if (i == -2) vio_dir.unknownPaths++; i = VD_N; }
	return vio_remove(vio_dir_canon[i]);
}
DIR* vio_dir_opendir(const char* path)
{
	vio_dir.nOpendir++;
	if (vio_step()) return NULL;
	int i = vio_dir_lookup(path);
	if (i != -1) { if (i == -2) vio_dir.unknownPaths++; return NULL; }     // ENOENT / ENOTDIR
	if (!vio_dir.exists) return NULL;
	if (vio_dir.open) { vstl_capacity_exceeded(); return NULL; }             // one directory stream at a time
	vio_dir.open = true; vio_dir.cursor = -2;
	return (DIR*)vio_dir_handle;
}
struct dirent* vio_dir_readdir(DIR* d)
{
	(void)d;
	if (vio_dir.cursor == -2) { vio_dir.cursor = -1; vio_dirent.d_ino = 1; vio_dirent.d_type = DT_DIR; vio_dirent.d_name[0] = '.'; vio_dirent.d_name[1] = 0; return &vio_dirent; }
	if (vio_dir.cursor == -1) { vio_dir.cursor = 0; vio_dirent.d_ino = 1; vio_dirent.d_type = DT_DIR; vio_dirent.d_name[0] = '.'; vio_dirent.d_name[1] = '.'; vio_dirent.d_name[2] = 0; return &vio_dirent; }
	for (int j = 0; j < VD_N; j++)
	{
		if (j < vio_dir.cursor) continue;
		int i = VIO_DIR_ORDER ? VD_N - 1 - j : j;                            // VIO_DIR_ORDER=1: the entries in reverse table order
		if (!vio.f[i].exists) continue;
		vio_dir.cursor = j + 1; vio_dirent.d_ino = 2 + i; vio_dirent.d_type = DT_REG;
		const char* n = vio_dir_names[i];
		for (int k = 0; k < 16; k++) { vio_dirent.d_name[k] = n[k]; if (n[k] == 0) break; }
		return &vio_dirent;
	}
	vio_dir.cursor = VD_N;
	return NULL;
}
int vio_dir_closedir(DIR* d) { (void)d; vio_dir.open = false; return 0; }
int vio_dir_lstat(const char* path, struct stat* st)
{
	int i = vio_dir_lookup(path);
	if (i == -2) { vio_dir.unknownPaths++; return -1; }
	if (!vio_dir.exists) return -1;
	if (i == -1) { st->st_mode = S_IFDIR | 0700; st->st_size = 0; return 0; }
	if (!vio.f[i].exists) return -1;
	st->st_mode = S_IFREG | 0600; st->st_size = (off_t)vio.f[i].size;
	return 0;
}
int vio_dir_mkdir(const char* path, unsigned mode)
{
	(void)mode;
	if (vio_step()) return -1;
	int i = vio_dir_lookup(path);
	if (i != -1) { if (i == -2) vio_dir.unknownPaths++; return -1; }
	if (vio_dir.exists) return -1;                                           // EEXIST
	vio_dir.exists = true; vio_dir_note();
	return 0;
}
int vio_dir_rmdir(const char* path)
{
	if (vio_step()) return -1;
	int i = vio_dir_lookup(path);
	if (i != -1) { if (i == -2) vio_dir.unknownPaths++; return -1; }
	if (!vio_dir.exists) return -1;
	for (int k = 0; k < VD_N; k++) if (vio.f[k].exists) return -1;           // ENOTEMPTY
	vio_dir.exists = false; vio_dir_note();
	return 0;
}
}
// rank of an object pointer = order in which the container model first compared it (see harness/C15/caps.h)
static const void* vstl_rank_tab[8]; static size_t vstl_rank_n;
extern "C" size_t vstl_ptr_rank(const void* p)
{
	for (size_t i = 0; i < 8; i++) { if (i >= vstl_rank_n) break; if (vstl_rank_tab[i] == p) return i; }
	if (vstl_rank_n >= 8) { vstl_capacity_exceeded(); return 0; }
	vstl_rank_tab[vstl_rank_n] = p; return vstl_rank_n++;
}
#ifdef VIO_DIR_UUID_MODEL
#include "UUID.h"
static unsigned vio_uuid_next;
std::string UUID::newUUID()
{
	if (vio_uuid_next >= 2) { vstl_capacity_exceeded(); return std::string("b"); }
	return std::string(vio_uuid_next++ == 0 ? "a" : "b");
}
#endif
#endif
