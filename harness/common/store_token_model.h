// Recording model of ObjectStoreToken (the persistent token object): PIN blobs, flags, label.
// Every mutator records the call and may fail nondeterministically (as a file-system error would).
#ifndef STORE_TOKEN_MODEL_H
#define STORE_TOKEN_MODEL_H
#include "venv.h"
#include "ObjectStoreToken.h"
class ModelStoreToken : public ObjectStoreToken {
public:
	ByteString soPIN, userPIN, label, serial; CK_ULONG flags; bool valid; bool failWrites; bool failReads;
	unsigned long nSetSOPIN, nSetUserPIN, nSetFlags, nClear, nReset, nCreate, nDelete;
	virtual bool setSOPIN(const ByteString& b) { nSetSOPIN++; if (failWrites) return false; soPIN = b; return true; }
	virtual bool getSOPIN(ByteString& b) { if (failReads) return false; b = soPIN; return true; }
	virtual bool setUserPIN(ByteString b) { nSetUserPIN++; if (failWrites) return false; userPIN = b; return true; }
	virtual bool getUserPIN(ByteString& b) { if (failReads) return false; b = userPIN; return true; }
	virtual bool getTokenFlags(CK_ULONG& f) { if (failReads) return false; f = flags; return true; }
	virtual bool setTokenFlags(const CK_ULONG f) { nSetFlags++; if (failWrites) return false; flags = f; return true; }
	virtual bool getTokenLabel(ByteString& l) { if (failReads) return false; l = label; return true; }
	virtual bool getTokenSerial(ByteString& s) { if (failReads) return false; s = serial; return true; }
	virtual std::set<OSObject*> getObjects() { return std::set<OSObject*>(); }
	virtual void getObjects(std::set<OSObject*>& objects) {}
	virtual OSObject* createObject() { nCreate++; return NULL; }
	virtual bool deleteObject(OSObject* o) { nDelete++; return !failWrites; }
	virtual bool isValid() { return valid; }
	virtual void invalidate() { valid = false; }
	virtual bool clearToken() { nClear++; return !failWrites; }
	virtual bool resetToken(const ByteString& l) { nReset++; if (failWrites) return false; label = l; userPIN = ByteString(); flags = CKF_RNG | CKF_LOGIN_REQUIRED | CKF_RESTORE_KEY_NOT_NEEDED | CKF_TOKEN_INITIALIZED | CKF_SO_PIN_LOCKED | CKF_SO_PIN_TO_BE_CHANGED; return true; }
	void havoc(size_t blobMax)
	{
		valid = true; failWrites = nondet_bool(); failReads = nondet_bool(); flags = nondet_ulong();
		nSetSOPIN = nSetUserPIN = nSetFlags = nClear = nReset = nCreate = nDelete = 0;
		size_t a = nondet_uchar(), b = nondet_uchar(); vassume(a <= blobMax && b <= blobMax);
		soPIN.resize(a); userPIN.resize(b);
	}
};
#endif
