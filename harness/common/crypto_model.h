// Model of the crypto back end for entry-point harnesses: CryptoFactory::i() returns a factory
// whose algorithms are *sink monitors*: every method records that it was reached (crypto_calls)
// and returns a nondeterministic success flag; produced bytes are nondeterministic.
// What OpenSSL computes is outside the claim; what SoftHSM asks it to do, and when, is observed.
#ifndef CRYPTO_MODEL_H
#define CRYPTO_MODEL_H
#include "venv.h"
#include "CryptoFactory.h"
#include "SymmetricAlgorithm.h"
#include "AsymmetricAlgorithm.h"
#include "MacAlgorithm.h"
#include "HashAlgorithm.h"
#include "RNG.h"

struct CryptoLog {
	unsigned long calls;          // number of crypto model methods reached
	unsigned long initCalls;      // *Init methods reached
	unsigned long dataCalls;      // update/final/single-shot methods reached (they consume or produce data)
	unsigned long lastKind;       // algorithm kind handed out last (SymAlgo / AsymAlgo / MacAlgo / HashAlgo value)
	unsigned long factoryGets;    // algorithms handed out
	unsigned long recycled;       // algorithms recycled
};
static CryptoLog crypto_log;
// ghost: what the check-value computations hash / encrypt with (first bytes and length of the last hash input; last symmetric key; algorithm kinds)
struct KcvSeen { unsigned long hashGets, hashUpdates, symGets, lastSymAlgo; size_t hashLen, keyLen; unsigned char hashIn[4], key[4]; };
static KcvSeen kcv_seen;
#ifndef MODEL_OUT_MAX
#define MODEL_OUT_MAX 8
#endif
static inline void model_fill(ByteString& out, size_t n) { out.resize(n); for (size_t i = 0; i < n && i < MODEL_OUT_MAX; i++) out[i] = nondet_uchar(); }

#ifdef MODEL_SYM_IDENTITY
// Functional model of a cipher for the wrap/unwrap kernels: CBC = the identity on the data (so that what SoftHSM feeds in and takes out is
// visible), key wrap = a tagged copy.  Every init records mode / padding flag / IV / key bytes.  Calls may still fail nondeterministically.
struct SymSeen { unsigned long inits, wraps, unwraps; int mode, wrapMode; bool padding; size_t ivLen, keyLen, inLen; unsigned char iv[16], key[4], in[40]; };
static SymSeen sym_seen;
enum { KW_TAG = 0xA6, KWP_TAG = 0xA7 };
class ModelSym : public SymmetricAlgorithm {
public:
	size_t blockSize;
	void see(const SymmetricKey* key, int mode, const ByteString& IV, bool padding) { sym_seen.inits++; sym_seen.mode = mode; sym_seen.padding = padding; sym_seen.ivLen = IV.size(); for (size_t i = 0; i < 16; i++) sym_seen.iv[i] = i < IV.size() ? IV.const_byte_str()[i] : 0; seeKey(key); }
	void seeKey(const SymmetricKey* key) { sym_seen.keyLen = key->getKeyBits().size(); for (size_t i = 0; i < 4; i++) sym_seen.key[i] = i < sym_seen.keyLen ? key->getKeyBits().const_byte_str()[i] : 0; }
	void seeIn(const ByteString& in) { sym_seen.inLen = in.size(); for (size_t i = 0; i < 40; i++) sym_seen.in[i] = i < in.size() ? in.const_byte_str()[i] : 0; }
	virtual bool encryptInit(const SymmetricKey* key, const SymMode::Type mode, const ByteString& IV, bool padding, size_t counterBits, const ByteString& aad, size_t tagBytes) { crypto_log.calls++; crypto_log.initCalls++; see(key, mode, IV, padding); return nondet_bool(); }
	virtual bool decryptInit(const SymmetricKey* key, const SymMode::Type mode, const ByteString& IV, bool padding, size_t counterBits, const ByteString& aad, size_t tagBytes) { crypto_log.calls++; crypto_log.initCalls++; see(key, mode, IV, padding); return nondet_bool(); }
	virtual bool encryptUpdate(const ByteString& data, ByteString& out) { crypto_log.calls++; crypto_log.dataCalls++; seeIn(data); out = data; return nondet_bool(); }
	virtual bool encryptFinal(ByteString& out) { crypto_log.calls++; crypto_log.dataCalls++; out.resize(0); return nondet_bool(); }
	virtual bool decryptUpdate(const ByteString& data, ByteString& out) { crypto_log.calls++; crypto_log.dataCalls++; seeIn(data); out = data; return nondet_bool(); }
	virtual bool decryptFinal(ByteString& out) { crypto_log.calls++; crypto_log.dataCalls++; out.resize(0); return nondet_bool(); }
	virtual bool wrapKey(const SymmetricKey* key, const SymWrap::Type mode, const ByteString& in, ByteString& out)
	{ crypto_log.calls++; crypto_log.dataCalls++; sym_seen.wraps++; sym_seen.wrapMode = mode; seeKey(key); seeIn(in); if (nondet_bool()) return false; out.resize(in.size() + 1); out[0] = mode == SymWrap::AES_KEYWRAP ? KW_TAG : KWP_TAG; for (size_t i = 0; i < in.size(); i++) out[i + 1] = in.const_byte_str()[i]; return true; }
	virtual bool unwrapKey(const SymmetricKey* key, const SymWrap::Type mode, const ByteString& in, ByteString& out)
	{ crypto_log.calls++; crypto_log.dataCalls++; sym_seen.unwraps++; sym_seen.wrapMode = mode; seeKey(key); if (nondet_bool() || in.size() == 0 || in.const_byte_str()[0] != (mode == SymWrap::AES_KEYWRAP ? KW_TAG : KWP_TAG)) return false; out.resize(in.size() - 1); for (size_t i = 1; i < in.size(); i++) out[i - 1] = in.const_byte_str()[i]; return true; }
	virtual void recycleKey(SymmetricKey* toRecycle) { crypto_log.recycled++; }
	virtual size_t getBlockSize() const { return blockSize; }
	virtual bool checkMaximumBytes(unsigned long bytes) { return nondet_bool(); }
};
#else
class ModelSym : public SymmetricAlgorithm {
public:
	size_t blockSize;
	virtual bool encryptInit(const SymmetricKey* key, const SymMode::Type mode, const ByteString& IV, bool padding, size_t counterBits, const ByteString& aad, size_t tagBytes)
	{ crypto_log.calls++; crypto_log.initCalls++; vtrace(mode); vtrace(padding); vtrace(counterBits); vtrace(tagBytes); vtrace(IV.size()); if (key) { kcv_seen.keyLen = key->getKeyBits().size(); for (size_t i = 0; i < 4; i++) kcv_seen.key[i] = i < kcv_seen.keyLen ? key->getKeyBits().const_byte_str()[i] : 0; } return nondet_bool(); }
	virtual bool decryptInit(const SymmetricKey* key, const SymMode::Type mode, const ByteString& IV, bool padding, size_t counterBits, const ByteString& aad, size_t tagBytes)
	{ crypto_log.calls++; crypto_log.initCalls++; vtrace(mode); vtrace(padding); vtrace(counterBits); vtrace(tagBytes); vtrace(IV.size()); return nondet_bool(); }
	virtual bool encryptUpdate(const ByteString& data, ByteString& out) { crypto_log.calls++; crypto_log.dataCalls++; model_fill(out, nondet_ulong() % (MODEL_OUT_MAX + 1)); return nondet_bool(); }
	virtual bool encryptFinal(ByteString& out) { crypto_log.calls++; crypto_log.dataCalls++; model_fill(out, nondet_ulong() % (MODEL_OUT_MAX + 1)); return nondet_bool(); }
	virtual bool decryptUpdate(const ByteString& data, ByteString& out) { crypto_log.calls++; crypto_log.dataCalls++; model_fill(out, nondet_ulong() % (MODEL_OUT_MAX + 1)); return nondet_bool(); }
	virtual bool decryptFinal(ByteString& out) { crypto_log.calls++; crypto_log.dataCalls++; model_fill(out, nondet_ulong() % (MODEL_OUT_MAX + 1)); return nondet_bool(); }
	virtual bool wrapKey(const SymmetricKey* key, const SymWrap::Type mode, const ByteString& in, ByteString& out) { crypto_log.calls++; crypto_log.dataCalls++; model_fill(out, nondet_ulong() % (MODEL_OUT_MAX + 1)); return nondet_bool(); }
	virtual bool unwrapKey(const SymmetricKey* key, const SymWrap::Type mode, const ByteString& in, ByteString& out) { crypto_log.calls++; crypto_log.dataCalls++; model_fill(out, nondet_ulong() % (MODEL_OUT_MAX + 1)); return nondet_bool(); }
	virtual void recycleKey(SymmetricKey* toRecycle) { crypto_log.recycled++; }
	virtual size_t getBlockSize() const { return blockSize; }
	virtual bool checkMaximumBytes(unsigned long bytes) { return nondet_bool(); }
};
#endif

class ModelPub : public PublicKey {
public:
	virtual bool isOfType(const char* t) { return nondet_bool(); }
	virtual unsigned long getBitLength() const { return 8 * len; }
	virtual unsigned long getOutputLength() const { return len; }
	virtual ByteString serialise() const { return ByteString(); }
	virtual bool deserialise(ByteString& s) { return nondet_bool(); }
	unsigned long len;
};
class ModelPriv : public PrivateKey {
public:
	virtual bool isOfType(const char* t) { return nondet_bool(); }
	virtual unsigned long getBitLength() const { return 8 * len; }
	virtual unsigned long getOutputLength() const { return len; }
	virtual ByteString PKCS8Encode() { crypto_log.calls++; ByteString b; model_fill(b, nondet_ulong() % (MODEL_OUT_MAX + 1)); return b; }
	virtual bool PKCS8Decode(const ByteString& ber) { crypto_log.calls++; return nondet_bool(); }
	virtual ByteString serialise() const { return ByteString(); }
	virtual bool deserialise(ByteString& s) { return nondet_bool(); }
	unsigned long len;
};
static ModelPub model_pub; static ModelPriv model_priv;

static PrivateKey* model_new_priv;        // handed out by newPrivateKey when a harness installs one (a typed key object the code under test casts to)
static SymmetricKey* model_secret;        // handed out by deriveKey when a harness installs one (default: derivation fails)
static AsymmetricKeyPair* model_keypair;   // handed out by generateKeyPair when a harness installs one (default: generation fails)
class ModelAsym : public AsymmetricAlgorithm {
public:
	virtual bool sign(PrivateKey* k, const ByteString& d, ByteString& sig, const AsymMech::Type m, const void* p, const size_t pl) { crypto_log.calls++; crypto_log.dataCalls++; model_fill(sig, nondet_ulong() % (MODEL_OUT_MAX + 1)); return nondet_bool(); }
	virtual bool signInit(PrivateKey* k, const AsymMech::Type m, const void* p, const size_t pl) { crypto_log.calls++; crypto_log.initCalls++; vtrace(m); return nondet_bool(); }
	virtual bool signUpdate(const ByteString& d) { crypto_log.calls++; crypto_log.dataCalls++; return nondet_bool(); }
	virtual bool signFinal(ByteString& sig) { crypto_log.calls++; crypto_log.dataCalls++; model_fill(sig, nondet_ulong() % (MODEL_OUT_MAX + 1)); return nondet_bool(); }
	virtual bool verify(PublicKey* k, const ByteString& d, const ByteString& sig, const AsymMech::Type m, const void* p, const size_t pl) { crypto_log.calls++; crypto_log.dataCalls++; return nondet_bool(); }
	virtual bool verifyInit(PublicKey* k, const AsymMech::Type m, const void* p, const size_t pl) { crypto_log.calls++; crypto_log.initCalls++; vtrace(m); return nondet_bool(); }
	virtual bool verifyUpdate(const ByteString& d) { crypto_log.calls++; crypto_log.dataCalls++; return nondet_bool(); }
	virtual bool verifyFinal(const ByteString& sig) { crypto_log.calls++; crypto_log.dataCalls++; return nondet_bool(); }
	virtual bool encrypt(PublicKey* k, const ByteString& d, ByteString& e, const AsymMech::Type pad) { crypto_log.calls++; crypto_log.dataCalls++; model_fill(e, nondet_ulong() % (MODEL_OUT_MAX + 1)); return nondet_bool(); }
	virtual bool decrypt(PrivateKey* k, const ByteString& e, ByteString& d, const AsymMech::Type pad) { crypto_log.calls++; crypto_log.dataCalls++; model_fill(d, nondet_ulong() % (MODEL_OUT_MAX + 1)); return nondet_bool(); }
	virtual bool generateKeyPair(AsymmetricKeyPair** pp, AsymmetricParameters* p, RNG* rng) { crypto_log.calls++; if (model_keypair && nondet_bool()) { *pp = model_keypair; return true; } return false; }
	virtual unsigned long getMinKeySize() { return minKey; }
	virtual unsigned long getMaxKeySize() { return maxKey; }
	virtual bool deriveKey(SymmetricKey** pp, PublicKey* pub, PrivateKey* priv) { crypto_log.calls++; if (model_secret && nondet_bool()) { *pp = model_secret; return true; } return false; }
	virtual bool reconstructKeyPair(AsymmetricKeyPair** pp, ByteString& s) { return false; }
	virtual bool reconstructPublicKey(PublicKey** pp, ByteString& s) { return false; }
	virtual bool reconstructPrivateKey(PrivateKey** pp, ByteString& s) { return false; }
	virtual PublicKey* newPublicKey() { return &model_pub; }
	virtual PrivateKey* newPrivateKey() { return model_new_priv ? model_new_priv : &model_priv; }
	virtual void recycleKeyPair(AsymmetricKeyPair* k) { crypto_log.recycled++; }
	virtual void recycleParameters(AsymmetricParameters* k) { crypto_log.recycled++; }
	virtual void recyclePublicKey(PublicKey* k) { crypto_log.recycled++; }
	virtual void recyclePrivateKey(PrivateKey* k) { crypto_log.recycled++; }
	virtual void recycleSymmetricKey(SymmetricKey* k) { crypto_log.recycled++; }
	unsigned long minKey, maxKey;
};

class ModelMac : public MacAlgorithm {
public:
	virtual bool signInit(const SymmetricKey* key) { crypto_log.calls++; crypto_log.initCalls++; return nondet_bool(); }
	virtual bool signUpdate(const ByteString& d) { crypto_log.calls++; crypto_log.dataCalls++; return nondet_bool(); }
	virtual bool signFinal(ByteString& sig) { crypto_log.calls++; crypto_log.dataCalls++; model_fill(sig, macSize); return nondet_bool(); }
	virtual bool verifyInit(const SymmetricKey* key) { crypto_log.calls++; crypto_log.initCalls++; return nondet_bool(); }
	virtual bool verifyUpdate(const ByteString& d) { crypto_log.calls++; crypto_log.dataCalls++; return nondet_bool(); }
	virtual bool verifyFinal(ByteString& sig) { crypto_log.calls++; crypto_log.dataCalls++; return nondet_bool(); }
	virtual unsigned long getMinKeySize() { return minKey; }
	virtual unsigned long getMaxKeySize() { return maxKey; }
	virtual void recycleKey(SymmetricKey* k) { crypto_log.recycled++; }
	virtual size_t getMacSize() const { return macSize; }
	unsigned long minKey, maxKey; size_t macSize;
};

class ModelHash : public HashAlgorithm {
public:
	virtual bool hashInit() { crypto_log.calls++; crypto_log.initCalls++; return nondet_bool(); }
	virtual bool hashUpdate(const ByteString& d) { crypto_log.calls++; crypto_log.dataCalls++; kcv_seen.hashUpdates++; kcv_seen.hashLen = d.size(); for (size_t i = 0; i < 4; i++) kcv_seen.hashIn[i] = i < d.size() ? d.const_byte_str()[i] : 0; return nondet_bool(); }
	virtual bool hashFinal(ByteString& h) { crypto_log.calls++; crypto_log.dataCalls++; model_fill(h, hashSize); return nondet_bool(); }
	virtual int getHashSize() { return (int)hashSize; }
	size_t hashSize;
};

static unsigned char model_rng_last[32]; static size_t model_rng_len; static unsigned long model_rng_calls;   // ghost copy of the bytes handed out last
class ModelRNG : public RNG {
public:
	virtual bool generateRandom(ByteString& data, const size_t len) { data.resize(len); for (size_t i = 0; i < len; i++) { data[i] = nondet_uchar(); if (i < sizeof(model_rng_last)) model_rng_last[i] = data[i]; } model_rng_len = len; model_rng_calls++; return true; }
	virtual void seed(ByteString& seedData) {}
};

static ModelSym model_sym; static ModelAsym model_asym; static ModelMac model_mac; static ModelHash model_hash; static ModelRNG model_rng;
static bool model_factory_null;   // the factory may also refuse (returns NULL)

class ModelFactory : public CryptoFactory {
public:
	virtual SymmetricAlgorithm* getSymmetricAlgorithm(SymAlgo::Type a) { crypto_log.factoryGets++; crypto_log.lastKind = a; kcv_seen.symGets++; kcv_seen.lastSymAlgo = a; if (model_factory_null) return NULL; model_sym.blockSize = (a == SymAlgo::AES) ? 16 : 8; return &model_sym; }
	virtual void recycleSymmetricAlgorithm(SymmetricAlgorithm* t) { crypto_log.recycled++; }
	virtual AsymmetricAlgorithm* getAsymmetricAlgorithm(AsymAlgo::Type a) { crypto_log.factoryGets++; crypto_log.lastKind = a; if (model_factory_null) return NULL; return &model_asym; }
	virtual void recycleAsymmetricAlgorithm(AsymmetricAlgorithm* t) { crypto_log.recycled++; }
	virtual HashAlgorithm* getHashAlgorithm(HashAlgo::Type a) { crypto_log.factoryGets++; crypto_log.lastKind = a; kcv_seen.hashGets++; if (model_factory_null) return NULL; return &model_hash; }
	virtual void recycleHashAlgorithm(HashAlgorithm* t) { crypto_log.recycled++; }
	virtual MacAlgorithm* getMacAlgorithm(MacAlgo::Type a) { crypto_log.factoryGets++; crypto_log.lastKind = a; if (model_factory_null) return NULL; return &model_mac; }
	virtual void recycleMacAlgorithm(MacAlgorithm* t) { crypto_log.recycled++; }
	virtual RNG* getRNG(RNGImpl::Type name) { return &model_rng; }
};
static ModelFactory model_factory;
#ifdef CRYPTO_MODEL_IMPL
CryptoFactory* CryptoFactory::i() { return &model_factory; }
void CryptoFactory::reset() {}
void CryptoFactory::recycleSymmetricAlgorithm(SymmetricAlgorithm* t) {}
void CryptoFactory::recycleAsymmetricAlgorithm(AsymmetricAlgorithm* t) {}
void CryptoFactory::recycleHashAlgorithm(HashAlgorithm* t) {}
void CryptoFactory::recycleMacAlgorithm(MacAlgorithm* t) {}
#endif
#endif
