// Container capacities of the entry-point harnesses.  Force-included (-include) into EVERY
// translation unit of an obligation (real sources and harness) so that all of them agree on
// the layout of the modelled containers.
#ifndef ENTRY_CAPS_H
#define ENTRY_CAPS_H
#include "vstl_common.h"
#ifndef BS_CAP
#define BS_CAP 16
#endif
#ifndef MECH_LIST_CAP
#define MECH_LIST_CAP 2
#endif
#ifndef ALLOWED_CAP
#define ALLOWED_CAP 2
#endif
#ifndef SYMOBJ_NATTR
#define SYMOBJ_NATTR 8
#endif
template<> struct vstl_vec_cap<unsigned char> { enum { value = BS_CAP }; };          // ByteString
template<> struct vstl_vec_cap<unsigned long> { enum { value = MECH_LIST_CAP }; };   // supportedMechanisms
template<> struct vstl_set_cap<unsigned long> { enum { value = ALLOWED_CAP }; };     // CKA_ALLOWED_MECHANISMS

#endif
