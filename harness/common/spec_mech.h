// Specification tables written from PKCS#11 v2.40 (mechanism -> admissible key types per operation).
// Deliberately NOT derived from the code under test.
#ifndef SPEC_MECH_H
#define SPEC_MECH_H
#include "cryptoki.h"
enum { SOP_ENCRYPT = 0, SOP_DECRYPT = 1, SOP_SIGN = 2, SOP_VERIFY = 3, SOP_WRAP = 4, SOP_UNWRAP = 5, SOP_DERIVE = 6 };
static inline bool is_iv_mech(CK_MECHANISM_TYPE m)
{ return m == CKM_DES_CBC || m == CKM_DES_CBC_PAD || m == CKM_DES3_CBC || m == CKM_DES3_CBC_PAD || m == CKM_AES_CBC || m == CKM_AES_CBC_PAD; }
static inline bool is_sym_cipher_mech(CK_MECHANISM_TYPE m)
{ return m == CKM_DES_ECB || m == CKM_DES3_ECB || m == CKM_AES_ECB || m == CKM_AES_CTR || m == CKM_AES_GCM || is_iv_mech(m); }
static inline bool is_mac_mech(CK_MECHANISM_TYPE m)
{ return m == CKM_MD5_HMAC || m == CKM_SHA_1_HMAC || m == CKM_SHA224_HMAC || m == CKM_SHA256_HMAC || m == CKM_SHA384_HMAC || m == CKM_SHA512_HMAC || m == CKM_DES3_CMAC || m == CKM_AES_CMAC; }
static inline bool is_sym_or_mac(CK_MECHANISM_TYPE m) { return is_sym_cipher_mech(m) || is_mac_mech(m); }
static inline bool is_rsa_mech(CK_MECHANISM_TYPE m)
{
	switch (m) { case CKM_RSA_PKCS: case CKM_RSA_X_509: case CKM_RSA_PKCS_OAEP: case CKM_MD5_RSA_PKCS: case CKM_SHA1_RSA_PKCS: case CKM_SHA224_RSA_PKCS:
	case CKM_SHA256_RSA_PKCS: case CKM_SHA384_RSA_PKCS: case CKM_SHA512_RSA_PKCS: case CKM_RSA_PKCS_PSS: case CKM_SHA1_RSA_PKCS_PSS: case CKM_SHA224_RSA_PKCS_PSS:
	case CKM_SHA256_RSA_PKCS_PSS: case CKM_SHA384_RSA_PKCS_PSS: case CKM_SHA512_RSA_PKCS_PSS: return true; default: return false; }
}
static inline bool is_dsa_mech(CK_MECHANISM_TYPE m)
{ return m == CKM_DSA || m == CKM_DSA_SHA1 || m == CKM_DSA_SHA224 || m == CKM_DSA_SHA256 || m == CKM_DSA_SHA384 || m == CKM_DSA_SHA512; }
// admissible key type for a mechanism (operation-independent in PKCS#11: the mechanism fixes the key type)
static inline bool keytype_fits_mech(CK_MECHANISM_TYPE m, CK_KEY_TYPE kt)
{
	switch (m)
	{
	case CKM_DES_ECB: case CKM_DES_CBC: case CKM_DES_CBC_PAD: return kt == CKK_DES;
	case CKM_DES3_ECB: case CKM_DES3_CBC: case CKM_DES3_CBC_PAD: case CKM_DES3_CMAC: return kt == CKK_DES2 || kt == CKK_DES3;
	case CKM_AES_ECB: case CKM_AES_CBC: case CKM_AES_CBC_PAD: case CKM_AES_CTR: case CKM_AES_GCM: case CKM_AES_CMAC:
	case CKM_AES_KEY_WRAP: case CKM_AES_KEY_WRAP_PAD: return kt == CKK_AES;
	case CKM_MD5_HMAC: return kt == CKK_GENERIC_SECRET || kt == CKK_MD5_HMAC;
	case CKM_SHA_1_HMAC: return kt == CKK_GENERIC_SECRET || kt == CKK_SHA_1_HMAC;
	case CKM_SHA224_HMAC: return kt == CKK_GENERIC_SECRET || kt == CKK_SHA224_HMAC;
	case CKM_SHA256_HMAC: return kt == CKK_GENERIC_SECRET || kt == CKK_SHA256_HMAC;
	case CKM_SHA384_HMAC: return kt == CKK_GENERIC_SECRET || kt == CKK_SHA384_HMAC;
	case CKM_SHA512_HMAC: return kt == CKK_GENERIC_SECRET || kt == CKK_SHA512_HMAC;
	case CKM_ECDSA: return kt == CKK_EC;
	case CKM_EDDSA: return kt == CKK_EC_EDWARDS;
	case CKM_DH_PKCS_DERIVE: return kt == CKK_DH;
	default:
		if (is_rsa_mech(m)) return kt == CKK_RSA;
		if (is_dsa_mech(m)) return kt == CKK_DSA;
		return true;   // mechanisms outside this table: no claim
	}
}
static inline bool is_asym_sigver_mech(CK_MECHANISM_TYPE m) { return (is_rsa_mech(m) && m != CKM_RSA_PKCS_OAEP) || is_dsa_mech(m) || m == CKM_ECDSA || m == CKM_EDDSA; }
#endif
