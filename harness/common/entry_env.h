// P-ENTRY scaffolding: a SoftHSM instance in an arbitrary (symbolic) initialised state with
//   * the real HandleManager holding one session handle and up to two object handles,
//   * a real Session with symbolic operation / RW flag / re-authentication flag,
//   * a real Token + SecureDataManager whose login flags are symbolic (never both),
//   * objects that are SymObjects: OSObject implementations whose attribute table is symbolic
//     (but consistent within one run),
//   * a symbolic supportedMechanisms list,
//   * the crypto back end replaced by sink monitors (crypto_model.h).
// State is built by writing the (private) fields directly; constructors that would touch the
// file system or OpenSSL are not run.
#ifndef ENTRY_ENV_H
#define ENTRY_ENV_H
#include "venv.h"
#include "vstl_common.h"
#include "entry_caps.h"

#define MUTEX_MODEL_IMPL
#include "mutex_model.h"
#define private public
#define protected public
#include "SoftHSM.h"
#include "Session.h"
#include "Token.h"
#include "SecureDataManager.h"
#include "HandleManager.h"
#include "Slot.h"
#include "SessionObjectStore.h"
#include "OSObject.h"
#include "OSAttribute.h"
#undef private
#undef protected
#define CRYPTO_MODEL_IMPL
#include "crypto_model.h"
#include <stdarg.h>

void softHSMLog(const int, const char*, const char*, const int, const char*, ...) {}

// ------------------------------------------------------------------ symbolic object
// Attribute table with one named slot per attribute type the entry points consult (no symbolic
// indexing).  Every slot has a symbolic "present" flag and a symbolic value; any other attribute
// type is absent.  Values are chosen once per run (consistent object).
#define SYM_BOOLS(X) X(TOKEN) X(PRIVATE) X(ENCRYPT) X(DECRYPT) X(SIGN) X(VERIFY) X(WRAP) X(UNWRAP) X(DERIVE) \
	X(SENSITIVE) X(EXTRACTABLE) X(ALWAYS_AUTHENTICATE) X(WRAP_WITH_TRUSTED) X(TRUSTED) X(MODIFIABLE) X(COPYABLE) \
	X(DESTROYABLE) X(LOCAL) X(ALWAYS_SENSITIVE) X(NEVER_EXTRACTABLE)
#define SYM_ULONGS(X) X(CLASS) X(KEY_TYPE) X(VALUE_LEN) X(CERTIFICATE_TYPE) X(KEY_GEN_MECHANISM)
#ifdef SYMOBJ_RSA
#define SYM_BYTES(X) X(VALUE) X(LABEL) X(PRIVATE_EXPONENT) X(PRIME_1) X(PRIME_2) X(EXPONENT_1) X(EXPONENT_2) X(COEFFICIENT) X(MODULUS) X(PUBLIC_EXPONENT)
#else
#define SYM_BYTES(X) X(VALUE) X(LABEL) X(ID) X(CHECK_VALUE)
#endif
enum { SK_BOOL = 0, SK_ULONG = 1, SK_BYTES = 2, SK_MECHSET = 3, SK_OTHER = 4 };
struct SetRecord { CK_ATTRIBUTE_TYPE type; unsigned char kind; bool b; unsigned long u; size_t bsLen; unsigned char bs0; };

class SymObject : public OSObject {
public:
#define X(n) bool has_##n, b_##n;
	SYM_BOOLS(X)
#undef X
#define X(n) bool has_##n; unsigned long u_##n;
	SYM_ULONGS(X)
#undef X
#define X(n) bool has_##n; ByteString s_##n;
	SYM_BYTES(X)
#undef X
	bool has_ALLOWED; std::set<CK_MECHANISM_TYPE> allowed;
	bool valid; bool destroyed; bool destroyOk; bool setOk;
	unsigned long nSet, nDelete, nStart, nCommit, nAbort, nDestroy; SetRecord lastSet;

	virtual bool attributeExists(CK_ATTRIBUTE_TYPE t)
	{
		switch (t) {
#define X(n) case CKA_##n: return has_##n;
		SYM_BOOLS(X) SYM_ULONGS(X) SYM_BYTES(X)
#undef X
		case CKA_ALLOWED_MECHANISMS: return has_ALLOWED;
		default: return false; }
	}
	virtual OSAttribute getAttribute(CK_ATTRIBUTE_TYPE t)
	{
		switch (t) {
#define X(n) case CKA_##n: if (has_##n) return OSAttribute(b_##n); break;
		SYM_BOOLS(X)
#undef X
#define X(n) case CKA_##n: if (has_##n) return OSAttribute(u_##n); break;
		SYM_ULONGS(X)
#undef X
#define X(n) case CKA_##n: if (has_##n) return OSAttribute(s_##n); break;
		SYM_BYTES(X)
#undef X
		case CKA_ALLOWED_MECHANISMS: if (has_ALLOWED) return OSAttribute(allowed); break;
		default: break; }
		return OSAttribute((unsigned long)0);
	}
	virtual bool getBooleanValue(CK_ATTRIBUTE_TYPE t, bool val)
	{
		switch (t) {
#define X(n) case CKA_##n: return has_##n ? b_##n : val;
		SYM_BOOLS(X)
#undef X
		default: return val; }
	}
	virtual unsigned long getUnsignedLongValue(CK_ATTRIBUTE_TYPE t, unsigned long val)
	{
		switch (t) {
#define X(n) case CKA_##n: return has_##n ? u_##n : val;
		SYM_ULONGS(X)
#undef X
		default: return val; }
	}
	virtual ByteString getByteStringValue(CK_ATTRIBUTE_TYPE t)
	{
		switch (t) {
#define X(n) case CKA_##n: if (has_##n) return s_##n; break;
		SYM_BYTES(X)
#undef X
		default: break; }
		return ByteString();
	}
	virtual CK_ATTRIBUTE_TYPE nextAttributeType(CK_ATTRIBUTE_TYPE t) { return CKA_CLASS; }   // iteration is not modelled (end immediately)
	virtual bool setAttribute(CK_ATTRIBUTE_TYPE t, const OSAttribute& at)
	{
		nSet++; lastSet.type = t;
		if (at.isBooleanAttribute()) { lastSet.kind = SK_BOOL; lastSet.b = at.getBooleanValue(); }
		else if (at.isUnsignedLongAttribute()) { lastSet.kind = SK_ULONG; lastSet.u = at.getUnsignedLongValue(); }
		else if (at.isByteStringAttribute()) { lastSet.kind = SK_BYTES; lastSet.bsLen = at.getByteStringValue().size(); lastSet.bs0 = lastSet.bsLen ? at.getByteStringValue().const_byte_str()[0] : 0; }
		else lastSet.kind = SK_MECHSET;
		if (!setOk) return false;
		switch (t) {
#define X(n) case CKA_##n: if (lastSet.kind == SK_BOOL) { has_##n = true; b_##n = lastSet.b; } break;
		SYM_BOOLS(X)
#undef X
#define X(n) case CKA_##n: if (lastSet.kind == SK_ULONG) { has_##n = true; u_##n = lastSet.u; } break;
		SYM_ULONGS(X)
#undef X
#define X(n) case CKA_##n: if (lastSet.kind == SK_BYTES) { has_##n = true; s_##n = at.getByteStringValue(); } break;
		SYM_BYTES(X)
#undef X
		default: break; }
		return true;
	}
	virtual bool deleteAttribute(CK_ATTRIBUTE_TYPE t) { nDelete++; return true; }
	virtual bool isValid() { return valid; }
	virtual bool startTransaction(Access) { nStart++; return true; }
	virtual bool commitTransaction() { nCommit++; return true; }
	virtual bool abortTransaction() { nAbort++; return true; }
	virtual bool destroyObject() { nDestroy++; if (destroyOk) { destroyed = true; valid = false; } return destroyOk; }

	void havoc(size_t nbytes)
	{
		valid = nondet_bool(); destroyed = false; destroyOk = nondet_bool(); setOk = nondet_bool();
		nSet = nDelete = nStart = nCommit = nAbort = nDestroy = 0;
#define X(n) has_##n = nondet_bool(); b_##n = nondet_bool();
		SYM_BOOLS(X)
#undef X
#define X(n) has_##n = nondet_bool(); u_##n = nondet_ulong();
		SYM_ULONGS(X)
#undef X
#define X(n) has_##n = nondet_bool(); { size_t n_ = nondet_uchar(); vassume(n_ <= nbytes); s_##n.resize(n_); for (size_t k = 0; k < nbytes; k++) if (k < n_) s_##n[k] = nondet_uchar(); }
		SYM_BYTES(X)
#undef X
		has_ALLOWED = nondet_bool();
		for (int m = 0; m < ALLOWED_CAP; m++) { allowed.u_[m] = nondet_bool(); allowed.k_[m] = nondet_ulong(); }
		if (ALLOWED_CAP == 2) vassume(!(allowed.u_[0] && allowed.u_[1] && allowed.k_[0] == allowed.k_[1]));
	}
};

// ------------------------------------------------------------------ library state
// Typed storage whose constructors are NOT run (they would touch the file system / OpenSSL / the
// real MutexFactory); every field the entry points read is written explicitly below.
template<class T> union Raw { T x; Raw() {} ~Raw() {} };
static Raw<SoftHSM> env_hsm_raw; static Raw<Token> env_tok_raw; static Raw<SecureDataManager> env_sdm_raw; static Raw<Slot> env_slot_raw; static Raw<SessionObjectStore> env_sos_raw;
static Session env_session;          // real default constructor (Session.cpp)
static HandleManager env_hm;         // real constructor
static SymObject env_obj[2];
struct Env { SoftHSM* hsm; HandleManager* hm; Session* session; Token* token; SecureDataManager* sdm; CK_SESSION_HANDLE hSession; CK_SLOT_ID slotID; SymObject* obj; CK_OBJECT_HANDLE hObj[2]; };
static Env env;

static inline void env_havoc_session(Session* s, Token* tok)
{
	s->slot = &env_slot_raw.x; s->token = tok;
	s->isReadWrite = nondet_bool(); s->hSession = 1;
	s->operation = (int)nondet_uint();
	s->reAuthentication = nondet_bool(); s->allowMultiPartOp = nondet_bool(); s->allowSinglePartOp = nondet_bool();
}

// nobj = number of object handles registered (0..2); nbytes = max byte-string attribute length
static inline void env_init(int nobj, size_t nbytes)
{
	env.hsm = &env_hsm_raw.x; env.session = &env_session; env.token = &env_tok_raw.x; env.sdm = &env_sdm_raw.x; env.hm = &env_hm; env.obj = env_obj;
	SoftHSM* h = env.hsm;
	h->isInitialised = true; h->isRemovable = false; h->sessionObjectStore = 0; h->objectStore = 0; h->slotManager = 0; h->sessionManager = 0;
	h->handleManager = env.hm; h->forkID = 0;
	// symbolic list of advertised mechanisms (as restricted by slots.mechanisms)
	h->supportedMechanisms.n_ = nondet_uchar(); vassume(h->supportedMechanisms.n_ <= MECH_LIST_CAP);
	for (size_t i = 0; i < MECH_LIST_CAP; i++) h->supportedMechanisms.s_[i] = nondet_ulong();
	h->nrSupportedMechanisms = h->supportedMechanisms.n_;
	// token + data manager: login flags symbolic, never both (invariant of SecureDataManager, see C03)
	env.sdm->soLoggedIn = nondet_bool(); env.sdm->userLoggedIn = nondet_bool();
	vassume(!(env.sdm->soLoggedIn && env.sdm->userLoggedIn));
	env.sdm->dataMgrMutex = MutexFactory::i()->getMutex();
	env.token->valid = true; env.token->token = 0; env.token->sdm = env.sdm; env.token->tokenMutex = MutexFactory::i()->getMutex();
	env.slotID = 1;
	env_slot_raw.x.objectStore = 0; env_slot_raw.x.token = env.token; env_slot_raw.x.slotID = env.slotID;
	h->sessionObjectStore = &env_sos_raw.x;
	env_havoc_session(env.session, env.token);
	vassume(!(env.sdm->soLoggedIn && !env.session->isReadWrite));   // no RO session while the SO is logged in (invariant proved by C03)
	env.hSession = env.hm->addSession(env.slotID, env.session);
	for (int i = 0; i < nobj; i++)
	{
		env.obj[i].havoc(nbytes);
		bool priv = env.obj[i].getBooleanValue(CKA_PRIVATE, true);
		if (env.obj[i].getBooleanValue(CKA_TOKEN, false)) env.hObj[i] = env.hm->addTokenObject(env.slotID, priv, &env.obj[i]);
		else env.hObj[i] = env.hm->addSessionObject(env.slotID, env.hSession, priv, &env.obj[i]);
	}
}
// ------------------------------------------------------------------ store / token sinks (used through ir2c --stub)
struct StoreLog { unsigned long tokCreates, sessCreates, decrypts, encrypts; bool lastSessPriv; CK_SESSION_HANDLE lastSessHandle; CK_SLOT_ID lastSlot; bool createFails; };
static StoreLog store_log;
static SymObject env_newobj;     // the object handed out by the creation sinks (starts without attributes)
static inline void env_newobj_reset() { env_newobj.valid = true; env_newobj.destroyed = false; env_newobj.destroyOk = true; env_newobj.setOk = nondet_bool(); store_log.createFails = nondet_bool(); }
extern "C" {
OSObject* sink_token_createObject(Token*) { store_log.tokCreates++; return store_log.createFails ? (OSObject*)0 : &env_newobj; }
OSObject* sink_sos_createObject(SessionObjectStore*, CK_SLOT_ID slot, CK_SESSION_HANDLE hs, bool priv) { store_log.sessCreates++; store_log.lastSessPriv = priv; store_log.lastSessHandle = hs; store_log.lastSlot = slot; return store_log.createFails ? (OSObject*)0 : &env_newobj; }
bool sink_token_decrypt(Token*, const ByteString& in, ByteString& out) { store_log.decrypts++; model_fill(out, nondet_ulong() % (MODEL_OUT_MAX + 1)); return nondet_bool(); }
bool sink_token_encrypt(Token*, const ByteString& in, ByteString& out) { store_log.encrypts++; model_fill(out, nondet_ulong() % (MODEL_OUT_MAX + 1)); return nondet_bool(); }
}
// tagging model of Token::encrypt / decrypt (only "was it encrypted?" matters): encrypt(x) = TAG || x
enum { ENC_TAG = 0xEE };
extern "C" {
bool tag_token_encrypt(Token*, const ByteString& in, ByteString& out) { store_log.encrypts++; if (nondet_bool()) return false; out.resize(in.size() + 1); out[0] = ENC_TAG; for (size_t i = 0; i < in.size(); i++) out[i + 1] = in.const_byte_str()[i]; return true; }
bool tag_token_decrypt(Token*, const ByteString& in, ByteString& out) { store_log.decrypts++; if (nondet_bool() || in.size() == 0 || in.const_byte_str()[0] != ENC_TAG) return false; out.resize(in.size() - 1); for (size_t i = 1; i < in.size(); i++) out[i - 1] = in.const_byte_str()[i]; return true; }
}
static inline bool env_user_logged_in() { return env.sdm->userLoggedIn && !env.sdm->soLoggedIn; }
static inline bool in_supported(CK_MECHANISM_TYPE m) { for (size_t i = 0; i < env.hsm->supportedMechanisms.n_; i++) if (env.hsm->supportedMechanisms.s_[i] == m) return true; return false; }
#endif
