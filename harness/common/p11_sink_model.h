// Sink model of the P11Object family for guard harnesses that do NOT link P11Objects.cpp /
// P11Attributes.cpp: newP11Object() (real, in SoftHSM.cpp) constructs these objects; their
// loadTemplate / saveTemplate are sink monitors (the real ones are the subject of C02 / C08 / C09).
#ifndef P11_SINK_MODEL_H
#define P11_SINK_MODEL_H
#include "venv.h"
#define private public
#define protected public
#include "P11Objects.h"
#undef private
#undef protected
struct P11Log { unsigned long loads, saves, inits; bool lastIsPrivate; int lastOp; OSObject* lastObject; CK_RV saveRv, loadRv; };
static P11Log p11_log;
P11Object::P11Object() { osobject = NULL; initialized = false; }
P11Object::~P11Object() {}
bool P11Object::init(OSObject* o) { osobject = o; initialized = true; p11_log.inits++; p11_log.lastObject = o; return true; }
CK_RV P11Object::loadTemplate(Token* token, CK_ATTRIBUTE_PTR pTemplate, CK_ULONG n) { p11_log.loads++; p11_log.lastObject = osobject; return p11_log.loadRv; }
CK_RV P11Object::saveTemplate(Token* token, bool isPrivate, CK_ATTRIBUTE_PTR pTemplate, CK_ULONG n, int op) { p11_log.saves++; p11_log.lastIsPrivate = isPrivate; p11_log.lastOp = op; p11_log.lastObject = osobject; return p11_log.saveRv; }
bool P11Object::isPrivate() { return osobject->getBooleanValue(CKA_PRIVATE, true); }
bool P11Object::isCopyable() { return osobject->getBooleanValue(CKA_COPYABLE, true); }
bool P11Object::isModifiable() { return osobject->getBooleanValue(CKA_MODIFIABLE, true); }
#define P11_SINK_CLASS(C, B) C::C() { initialized = false; } bool C::init(OSObject* o) { return B::init(o); }
P11_SINK_CLASS(P11DataObj, P11Object) P11_SINK_CLASS(P11CertificateObj, P11Object) P11_SINK_CLASS(P11X509CertificateObj, P11CertificateObj)
P11_SINK_CLASS(P11OpenPGPPublicKeyObj, P11CertificateObj) P11_SINK_CLASS(P11KeyObj, P11Object) P11_SINK_CLASS(P11PublicKeyObj, P11KeyObj)
P11_SINK_CLASS(P11RSAPublicKeyObj, P11PublicKeyObj) P11_SINK_CLASS(P11DSAPublicKeyObj, P11PublicKeyObj) P11_SINK_CLASS(P11ECPublicKeyObj, P11PublicKeyObj)
P11_SINK_CLASS(P11EDPublicKeyObj, P11PublicKeyObj) P11_SINK_CLASS(P11DHPublicKeyObj, P11PublicKeyObj) P11_SINK_CLASS(P11GOSTPublicKeyObj, P11PublicKeyObj)
P11_SINK_CLASS(P11PrivateKeyObj, P11KeyObj) P11_SINK_CLASS(P11RSAPrivateKeyObj, P11PrivateKeyObj) P11_SINK_CLASS(P11DSAPrivateKeyObj, P11PrivateKeyObj)
P11_SINK_CLASS(P11ECPrivateKeyObj, P11PrivateKeyObj) P11_SINK_CLASS(P11EDPrivateKeyObj, P11PrivateKeyObj) P11_SINK_CLASS(P11DHPrivateKeyObj, P11PrivateKeyObj)
P11_SINK_CLASS(P11GOSTPrivateKeyObj, P11PrivateKeyObj) P11_SINK_CLASS(P11SecretKeyObj, P11KeyObj) P11_SINK_CLASS(P11GenericSecretKeyObj, P11SecretKeyObj)
P11_SINK_CLASS(P11AESSecretKeyObj, P11SecretKeyObj) P11_SINK_CLASS(P11DESSecretKeyObj, P11SecretKeyObj) P11_SINK_CLASS(P11GOSTSecretKeyObj, P11SecretKeyObj)
P11_SINK_CLASS(P11DomainObj, P11Object) P11_SINK_CLASS(P11DSADomainObj, P11DomainObj) P11_SINK_CLASS(P11DHDomainObj, P11DomainObj)
bool P11GenericSecretKeyObj::setKeyType(CK_KEY_TYPE t) { keytype = t; return true; }
CK_KEY_TYPE P11GenericSecretKeyObj::getKeyType() { return keytype; }
bool P11DESSecretKeyObj::setKeyType(CK_KEY_TYPE t) { keytype = t; return true; }
CK_KEY_TYPE P11DESSecretKeyObj::getKeyType() { return keytype; }
static inline void p11_sink_reset() { p11_log.loads = p11_log.saves = p11_log.inits = 0; p11_log.saveRv = nondet_bool() ? CKR_OK : CKR_ATTRIBUTE_READ_ONLY; p11_log.loadRv = nondet_bool() ? CKR_OK : CKR_ATTRIBUTE_SENSITIVE; }
#endif
