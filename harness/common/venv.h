// Harness-side interface to the verification environment (C linkage, shared by the CBMC
// encoding and the native replay / differential builds).
#ifndef VENV_H
#define VENV_H
#include <stddef.h>
extern "C" {
unsigned long nondet_ulong(void);
unsigned int nondet_uint(void);
unsigned char nondet_uchar(void);
void vassert_(int c, int id) __attribute__((nomerge));     // property assertion; id = source line in the harness
void vassume_(int c);             // assumption (documented precondition / bound)
void vreach_(int id) __attribute__((nomerge));   // reachability witness: must be reachable (guards against vacuity)
void vtrace(unsigned long v);     // value observed by a monitor (hashed in the differential runs)
void ir_throw(void);              // a C++ exception would be thrown here
void vstl_capacity_exceeded(void);
void vstl_length_error(void);
void vstl_oob(void);
void vstl_access(const void* container);
}
#define vassert(c) vassert_(!!(c), __LINE__)
// assertion with an explicit, stable identifier (used where known-findings.txt refers to the assertion: line numbers shift with edits)
#define vassert_id(c, id) vassert_(!!(c), id)
#define vassume(c) vassume_(!!(c))
#define vreach() vreach_(__LINE__)
// Typed storage whose constructor is NOT run: declared extern here, defined zero-initialised by ir2c (generated C)
// resp. by vraw_defs.c (native builds).  Use: VRAW(Session, sess, [4]);  ->  vraw_sess[i]
#define VRAW(T, name, dim) extern "C++" { extern T vraw_##name dim; }
static inline bool nondet_bool() { return (nondet_uchar() & 1) != 0; }
#endif
