#ifndef C19_CAPS_H
#define C19_CAPS_H
#include "vstl_common.h"
template<> struct vstl_set_cap<unsigned long> { enum { value = 3 }; };
#endif
