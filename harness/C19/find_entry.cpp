// C19 (+ C01 search filter, C12 find-operation state) - C_FindObjectsInit over a population of two symbolic objects (token or
// session objects, private or public, valid or not) with a symbolic template of <= 2 entries, in an arbitrary login state.
// Real: SoftHSM::C_FindObjectsInit / C_FindObjects / C_FindObjectsFinal, FindOperation.cpp, HandleManager, Session.
// The captured handle set is compared with a reference matcher written from the PKCS#11 rules (soundness AND completeness).
// Private byte strings are stored encrypted (tagging model), so matching must decrypt them.
#include "entry_env.h"
#ifndef NOBJ
#define NOBJ 1
#endif
#ifndef TMAX
#define TMAX 1
#endif
#define private public
#include "FindOperation.h"
#undef private
extern "C" {
void stub_token_getObjects(Token*, std::set<OSObject*>& out) { for (int i = 0; i < NOBJ; i++) if (env.obj[i].getBooleanValue(CKA_TOKEN, false)) out.insert(&env.obj[i]); }
void stub_sos_getObjects(SessionObjectStore*, CK_SLOT_ID slot, std::set<OSObject*>& out) { vassert(slot == env.slotID); for (int i = 0; i < NOBJ; i++) if (!env.obj[i].getBooleanValue(CKA_TOKEN, false)) out.insert(&env.obj[i]); }
}
static unsigned long decryptFails;
extern "C" bool det_token_decrypt(Token*, const ByteString& in, ByteString& out)
{	// tagging model, failure chosen once per run
	store_log.decrypts++;
	if (decryptFails || in.size() == 0 || in.const_byte_str()[0] != ENC_TAG) return false;
	out.resize(in.size() - 1); for (size_t i = 1; i < in.size(); i++) out[i - 1] = in.const_byte_str()[i]; return true;
}
struct T { CK_ATTRIBUTE_TYPE type; CK_ULONG len; unsigned char v[8]; };
// reference matcher
static bool ref_match_one(SymObject& o, const T& t, bool priv, bool& needDecrypt)
{
	if (!o.attributeExists(t.type)) return false;
	switch (t.type)
	{
	case CKA_TOKEN: case CKA_PRIVATE: case CKA_SENSITIVE: case CKA_ENCRYPT:
		return t.len == 1 && o.getBooleanValue(t.type, false) == (t.v[0] == CK_TRUE);
	case CKA_CLASS: case CKA_KEY_TYPE:
		{ unsigned long u = 0; for (int k = 7; k >= 0; k--) u = (u << 8) | t.v[k]; return t.len == 8 && o.getUnsignedLongValue(t.type, 0) == u; }
	case CKA_LABEL: case CKA_ID:
		{
			ByteString s = o.getByteStringValue(t.type); size_t off = 0;
			if (priv && s.size() != 0) { needDecrypt = true; if (s[0] != ENC_TAG) return false; off = 1; }
			if (s.size() - off != t.len) return false;
			for (size_t k = 0; k < 8; k++) if (k < t.len && s[off + k] != t.v[k]) return false;
			return true;
		}
	default: return false;
	}
}
extern "C" void harness(void)
{
	env_init(0, 2);
	decryptFails = nondet_bool();
	for (int i = 0; i < NOBJ; i++)
	{	// shape of the objects is concrete (which attributes exist, byte-string lengths), every VALUE is symbolic
		SymObject& o = env.obj[i]; o.valid = nondet_bool(); o.destroyed = false; o.setOk = true;
		o.has_PRIVATE = true; o.b_PRIVATE = nondet_bool(); o.has_TOKEN = true; o.b_TOKEN = nondet_bool(); o.has_CLASS = true; o.u_CLASS = nondet_ulong();
		o.has_LABEL = true; unsigned char lb = nondet_uchar();
		if (o.b_PRIVATE) { o.s_LABEL.resize(2); o.s_LABEL[0] = nondet_bool() ? (unsigned char)ENC_TAG : (unsigned char)0x11; o.s_LABEL[1] = lb; } else { o.s_LABEL.resize(1); o.s_LABEL[0] = lb; }
		o.has_ID = (i == 0);  if (o.has_ID) o.s_ID.resize(0);          // object 0 has an EMPTY CKA_ID, object 1 has none
	}
	SoftHSM* hsm = env.hsm; Session* s = env.session;
	T t[2]; static CK_ATTRIBUTE tmpl[2]; CK_ULONG cnt = TCNT;
	for (int i = 0; i < 2; i++)
	{
		t[i].type = i == 0 ? (CK_ATTRIBUTE_TYPE)T0 : (CK_ATTRIBUTE_TYPE)T1;   // template attribute types are concrete per obligation
		t[i].len = nondet_uchar(); vassume(t[i].len == 0 || t[i].len == 1 || t[i].len == 2 || t[i].len == 8); for (int k = 0; k < 8; k++) t[i].v[k] = nondet_uchar();
		tmpl[i].type = t[i].type; tmpl[i].ulValueLen = t[i].len; tmpl[i].pValue = t[i].v;
	}
	CK_SESSION_HANDLE hS = nondet_bool() ? env.hSession : nondet_ulong();
	int op0 = s->operation; bool userIn = env_user_logged_in();
	CK_RV rv = hsm->C_FindObjectsInit(hS, cnt ? tmpl : NULL, cnt);
	if (hS != env.hSession) { vassert(rv == CKR_SESSION_HANDLE_INVALID && s->operation == op0); return; }
	if (op0 != SESSION_OP_NONE) { vassert(rv == CKR_OPERATION_ACTIVE && s->operation == op0 && s->findOp == 0); vreach(); return; }
	// expected result set
	bool expect[2] = { false, false }; bool needDecrypt = false;
	for (int i = 0; i < NOBJ; i++)
	{
		SymObject& o = env.obj[i]; bool priv = o.getBooleanValue(CKA_PRIVATE, true);
		bool vis = o.valid && !(priv && !userIn);
		bool m = true; for (CK_ULONG k = 0; k < 2; k++) if (k < cnt && vis) { bool nd = false; if (!ref_match_one(o, t[k], priv, nd)) { m = false; if (nd) needDecrypt = true; break; } if (nd) needDecrypt = true; }
		expect[i] = vis && m;
	}
	if (rv == CKR_OK)
	{
		vassert(s->operation == SESSION_OP_FIND && s->findOp != 0);
		FindOperation* f = s->findOp;
		for (int i = 0; i < NOBJ; i++)
		{
			CK_OBJECT_HANDLE h = env.hm->getObjectHandle(&env.obj[i]);
			bool captured = h != CK_INVALID_HANDLE && f->_handles.count(h) == 1;
			vassert(captured == expect[i]);                               // sound and complete
			if (captured) { vassert(env.hm->getObject(h) == &env.obj[i]); if (SHAPE_CAN_MATCH) vreach(); }
			if (!expect[i] && env.obj[i].getBooleanValue(CKA_PRIVATE, true) && !userIn) vassert(h == CK_INVALID_HANDLE);   // C01: not even a handle
		}
		vassert(f->_handles.size() == (unsigned)(expect[0] + expect[1]));
		// batching: any ulMaxObjectCount returns the smallest handles first, removes exactly those, never writes beyond max
		CK_OBJECT_HANDLE got[3] = { 0xAAAA, 0xAAAA, 0xAAAA }; CK_ULONG max = nondet_uchar() % 3, n = 77; size_t before = f->_handles.size();
		CK_RV rv2 = hsm->C_FindObjects(hS, got, max, &n);
		vassert(rv2 == CKR_OK && n == (before < max ? before : max) && f->_handles.size() == before - n);
		for (CK_ULONG k = 0; k < 3; k++) if (k >= n) vassert(got[k] == 0xAAAA);
		for (CK_ULONG k = 0; k < 2; k++) if (k < n) vassert(f->_handles.count(got[k]) == 0 && (got[k] == env.hm->getObjectHandle(&env.obj[0]) || (NOBJ > 1 && got[k] == env.hm->getObjectHandle(&env.obj[1]))));
		if (n == 2) vassert(got[0] != got[1]);
		if (max == 0 && before) { if (SHAPE_CAN_MATCH) vreach(); }
		vreach();
	}
	else
	{
		vassert(needDecrypt && decryptFails ? true : (rv == CKR_GENERAL_ERROR || rv == CKR_HOST_MEMORY || rv == CKR_ARGUMENTS_BAD));
		vassert(s->operation == SESSION_OP_NONE);                          // C12: a failed C_FindObjectsInit leaves no operation behind
		if (SHAPE_DECRYPTS) vreach();
	}
	vreach();
}
