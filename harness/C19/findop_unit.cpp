// C19 - batching of search results: real FindOperation::retrieveHandles / eraseHandles (as used by C_FindObjects) from an ARBITRARY
// pending handle set: a batch returns the min(n, max) smallest pending handles, removes exactly those and nothing else, never
// writes beyond max entries; hence any sequence of batch sizes (including 0) yields every handle exactly once.
#include "venv.h"
#include "caps.h"
#define private public
#define protected public
#include "FindOperation.h"
#undef private
#undef protected
extern "C" void harness(void)
{
	static FindOperation f;
	unsigned long k[3]; bool u[3];
	for (int i = 0; i < 3; i++) { u[i] = nondet_bool(); k[i] = nondet_ulong(); f._handles.u_[i] = u[i]; f._handles.k_[i] = k[i]; }
	vassume(!(u[0] && u[1] && k[0] == k[1]) && !(u[0] && u[2] && k[0] == k[2]) && !(u[1] && u[2] && k[1] == k[2]));
	size_t before = f._handles.size();
	CK_OBJECT_HANDLE out[4] = { 0xAAAA, 0xAAAA, 0xAAAA, 0xAAAA }; CK_ULONG max = nondet_uchar() % 5;
	CK_ULONG n = f.retrieveHandles(out, max);
	vassert(n == (before < max ? before : max));
	for (CK_ULONG i = 0; i < 4; i++) if (i >= n) vassert(out[i] == 0xAAAA);                 // nothing beyond the count
	for (CK_ULONG i = 0; i < 4; i++) if (i < n) { vassert(f._handles.count(out[i]) == 1); if (i + 1 < n) vassert(out[i] < out[i + 1]); }
	// the returned ones are the smallest pending handles
	for (int j = 0; j < 3; j++) if (u[j]) { bool returned = false; for (CK_ULONG i = 0; i < 4; i++) if (i < n && out[i] == k[j]) returned = true; if (!returned && n) vassert(k[j] > out[n - 1]); }
	CK_ULONG e = f.eraseHandles(0, n);
	vassert(e == n && f._handles.size() == before - n);
	for (int j = 0; j < 3; j++) if (u[j]) { bool returned = false; for (CK_ULONG i = 0; i < 4; i++) if (i < n && out[i] == k[j]) returned = true; vassert((f._handles.count(k[j]) == 1) == !returned); }
	if (n == 0 && before) vreach();            // an empty batch with results pending loses nothing
	if (n == 2) vreach();
	vreach();
}
