// C06 / C13 / C01 - key material access and import (real SoftHSM.cpp):
//   OP 0 getSymmetricKey: a private key object's CKA_VALUE is decrypted (Token::decrypt = tagging model) and exactly the plaintext becomes the
//        key; a failing decryption is an error and hands out nothing; a public object's value is used as stored
//   OP 1 getRSAPrivateKey: all eight components, each decrypted when the object is private, each lands in ITS slot of the key (N,E,D,P,Q,DP1,DQ1,PQ)
//   OP 2 setRSAPrivateKey (unwrap import): each component of the decoded key is stored in ITS attribute, encrypted iff the new object is private
#define SYMOBJ_RSA 1
#include "entry_env.h"
#include "RSAPrivateKey.h"
extern "C" bool det_token_encrypt(Token*, const ByteString& in, ByteString& out) { store_log.encrypts++; out.resize(in.size() + 1); out[0] = ENC_TAG; for (size_t i = 0; i < in.size(); i++) out[i + 1] = in.const_byte_str()[i]; return true; }
class MRsaPriv : public RSAPrivateKey { public: bool decodeOk; virtual ByteString PKCS8Encode() { return ByteString(); } virtual bool PKCS8Decode(const ByteString&) { return decodeOk; } };
static MRsaPriv rk;
static ByteString one(unsigned char v) { ByteString b; b.resize(1); b[0] = v; return b; }
// stored form of a one-byte component
static void put(ByteString& slot, bool priv, unsigned char v) { if (priv) { slot.resize(2); slot[0] = ENC_TAG; slot[1] = v; } else { slot.resize(1); slot[0] = v; } }
static bool is1(const ByteString& b, unsigned char v) { return b.size() == 1 && b.const_byte_str()[0] == v; }
static bool stored(const ByteString& b, bool priv, unsigned char v) { return priv ? (b.size() == 2 && b.const_byte_str()[0] == ENC_TAG && b.const_byte_str()[1] == v) : is1(b, v); }
extern "C" void harness(void)
{
	env_init(1, 2);
	SoftHSM* hsm = env.hsm; SymObject& key = env.obj[0];
	unsigned char c[8]; for (int i = 0; i < 8; i++) c[i] = nondet_uchar();
	bool priv = nondet_bool();
#if OP == 0
	key.has_PRIVATE = nondet_bool(); key.b_PRIVATE = priv; bool isPriv = key.getBooleanValue(CKA_PRIVATE, false);
	key.has_VALUE = true; put(key.s_VALUE, isPriv, c[0]); bool garbled = nondet_bool(); if (garbled) key.s_VALUE[0] = c[1];      // possibly not a valid ciphertext
	static SymmetricKey sk; ByteString marker = one(0x5A); sk.setKeyBits(marker);
	unsigned long d0 = store_log.decrypts;
	CK_RV rv = hsm->getSymmetricKey(&sk, env.token, &key);
	if (rv == CKR_OK) { vassert(is1(sk.getKeyBits(), isPriv ? c[0] : key.s_VALUE[0])); vassert((store_log.decrypts - d0) == (isPriv ? 1u : 0u)); if (isPriv) vassert(key.s_VALUE[0] == ENC_TAG); vreach(); }
	else { vassert(isPriv); vassert(is1(sk.getKeyBits(), 0x5A)); vreach(); }                 // only a failed decryption fails, and then no key material is handed out
#elif OP == 1
	key.has_PRIVATE = true; key.b_PRIVATE = priv;
	key.has_MODULUS = key.has_PUBLIC_EXPONENT = key.has_PRIVATE_EXPONENT = key.has_PRIME_1 = key.has_PRIME_2 = key.has_EXPONENT_1 = key.has_EXPONENT_2 = key.has_COEFFICIENT = true;
	put(key.s_MODULUS, priv, c[0]); put(key.s_PUBLIC_EXPONENT, priv, c[1]); put(key.s_PRIVATE_EXPONENT, priv, c[2]); put(key.s_PRIME_1, priv, c[3]);
	put(key.s_PRIME_2, priv, c[4]); put(key.s_EXPONENT_1, priv, c[5]); put(key.s_EXPONENT_2, priv, c[6]); put(key.s_COEFFICIENT, priv, c[7]);
	unsigned long d0 = store_log.decrypts;
	CK_RV rv = hsm->getRSAPrivateKey(&rk, env.token, &key);
	if (rv == CKR_OK)
	{
		vassert(is1(rk.getN(), c[0]) && is1(rk.getE(), c[1]) && is1(rk.getD(), c[2]) && is1(rk.getP(), c[3]) && is1(rk.getQ(), c[4]) && is1(rk.getDP1(), c[5]) && is1(rk.getDQ1(), c[6]) && is1(rk.getPQ(), c[7]));
		vassert((store_log.decrypts - d0) == (priv ? 8u : 0u));
		vreach();
	}
	else { vassert(priv); vreach(); }
#else
	model_new_priv = &rk; rk.decodeOk = nondet_bool();
	rk.setN(one(c[0])); rk.setE(one(c[1])); rk.setD(one(c[2])); rk.setP(one(c[3])); rk.setQ(one(c[4])); rk.setDP1(one(c[5])); rk.setDQ1(one(c[6])); rk.setPQ(one(c[7]));
	env_newobj_reset(); SymObject& n = env_newobj; n.has_MODULUS = n.has_PUBLIC_EXPONENT = n.has_PRIVATE_EXPONENT = n.has_PRIME_1 = n.has_PRIME_2 = n.has_EXPONENT_1 = n.has_EXPONENT_2 = n.has_COEFFICIENT = false;
	ByteString ber = one(0x30);
	bool ok = hsm->setRSAPrivateKey(&n, ber, env.token, priv);
	if (ok)
	{
		vassert(rk.decodeOk && n.setOk);
		vassert(n.has_MODULUS && stored(n.s_MODULUS, priv, c[0]) && n.has_PUBLIC_EXPONENT && stored(n.s_PUBLIC_EXPONENT, priv, c[1]));
		vassert(n.has_PRIVATE_EXPONENT && stored(n.s_PRIVATE_EXPONENT, priv, c[2]) && n.has_PRIME_1 && stored(n.s_PRIME_1, priv, c[3]) && n.has_PRIME_2 && stored(n.s_PRIME_2, priv, c[4]));
		vassert(n.has_EXPONENT_1 && stored(n.s_EXPONENT_1, priv, c[5]) && n.has_EXPONENT_2 && stored(n.s_EXPONENT_2, priv, c[6]) && n.has_COEFFICIENT && stored(n.s_COEFFICIENT, priv, c[7]));
		vassert(store_log.encrypts == (priv ? 8u : 0u));
		vreach();
	}
	else { vassert(!rk.decodeOk || !n.setOk); vreach(); }
#endif
	vreach();
}
