// C16 / C15 / C05 / C09 - the object file protocol: real ObjectFile.cpp (store, writeAttributes, refresh, setAttribute, transactions),
// File.cpp, Generation.cpp, OSAttribute.cpp over the model file system (vio_model.h: file 'A' = object file, 'B' = lock file).
// The SHAPE of the object is concrete (which attributes, byte lengths) so that file offsets are concrete; all VALUES, the crash
// point / fault point / truncation length are symbolic.
//   OP 0  round trip, format pin and cross-instance visibility (a second instance = another process sharing the directory)
//   OP 1  crash at an arbitrary file operation of a rewrite (+ arbitrary prefix of the data being flushed), then recovery
//   OP 2  one failing file operation at an arbitrary point of a rewrite
//   OP 3  loader on a file cut at an arbitrary length (what a crash of a LARGER write leaves behind)
#include "venv.h"
#include "caps.h"
#include "vio_model.h"
#define MUTEX_MODEL_IMPL
#include "mutex_model.h"
#define private public
#define protected public
#include "ObjectFile.h"
#include "File.h"
#include "Generation.h"
#include "OSAttribute.h"
#undef private
#undef protected
void softHSMLog(const int, const char*, const char*, const int, const char*, ...) {}
static void be64(unsigned char* d, unsigned long v) { for (int i = 0; i < 8; i++) d[i] = (unsigned char)(v >> (56 - 8 * i)); }
static ByteString bs2(unsigned char a, unsigned char b) { ByteString x; x.resize(2); x[0] = a; x[1] = b; return x; }
enum { A_LABEL = CKA_LABEL /*3*/, A_TOKEN = CKA_TOKEN /*1*/, A_MECH = CKA_ALLOWED_MECHANISMS };
// offsets of the records of the full object (generation, then attributes in key order: TOKEN(1), LABEL(3), ALLOWED_MECHANISMS(0x40000600))
enum { OFF_TOKEN = 8, OFF_LABEL = 8 + 17, OFF_MECH = 8 + 17 + 26, FULL = 8 + 17 + 26 + 32 };
extern "C" void harness(void)
{
	vio.f[0].exists = false; vio.f[1].exists = false; vio.f[0].size = 0; vio.f[1].size = 0; vio_reset();
	unsigned char l0 = nondet_uchar(), l1 = nondet_uchar(), n0 = nondet_uchar(), n1 = nondet_uchar(); bool tok = nondet_bool(); unsigned long mech = nondet_ulong();
	std::set<CK_MECHANISM_TYPE> ms; ms.insert(mech);
#if OP == 0
	// ---- a writer creates the object and sets three attributes (every call rewrites the file)
	static ObjectFile w(NULL, "A", 0077, "B", true);
	vassert(w.valid);
	vassert(w.setAttribute(A_TOKEN, OSAttribute(tok)) && w.setAttribute(A_LABEL, OSAttribute(bs2(l0, l1))) && w.setAttribute(A_MECH, OSAttribute(ms)));
	vassert(vio.f[0].size == FULL && vio.f[0].flushed == FULL);
#else
	// ---- the complete object file as the pinned writer produces it (layout proved by obligation objfile_share / C05 format pin)
	{
		unsigned char* d = vio.f[0].data; be64(d, 4);
		be64(d + OFF_TOKEN, 1); be64(d + OFF_TOKEN + 8, 1); d[OFF_TOKEN + 16] = tok ? 0xFF : 0x00;
		be64(d + OFF_LABEL, 3); be64(d + OFF_LABEL + 8, 3); be64(d + OFF_LABEL + 16, 2); d[OFF_LABEL + 24] = l0; d[OFF_LABEL + 25] = l1;
		be64(d + OFF_MECH, A_MECH); be64(d + OFF_MECH + 8, 5); be64(d + OFF_MECH + 16, 1); be64(d + OFF_MECH + 24, mech);
		vio.f[0].exists = true; vio.f[0].size = FULL; vio.f[0].flushed = FULL; vio.f[1].exists = true;
	}
#if OP == 1 || OP == 2
	static ObjectFile w(NULL, "A", 0077, "B", false);      // the process that is going to rewrite the object has it loaded
	vassert(w.valid && w.attributeExists(A_LABEL) && w.attributeExists(A_TOKEN) && w.attributeExists(A_MECH));
#endif
#endif
#if OP == 0
	// format pin (documented layout; reference encoder)
	unsigned char ref[FULL]; be64(ref, 4);   // generation: one per rewrite (create + 3 attribute writes)
	be64(ref + OFF_TOKEN, 1); be64(ref + OFF_TOKEN + 8, 1); ref[OFF_TOKEN + 16] = tok ? 0xFF : 0x00;
	be64(ref + OFF_LABEL, 3); be64(ref + OFF_LABEL + 8, 3); be64(ref + OFF_LABEL + 16, 2); ref[OFF_LABEL + 24] = l0; ref[OFF_LABEL + 25] = l1;
	be64(ref + OFF_MECH, A_MECH); be64(ref + OFF_MECH + 8, 5); be64(ref + OFF_MECH + 16, 1); be64(ref + OFF_MECH + 24, mech);
	for (int i = 0; i < FULL; i++) vassert(vio.f[0].data[i] == ref[i]);
	// another instance (process) opens the same file: identical attribute values
	static ObjectFile r(NULL, "A", 0077, "B", false);
	vassert(r.valid && r.getBooleanValue(A_TOKEN, !tok) == tok);
	{ ByteString v = r.getByteStringValue(A_LABEL); vassert(v.size() == 2 && v[0] == l0 && v[1] == l1); }
	{ OSAttribute a = r.getAttribute(A_MECH); vassert(a.isMechanismTypeSetAttribute() && a.getMechanismTypeSetValue().size() == 1 && a.getMechanismTypeSetValue().count(mech) == 1); }
	// the writer changes the label: the reader sees it at its next access, without being re-created (C15)
	vassert(w.setAttribute(A_LABEL, OSAttribute(bs2(n0, n1))));
	vassert(r.isValid());
	{ ByteString v = r.getByteStringValue(A_LABEL); vassert(v.size() == 2 && v[0] == n0 && v[1] == n1); }
	vassert(r.getBooleanValue(A_TOKEN, !tok) == tok);
	// ... and a later write of the reader does not lose the writer's committed change (no lost update)
	vassert(r.setAttribute(A_TOKEN, OSAttribute(!tok)));
	vassert(w.isValid());
	{ ByteString v = w.getByteStringValue(A_LABEL); vassert(v.size() == 2 && v[0] == n0 && v[1] == n1); vassert(w.getBooleanValue(A_TOKEN, tok) == !tok); }
	vreach();
#elif OP == 1 || OP == 2
	unsigned at = nondet_uchar(); unsigned base = vio.ops;
#if OP == 1
	vio.crashAt = base + at;
#else
	vio.failAt = base + at;
#endif
	bool ok = w.setAttribute(A_LABEL, OSAttribute(bs2(n0, n1)));
	unsigned used = vio.ops - base;
	vassume(at < used);                                   // the crash / fault point lies inside this call
#if OP == 1
	vassert(vio.crashed);
	// recovery in a fresh process: load what is durable
	for (size_t k = 0; k < FCAP; k++) vio.f[0].data[k] = vio.f[0].durable[k];
	vio.f[0].size = vio.f[0].durableSize; vio.f[0].exists = vio.f[0].durableExists; vio.crashAt = VIO_NOFAIL; vio.failAt = VIO_NOFAIL;
	size_t dsz = vio.f[0].size;
	static ObjectFile rec(NULL, "A", 0077, "B", false);
	if (rec.valid)
	{
		bool hasAll = rec.attributeExists(A_TOKEN) && rec.attributeExists(A_LABEL) && rec.attributeExists(A_MECH);
		ByteString v = rec.getByteStringValue(A_LABEL);
		bool isOld = hasAll && v.size() == 2 && v[0] == l0 && v[1] == l1 && rec.getBooleanValue(A_TOKEN, !tok) == tok;
		bool isNew = hasAll && v.size() == 2 && v[0] == n0 && v[1] == n1 && rec.getBooleanValue(A_TOKEN, !tok) == tok;
		// the interrupted object is in its old or its new state - never a valid object with missing or wrong attributes
		if (dsz == 0) { vassert(isOld || isNew); vreach(); }                                          // (A) file left empty by the truncate
		else if (dsz == 8 || dsz == OFF_LABEL || dsz == OFF_MECH) { vassert(isOld || isNew); vreach(); }   // (B) cut exactly at a record boundary
		else if (dsz < FULL) { vassert(isOld || isNew); }                                             // (C) cut anywhere else
		else { vassert(isNew || isOld); vreach(); }
	}
	else { vassert(dsz != FULL); vreach(); }                  // a completely written file is never rejected
#else
	if (ok)
	{	// C05: a call that could not persist its effect must not report success
		static ObjectFile rd(NULL, "A", 0077, "B", false);
		vassert(rd.valid);
		ByteString v = rd.getByteStringValue(A_LABEL);
		vassert(v.size() == 2 && v[0] == n0 && v[1] == n1 && rd.attributeExists(A_TOKEN) && rd.attributeExists(A_MECH));
		vreach();
	}
	else vreach();
#endif
#elif OP == 3
	size_t cut = nondet_uchar(); vassume(cut <= FULL);
	vio.f[0].size = cut; vio.f[0].flushed = cut;
	static ObjectFile rec(NULL, "A", 0077, "B", false);
	bool complete = rec.valid && rec.attributeExists(A_TOKEN) && rec.attributeExists(A_LABEL) && rec.attributeExists(A_MECH);
	if (cut == FULL) { vassert(complete); vreach(); }
	else if (cut == 0 || cut == 8 || cut == OFF_LABEL || cut == OFF_MECH) { vassert(!rec.valid || complete); vreach(); }        // (B) boundary cuts
	else if ((cut > 0 && cut < 8) || (cut > OFF_LABEL && cut < OFF_LABEL + 8) || (cut > OFF_MECH && cut < OFF_MECH + 8) || (cut > OFF_TOKEN && cut < OFF_TOKEN + 8))
	{ vassert(!rec.valid || complete); vreach(); }                                                                              // (D) cut inside the 8-byte type field of a record
	else { vassert(!rec.valid); vreach(); }                                                                                     // (C) cut inside a record body: must be rejected
#endif
}
