// C16 / C15 / C05 / C09 - the object file protocol: real ObjectFile.cpp (store, writeAttributes, refresh, setAttribute, transactions),
// File.cpp, Generation.cpp, OSAttribute.cpp over the model file system (vio_model.h: file 'A' = object file, 'B' = lock file).
// The SHAPE of the object is concrete (which attributes, byte lengths) so that file offsets are concrete; all VALUES, the crash
// point / fault point / truncation length are symbolic.
//   OP 0  round trip, format pin and cross-instance visibility (a second instance = another process sharing the directory)
//   OP 1  crash at the VIO_AT-th file operation of a rewrite (+ arbitrary prefix of the data being flushed): what is on the disk
//   OP 2  the VIO_AT-th file operation of a rewrite fails
//   OP 5  two instances, one concrete schedule (SCHED) of attribute writes, values symbolic
//   OP 3  loader on a file cut at an arbitrary length (what a crash of a LARGER write leaves behind)
#include "venv.h"
#include "caps.h"
#ifndef VIO_AT
#define VIO_AT 0
#endif
#ifndef NOPS
#define NOPS 24
#endif
#ifndef NOPS_TX
#define NOPS_TX 24
#endif
#ifndef SCHED
#define SCHED 0
#endif
#ifndef SCHED_LEN
#define SCHED_LEN 3
#endif
#include "vio_model.h"
#define MUTEX_MODEL_IMPL
#include "mutex_model.h"
#define private public
#define protected public
#include "ObjectFile.h"
#include "File.h"
#include "Generation.h"
#include "OSAttribute.h"
#undef private
#undef protected
void softHSMLog(const int, const char*, const char*, const int, const char*, ...) {}
static void be64(unsigned char* d, unsigned long v) { for (int i = 0; i < 8; i++) d[i] = (unsigned char)(v >> (56 - 8 * i)); }
static ByteString bs2(unsigned char a, unsigned char b) { ByteString x; x.resize(2); x[0] = a; x[1] = b; return x; }
enum { A_LABEL = CKA_LABEL /*3*/, A_TOKEN = CKA_TOKEN /*1*/, A_MECH = CKA_ALLOWED_MECHANISMS };
// offsets of the records of the full object (generation, then attributes in key order: TOKEN(1), LABEL(3), ALLOWED_MECHANISMS(0x40000600))
enum { OFF_TOKEN = 8, OFF_LABEL = 8 + 17, OFF_MECH = 8 + 17 + 26, FULL = 8 + 17 + 26 + 32 };
extern "C" void harness(void)
{
	vio_bind();
	vio.f[0].exists = false; vio.f[1].exists = false; vio.f[0].size = 0; vio.f[1].size = 0; vio_reset();
	unsigned char l0 = nondet_uchar(), l1 = nondet_uchar(), n0 = nondet_uchar(), n1 = nondet_uchar(); bool tok = nondet_bool(); unsigned long mech = nondet_ulong();
	std::set<CK_MECHANISM_TYPE> ms; ms.insert(mech);
#if OP == 0
	// ---- a writer creates the object and sets three attributes (every call rewrites the file)
	static ObjectFile w(NULL, "A", 0077, "B", true);
	vassert(w.valid);
	vassert(w.setAttribute(A_TOKEN, OSAttribute(tok)) && w.setAttribute(A_LABEL, OSAttribute(bs2(l0, l1))) && w.setAttribute(A_MECH, OSAttribute(ms)));
	vassert(vio.f[0].size == FULL && vio.f[0].flushed == FULL);
#else
	// ---- the complete object file as the pinned writer produces it (layout proved by obligation objfile_share / C05 format pin)
	{
		unsigned char* d = vio.f[0].data; be64(d, 4);
		be64(d + OFF_TOKEN, 1); be64(d + OFF_TOKEN + 8, 1); d[OFF_TOKEN + 16] = tok ? 0xFF : 0x00;
		be64(d + OFF_LABEL, 3); be64(d + OFF_LABEL + 8, 3); be64(d + OFF_LABEL + 16, 2); d[OFF_LABEL + 24] = l0; d[OFF_LABEL + 25] = l1;
		be64(d + OFF_MECH, A_MECH); be64(d + OFF_MECH + 8, 5); be64(d + OFF_MECH + 16, 1); be64(d + OFF_MECH + 24, mech);
		vio.f[0].exists = true; vio.f[0].size = FULL; vio.f[0].flushed = FULL; vio.f[1].exists = true;
	}
#if OP == 1 || OP == 2 || OP == 5 || OP == 6 || OP == 7
	static ObjectFile w(NULL, "A", 0077, "B", false);      // the process that is going to rewrite the object has it loaded
	vassert(w.valid && w.attributeExists(A_LABEL) && w.attributeExists(A_TOKEN) && w.attributeExists(A_MECH));
#endif
#endif
#if OP == 0
	// format pin (documented layout; reference encoder)
	unsigned char ref[FULL]; be64(ref, 4);   // generation: one per rewrite (create + 3 attribute writes)
	be64(ref + OFF_TOKEN, 1); be64(ref + OFF_TOKEN + 8, 1); ref[OFF_TOKEN + 16] = tok ? 0xFF : 0x00;
	be64(ref + OFF_LABEL, 3); be64(ref + OFF_LABEL + 8, 3); be64(ref + OFF_LABEL + 16, 2); ref[OFF_LABEL + 24] = l0; ref[OFF_LABEL + 25] = l1;
	be64(ref + OFF_MECH, A_MECH); be64(ref + OFF_MECH + 8, 5); be64(ref + OFF_MECH + 16, 1); be64(ref + OFF_MECH + 24, mech);
	for (int i = 0; i < FULL; i++) vassert(vio.f[0].data[i] == ref[i]);
	// another instance (process) opens the same file: identical attribute values
	static ObjectFile r(NULL, "A", 0077, "B", false);
	vassert(r.valid && r.getBooleanValue(A_TOKEN, !tok) == tok);
	{ ByteString v = r.getByteStringValue(A_LABEL); vassert(v.size() == 2 && v[0] == l0 && v[1] == l1); }
	{ OSAttribute a = r.getAttribute(A_MECH); vassert(a.isMechanismTypeSetAttribute() && a.getMechanismTypeSetValue().size() == 1 && a.getMechanismTypeSetValue().count(mech) == 1); }
	// the writer changes the label: the reader sees it at its next access, without being re-created (C15)
	vassert(w.setAttribute(A_LABEL, OSAttribute(bs2(n0, n1))));
	vassert(r.isValid());
	{ ByteString v = r.getByteStringValue(A_LABEL); vassert(v.size() == 2 && v[0] == n0 && v[1] == n1); }
	vassert(r.getBooleanValue(A_TOKEN, !tok) == tok);
	// ... and a later write of the reader does not lose the writer's committed change (no lost update)
	vassert(r.setAttribute(A_TOKEN, OSAttribute(!tok)));
	vassert(w.isValid());
	{ ByteString v = w.getByteStringValue(A_LABEL); vassert(v.size() == 2 && v[0] == n0 && v[1] == n1); vassert(w.getBooleanValue(A_TOKEN, tok) == !tok); }
	vreach();
#elif OP == 1
	// ---- crash at the VIO_AT-th file operation of the rewrite (VIO_AT concrete per obligation: "shapes concrete"), with an arbitrary prefix of the
	// data in flight when the crash hits a flush.  What is on the (model) disk afterwards is characterised exactly; what the loader makes
	// of every such file is decided by the loader_cut obligations (same file layout, all values symbolic).
	unsigned base = vio.ops;
	vio.crashAt = base + VIO_AT; vio_arm_crash = true;
	(void)w.setAttribute(A_LABEL, OSAttribute(bs2(n0, n1)));
	unsigned used = vio.ops - base;
	vassert(used == NOPS);                                 // the instantiated crash points 0 .. NOPS-1 are all of them
	vassert(vio.crashed && vio.f[0].durableExists);
	size_t dsz = vio.f[0].durableSize; const unsigned char* D = vio.f[0].durable;
	unsigned char oldref[FULL], newref[FULL];
	be64(oldref, 4); be64(oldref + OFF_TOKEN, 1); be64(oldref + OFF_TOKEN + 8, 1); oldref[OFF_TOKEN + 16] = tok ? 0xFF : 0x00;
	be64(oldref + OFF_LABEL, 3); be64(oldref + OFF_LABEL + 8, 3); be64(oldref + OFF_LABEL + 16, 2); oldref[OFF_LABEL + 24] = l0; oldref[OFF_LABEL + 25] = l1;
	be64(oldref + OFF_MECH, A_MECH); be64(oldref + OFF_MECH + 8, 5); be64(oldref + OFF_MECH + 16, 1); be64(oldref + OFF_MECH + 24, mech);
	for (int i = 0; i < FULL; i++) newref[i] = oldref[i];
	be64(newref, 5); newref[OFF_LABEL + 24] = n0; newref[OFF_LABEL + 25] = n1;
	bool isOld = dsz == FULL, isNewPrefix = dsz <= FULL;
	for (int i = 0; i < FULL; i++) { if (D[i] != oldref[i]) isOld = false; if ((size_t)i < dsz && D[i] != newref[i]) isNewPrefix = false; }
	// (1) nothing but the old file or a prefix of the new file is ever on the disk (sequential rewrite, no garbage, no other file touched)
	vassert(isOld || isNewPrefix);
	vassert(vio.f[1].durableExists && vio.f[1].durableSize == 0);
	// (2) C16: the object being rewritten is in its old or in its (complete) new state
	vassert_id(isOld || (isNewPrefix && dsz == FULL), 16001);
	vreach();
#elif OP == 2
	// ---- one failing file operation at the VIO_AT-th file operation of the rewrite
	unsigned base = vio.ops;
	vio.failAt = base + VIO_AT; vio_arm_fail = true;
	bool ok = w.setAttribute(A_LABEL, OSAttribute(bs2(n0, n1)));
	vassert(vio.failures == 1);
	if (ok)
	{	// C05: a call that could not persist its effect must not report success
		vio_arm_fail = false;
		static ObjectFile rd(NULL, "A", 0077, "B", false);
		vassert(rd.valid);
		ByteString v = rd.getByteStringValue(A_LABEL);
		vassert(v.size() == 2 && v[0] == n0 && v[1] == n1 && rd.attributeExists(A_TOKEN) && rd.attributeExists(A_MECH));
		vassert(vio.f[0].flushed == vio.f[0].size);         // ... and nothing is left unflushed
	}
	vreach();
#elif OP == 5
	// ---- C15: two processes (two ObjectFile instances on the same file), every interleaving at call granularity of SCHED_LEN attribute
	// writes: step i is performed by instance (op & 1) on attribute (op >> 1), op = digit i of SCHED in base 4.  After every step BOTH
	// instances must show exactly the committed state (last committed write per attribute wins; nothing lost, nothing resurrected).
	static ObjectFile r(NULL, "A", 0077, "B", false);
	vassert(r.valid);
	unsigned char rl0 = l0, rl1 = l1; bool rtok = tok;        // reference: the committed state
	unsigned sched = SCHED;
	for (int step = 0; step < SCHED_LEN; step++, sched /= 4)
	{
		ObjectFile& who = (sched & 1) ? r : w;
		if (sched & 2) { bool b = nondet_bool(); vassert(who.setAttribute(A_TOKEN, OSAttribute(b))); rtok = b; }
		else { unsigned char a = nondet_uchar(), b = nondet_uchar(); vassert(who.setAttribute(A_LABEL, OSAttribute(bs2(a, b)))); rl0 = a; rl1 = b; }
		vassert(vio.f[0].size == FULL && vio.f[0].flushed == FULL);
		for (int k = 0; k < 2; k++)
		{
			ObjectFile& o = k ? r : w;
			vassert(o.isValid());
			ByteString v = o.getByteStringValue(A_LABEL);
			vassert(v.size() == 2 && v[0] == rl0 && v[1] == rl1);
			vassert(o.getBooleanValue(A_TOKEN, !rtok) == rtok);
			OSAttribute a = o.getAttribute(A_MECH);
			vassert(a.isMechanismTypeSetAttribute() && a.getMechanismTypeSetValue().size() == 1 && a.getMechanismTypeSetValue().count(mech) == 1);
		}
	}
	vreach();
#elif OP == 6
	// ---- C05 / C09: an attribute TRANSACTION (what every PKCS#11 object-management call uses): two attributes are changed, nothing reaches the
	// disk before the commit; the VIO_AT-th file operation of commitTransaction fails (VIO_AT >= NOPS_TX: no fault): commit reports success
	// only if BOTH new values are on the (model) disk and flushed, and another instance sees them
	unsigned char oldimg[FULL]; for (int i = 0; i < FULL; i++) oldimg[i] = vio.f[0].data[i];
	vassert(w.startTransaction(OSObject::ReadWrite));
	vassert(w.setAttribute(A_LABEL, OSAttribute(bs2(n0, n1))) && w.setAttribute(A_TOKEN, OSAttribute(!tok)));
	for (int i = 0; i < FULL; i++) vassert(vio.f[0].data[i] == oldimg[i]);          // uncommitted changes are not on the disk
	vassert(vio.f[0].size == FULL);
	unsigned base = vio.ops;
	if (VIO_AT < NOPS_TX) { vio.failAt = base + VIO_AT; vio_arm_fail = true; }
	bool ok = w.commitTransaction();
	unsigned used = vio.ops - base;
	if (VIO_AT < NOPS_TX) vassert(vio.failures == 1); else { vassert(ok && used == NOPS_TX); vreach(); }
	if (ok)
	{
		vio_arm_fail = false;
		static ObjectFile rd(NULL, "A", 0077, "B", false);
		vassert(rd.valid);
		ByteString v = rd.getByteStringValue(A_LABEL);
		vassert(v.size() == 2 && v[0] == n0 && v[1] == n1 && rd.getBooleanValue(A_TOKEN, tok) == !tok && rd.attributeExists(A_MECH));
		vassert(vio.f[0].flushed == vio.f[0].size);
	}
	vreach();
#elif OP == 7
	// ---- C09: an aborted transaction leaves the object - in memory and on disk - exactly as it was
	unsigned char oldimg[FULL]; for (int i = 0; i < FULL; i++) oldimg[i] = vio.f[0].data[i];
	vassert(w.startTransaction(OSObject::ReadWrite));
	vassert(w.setAttribute(A_LABEL, OSAttribute(bs2(n0, n1))) && w.setAttribute(A_TOKEN, OSAttribute(!tok)));
	vassert(w.abortTransaction());
	for (int i = 0; i < FULL; i++) vassert(vio.f[0].data[i] == oldimg[i]);
	vassert(vio.f[0].size == FULL && w.isValid());
	{ ByteString v = w.getByteStringValue(A_LABEL); vassert(v.size() == 2 && v[0] == l0 && v[1] == l1); vassert(w.getBooleanValue(A_TOKEN, !tok) == tok); }
	vassert(w.startTransaction(OSObject::ReadWrite));            // and a new transaction can be started
	vreach();
#elif OP == 3
	const size_t cut = CUT;          // the truncation length is concrete per obligation (EOF position concrete), all values symbolic; the runner instantiates the cuts
	vio.f[0].size = cut; vio.f[0].flushed = cut;
	static ObjectFile rec(NULL, "A", 0077, "B", false);
	bool complete = rec.valid && rec.attributeExists(A_TOKEN) && rec.attributeExists(A_LABEL) && rec.attributeExists(A_MECH);
	if (cut == FULL) { vassert(complete); vreach(); }
	else if (cut == 0 || cut == 8 || cut == OFF_LABEL || cut == OFF_MECH) { vassert_id(!rec.valid || complete, 16002); vreach(); }        // (B) boundary cuts
	else if ((cut > 0 && cut < 8) || (cut > OFF_LABEL && cut < OFF_LABEL + 8) || (cut > OFF_MECH && cut < OFF_MECH + 8) || (cut > OFF_TOKEN && cut < OFF_TOKEN + 8))
	{ vassert_id(!rec.valid || complete, 16003); vreach(); }                                                                      // (D) cut inside the 8-byte type field of a record
	else { vassert(!rec.valid); vreach(); }                                                                                     // (C) cut inside a record body: must be rejected
#endif
}
