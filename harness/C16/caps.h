#ifndef C16_CAPS_H
#define C16_CAPS_H
#include "vstl_common.h"
#ifndef BS_CAP
#define BS_CAP 8
#endif
class OSAttribute;
template<> struct vstl_vec_cap<unsigned char> { enum { value = BS_CAP }; };
template<> struct vstl_set_cap<unsigned long> { enum { value = 2 }; };                 // mechanism sets
template<> struct vstl_map_cap<unsigned long, OSAttribute> { enum { value = 2 }; };   // nested attribute maps
template<> struct vstl_map_cap<unsigned long, OSAttribute*> { enum { value = 4 }; };  // attributes of an object
#include "vio_rename.h"
#endif
