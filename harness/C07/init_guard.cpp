// C07 / C01 / C12(a) - guards at the start of a keyed operation.
// One real call of C_EncryptInit / C_DecryptInit / C_SignInit / C_VerifyInit (selected by -DOP) from an
// arbitrary initialised state: session state, login state, the key object's whole attribute table,
// the mechanism (all 2^64 values), its parameter, the advertised mechanism list and the key's
// CKA_ALLOWED_MECHANISMS are symbolic.  Key material access (get*Key) and the crypto back end are sinks.
#include "entry_env.h"
#include "spec_mech.h"

static unsigned long sink_key;     // key material of the object was read / decrypted
extern "C" {
CK_RV sink_getKey(SoftHSM*, void* k, Token* t, OSObject* o) { sink_key++; return nondet_bool() ? CKR_OK : CKR_GENERAL_ERROR; }
}

extern "C" void harness(void)
{
	env_init(1, 2);
	SoftHSM* hsm = env.hsm; Session* s = env.session; SymObject& key = env.obj[0];
	// mechanism with a parameter block of up to PARAM_MAX bytes
	static unsigned long paramw[8]; unsigned char* param = (unsigned char*)paramw; static unsigned char ivbuf[16]; static unsigned char aadbuf[16];
	CK_MECHANISM mech; mech.mechanism = nondet_ulong();
	mech.ulParameterLen = nondet_ulong(); vassume(mech.ulParameterLen <= sizeof(paramw));
	mech.pParameter = nondet_bool() ? (CK_VOID_PTR)param : NULL_PTR;
	for (size_t i = 0; i < 8; i++) paramw[i] = nondet_ulong();
	if (mech.mechanism == CKM_AES_GCM && mech.pParameter && mech.ulParameterLen == sizeof(CK_GCM_PARAMS))
	{	// pointer members of the parameter struct must reference valid memory of the stated size (PKCS#11 precondition)
		CK_GCM_PARAMS* g = (CK_GCM_PARAMS*)param; g->pIv = ivbuf; g->pAAD = aadbuf;
		vassume(g->ulIvLen <= sizeof(ivbuf) && g->ulAADLen <= sizeof(aadbuf));
	}
	if (mech.mechanism == CKM_RSA_PKCS_OAEP && mech.pParameter && mech.ulParameterLen == sizeof(CK_RSA_PKCS_OAEP_PARAMS))
	{ CK_RSA_PKCS_OAEP_PARAMS* o = (CK_RSA_PKCS_OAEP_PARAMS*)param; if (o->pSourceData) o->pSourceData = aadbuf; }
	vassume(mech.ulParameterLen <= BS_CAP || !is_iv_mech(mech.mechanism));   // IV copied into a ByteString of capacity BS_CAP (bound)
	CK_SESSION_HANDLE hS = nondet_bool() ? env.hSession : nondet_ulong();
	CK_OBJECT_HANDLE hK = nondet_bool() ? env.hObj[0] : nondet_ulong();

	// ---- pre-state snapshot
	int op0 = s->operation; bool reauth0 = s->reAuthentication;
	bool userIn = env_user_logged_in();
	bool kPriv = key.getBooleanValue(CKA_PRIVATE, true);
	bool kValid = key.valid;
	CK_ATTRIBUTE_TYPE usageAttr = OP == 0 ? CKA_ENCRYPT : OP == 1 ? CKA_DECRYPT : OP == 2 ? CKA_SIGN : CKA_VERIFY;
	bool usage = key.getBooleanValue(usageAttr, false);
	CK_KEY_TYPE kt = key.getUnsignedLongValue(CKA_KEY_TYPE, CKK_VENDOR_DEFINED);
	bool allowedEmpty = true, allowedHas = false;
	if (key.has_ALLOWED) { for (int m = 0; m < ALLOWED_CAP; m++) if (key.allowed.u_[m]) { allowedEmpty = false; if (key.allowed.k_[m] == mech.mechanism) allowedHas = true; } }
	bool supported = in_supported(mech.mechanism);

#if OP == 0
	CK_RV rv = hsm->C_EncryptInit(hS, &mech, hK);
#elif OP == 1
	CK_RV rv = hsm->C_DecryptInit(hS, &mech, hK);
#elif OP == 2
	CK_RV rv = hsm->C_SignInit(hS, &mech, hK);
#else
	CK_RV rv = hsm->C_VerifyInit(hS, &mech, hK);
#endif

	bool usedKey = sink_key > 0 || crypto_log.calls > 0;
	// ---- C12(a): one active operation
	if (hS == env.hSession && op0 != SESSION_OP_NONE) { vassert(rv == CKR_OPERATION_ACTIVE); vassert(s->operation == op0 && !usedKey); vreach(); }
	if (rv != CKR_OK) vassert(s->operation == op0);                         // a refused Init does not start (or clobber) an operation
	if (hS != env.hSession) vassert(rv == CKR_SESSION_HANDLE_INVALID && !usedKey);
	// ---- C01: private keys only with the normal user logged in
	if (hS == env.hSession && hK == env.hObj[0] && kPriv && !userIn) { vassert(rv != CKR_OK); vassert(!usedKey); vreach(); }
	if (rv == CKR_OK || usedKey)
	{
		vassert(hS == env.hSession && hK == env.hObj[0] && kValid);           // only a valid handle of a valid object
		vassert(!kPriv || userIn);
		// ---- C07
		vassert(usage);                                                       // matching usage flag is true
		vassert(allowedEmpty || allowedHas);                                  // CKA_ALLOWED_MECHANISMS honoured
#ifndef KNOWN_NO_SUPPORTED_CHECK
		vassert(supported);                                                   // advertised (slots.mechanisms) list honoured
#else
		if (!(KNOWN_NO_SUPPORTED_CHECK)) vassert(supported); else if (!supported) vreach();
#endif
		if (!((OP == 2 || OP == 3) && is_asym_sigver_mech(mech.mechanism)))
			vassert(keytype_fits_mech(mech.mechanism, kt));                     // key type fits the mechanism (spec table)
		else
			vassert(keytype_fits_mech(mech.mechanism, kt));                     // same, asymmetric sign/verify mechanisms (separate id: see known-findings.txt)
		vreach();
	}
	if (rv == CKR_OK)
	{
		vassert(s->operation == (OP == 0 ? SESSION_OP_ENCRYPT : OP == 1 ? SESSION_OP_DECRYPT : OP == 2 ? SESSION_OP_SIGN : SESSION_OP_VERIFY));
		// always-authenticate: a private-key operation on such a key arms the re-authentication gate
		if ((OP == 1 || OP == 2) && key.getBooleanValue(CKA_ALWAYS_AUTHENTICATE, false) && !is_sym_or_mac(mech.mechanism)) { vassert(s->reAuthentication); vreach(); }
	}
	else vassert(s->reAuthentication == reauth0);
	vreach();
}
