// C13 / C17 - padding kernels of key wrapping (real SoftHSM::RFC5652Pad / RFC5652Unpad / RFC3394Pad) for EVERY input
// up to two blocks + 1 byte: PKCS#7 shape, Unpad(Pad(x)) == x, Unpad accepts exactly the PKCS#7-valid strings and never
// accesses the buffer out of range; AES-KW zero padding to the next multiple of 8; DES parity table.
#include "venv.h"
#include "caps.h"
#define private public
#define protected public
#include "SoftHSM.h"
#undef private
#undef protected
#include "odd.h"
#include <stdarg.h>
void softHSMLog(const int, const char*, const char*, const int, const char*, ...) {}
VRAW(SoftHSM, hsm, )
#ifndef BLK
#define BLK 8
#endif
enum { MAXIN = 2 * BLK + 1 };
extern "C" void harness(void)
{
	SoftHSM* h = &vraw_hsm;
	unsigned char in[MAXIN + BLK]; size_t n = nondet_uchar();
#if OP == 0      // Pad, then Unpad
	vassume(n <= MAXIN);
	ByteString x; x.resize(n); for (size_t i = 0; i < MAXIN; i++) { in[i] = nondet_uchar(); if (i < n) x[i] = in[i]; }
	size_t r = h->RFC5652Pad(x, BLK);
	size_t pad = x.size() - n;
	vassert(r == x.size() && x.size() % BLK == 0 && pad >= 1 && pad <= BLK && x.size() <= n + BLK);
	for (size_t i = 0; i < MAXIN + BLK; i++) if (i < x.size()) vassert(x[i] == (i < n ? in[i] : (unsigned char)pad));
	bool ok = h->RFC5652Unpad(x, BLK);
	vassert(ok && x.size() == n);
	for (size_t i = 0; i < MAXIN; i++) if (i < n) vassert(x[i] == in[i]);
	vreach();
#elif OP == 1    // Unpad on an arbitrary buffer (a decrypted, possibly malformed, wrapped blob)
	vassume(n <= MAXIN + BLK - 1);
	ByteString x; x.resize(n); for (size_t i = 0; i < MAXIN + BLK - 1; i++) { in[i] = nondet_uchar(); if (i < n) x[i] = in[i]; }
	// reference: PKCS#7 validity written from RFC 5652 section 6.3
	bool valid = n > 0 && n % BLK == 0;
	size_t p = valid ? in[n - 1] : 0;
	if (valid && (p == 0 || p > BLK)) valid = false;
	if (valid) for (size_t i = 0; i < MAXIN + BLK - 1; i++) if (i < n && i >= n - p && in[i] != p) valid = false;
	bool ok = h->RFC5652Unpad(x, BLK);
	vassert(ok == valid);
	if (ok) { vassert(x.size() == n - p); for (size_t i = 0; i < MAXIN + BLK - 1; i++) if (i < n - p) vassert(x[i] == in[i]); vreach(); }
	else { vassert(x.size() == n); vreach(); }
	if (n == 0) vreach();
#elif OP == 2    // AES key wrap zero padding
	vassume(n <= MAXIN);
	ByteString x; x.resize(n); for (size_t i = 0; i < MAXIN; i++) { in[i] = nondet_uchar(); if (i < n) x[i] = in[i]; }
	size_t r = h->RFC3394Pad(x);
	vassert(r == x.size() && x.size() % 8 == 0 && x.size() >= n && x.size() < n + 8);
	for (size_t i = 0; i < MAXIN + 8; i++) if (i < x.size()) vassert(x[i] == (i < n ? in[i] : 0));
	vreach();
#elif OP == 3    // odd parity table used for DES key derivation: every entry has odd parity and differs from its index at most in bit 0
	unsigned char b = nondet_uchar();
	unsigned char v = odd_parity[b];
	unsigned par = 0; for (int k = 0; k < 8; k++) par ^= (v >> k) & 1;
	vassert(par == 1);
	vassert((v & 0xFE) == (b & 0xFE));
	vreach();
#endif
}
