// C13 - the symmetric wrap / unwrap kernels (real SoftHSM::WrapKeySym, UnwrapKeySym, getSymmetricKey, RFC5652Pad/Unpad, RFC3394Pad) over
// the functional cipher model of crypto_model.h (-DMODEL_SYM_IDENTITY: CBC = identity on the data, key wrap = tagged copy; inits record
// mode, padding flag, IV and key bytes).  What is proved is what SoftHSM itself contributes to the blob format:
//   CBC_PAD: the primitive is asked for CBC WITHOUT its own padding under exactly the caller's IV and the wrapping key's value, and is fed
//            exactly PKCS#7(key bytes) (RFC 5652); unwrap feeds the blob under the caller's IV and strips exactly the padding
//   AES_KEY_WRAP: the primitive gets the key bytes zero-padded to a multiple of 8 (>= 16); AES_KEY_WRAP_PAD: exactly the key bytes
//   round trip: UnwrapKeySym(WrapKeySym(k)) == k (zero-padded for AES_KEY_WRAP)
// -DMECH mechanism, -DKLEN key bytes (concrete per obligation; contents symbolic)
#include "entry_env.h"
#ifndef KLEN
#define KLEN 5
#endif
extern "C" void harness(void)
{
	env_init(1, 3);
	SoftHSM* hsm = env.hsm; SymObject& wk = env.obj[0];
	vassume(wk.valid && wk.has_VALUE && wk.has_PRIVATE);
	bool wPriv = wk.b_PRIVATE;
	static unsigned char iv[16]; for (int i = 0; i < 16; i++) iv[i] = nondet_uchar();
	CK_MECHANISM mech; mech.mechanism = MECH; mech.pParameter = iv; mech.ulParameterLen = 16;
	const size_t blk = MECH == CKM_DES3_CBC_PAD ? 8 : 16;
	unsigned char k[KLEN]; ByteString keydata; keydata.resize(KLEN); for (int i = 0; i < KLEN; i++) { k[i] = nondet_uchar(); keydata[i] = k[i]; }
	ByteString wrapped;
	CK_RV rv = hsm->WrapKeySym(&mech, env.token, &wk, keydata, wrapped);
	if (rv != CKR_OK) { vreach(); return; }
	// ---- the wrapping key handed to the primitive is the key object's value (decrypted when the object is private)
	{
		size_t off = wPriv ? 1 : 0; vassert(wk.s_VALUE.size() == sym_seen.keyLen + off); if (wPriv) vassert(wk.s_VALUE[0] == ENC_TAG);
		for (size_t i = 0; i < 2; i++) if (i < sym_seen.keyLen) vassert(sym_seen.key[i] == wk.s_VALUE[i + off]);
	}
	const bool cbc = MECH == CKM_AES_CBC_PAD || MECH == CKM_DES3_CBC_PAD;
	size_t expLen;
	if (cbc)
	{
		vassert(sym_seen.inits == 1 && sym_seen.wraps == 0 && sym_seen.mode == SymMode::CBC && !sym_seen.padding);
		vassert(crypto_log.lastKind == (unsigned long)(MECH == CKM_DES3_CBC_PAD ? SymAlgo::DES3 : SymAlgo::AES));
		vassert(sym_seen.ivLen == blk); for (size_t i = 0; i < 16; i++) if (i < blk) vassert(sym_seen.iv[i] == iv[i]);     // the caller's IV
		expLen = (KLEN / blk + 1) * blk;                                                                               // PKCS#7: always 1..blk padding bytes
		vassert(sym_seen.inLen == expLen && wrapped.size() == expLen);
		for (size_t i = 0; i < expLen; i++) { unsigned char e = i < KLEN ? k[i] : (unsigned char)(expLen - KLEN); vassert(sym_seen.in[i] == e && wrapped[i] == e); }
		vreach();
	}
	else
	{
		vassert(sym_seen.inits == 0 && sym_seen.wraps == 1 && sym_seen.wrapMode == (MECH == CKM_AES_KEY_WRAP ? SymWrap::AES_KEYWRAP : SymWrap::AES_KEYWRAP_PAD) && crypto_log.lastKind == (unsigned long)SymAlgo::AES);
		expLen = MECH == CKM_AES_KEY_WRAP ? (KLEN + 7) / 8 * 8 : KLEN;
		if (MECH == CKM_AES_KEY_WRAP) vassert(expLen >= 16);                 // RFC 3394 needs at least two 64-bit blocks
		vassert(sym_seen.inLen == expLen && wrapped.size() == expLen + 1);
		for (size_t i = 0; i < expLen; i++) vassert(sym_seen.in[i] == (i < KLEN ? k[i] : 0));
		vreach();
	}
	// ---- round trip through UnwrapKeySym with the same mechanism and parameters
	unsigned long inits0 = sym_seen.inits; ByteString back;
	CK_RV rv2 = hsm->UnwrapKeySym(&mech, wrapped, env.token, &wk, back);
	if (rv2 == CKR_OK)
	{
		if (cbc) { vassert(sym_seen.inits == inits0 + 1 && sym_seen.mode == SymMode::CBC && !sym_seen.padding && sym_seen.ivLen == blk); for (size_t i = 0; i < 16; i++) if (i < blk) vassert(sym_seen.iv[i] == iv[i]); }
		size_t bl = MECH == CKM_AES_KEY_WRAP ? expLen : KLEN;
		vassert(back.size() == bl);
		for (size_t i = 0; i < bl; i++) vassert(back[i] == (i < KLEN ? k[i] : 0));
		vreach();
	}
	vreach();
}
