#ifndef C13_CAPS_H
#define C13_CAPS_H
#include "vstl_common.h"
#ifndef BS_CAP
#define BS_CAP 40
#endif
template<> struct vstl_vec_cap<unsigned char> { enum { value = BS_CAP }; };
template<> struct vstl_vec_cap<unsigned long> { enum { value = 2 }; };
template<> struct vstl_set_cap<unsigned long> { enum { value = 2 }; };
#endif
