// C18 - lock-discipline model of MutexFactory / Mutex / MutexLocker (replaces harness/common/mutex_model.h's
// implementation in the C18 harnesses; same representation: the lock depth is the ghost counter in Mutex::handle).
//
// Execution is single-threaded.  What is checked while the checks are armed (lm_on, i.e. during the ONE call under test):
//   L9001  a shared table is touched while the mutex that guards it is not held      (raised by the harness's vstl_access hook)
//   L9002  Mutex::lock() on a mutex the caller already holds (OS mutexes are non-recursive: self-deadlock)
//   L9003  Mutex::unlock() on a mutex that is not held (counter would become negative)
//   L9004  lock order: while holding mutex A only mutexes of a HIGHER rank in the written global order are acquired
//   L9005  a mutex that is not one of the factory's mutexes is locked (unknown lock: no rank, no guard map)
// INTERFERENCE (rely/guarantee): while this thread does not hold mutex M, other threads may change everything M guards.
// Every acquisition of M from depth 0 calls lm_on_acquire(index) BEFORE the lock is granted and every release that brings
// the depth back to 0 calls lm_on_release(index) AFTER it: the harness performs there an arbitrary admissible step of the
// other threads on the state guarded by M (and, at acquisition, takes the ghost snapshot "state at lock time").  The
// sequential contract of the method is asserted against the lock-time snapshot, so a value read before the acquisition or
// after the release (e.g. a scalar counter re-read for the return value) and a check-then-act split over two critical
// sections are refuted.
// Observed nestings are recorded in lm_pair[held][acquired] (reachability witnesses in the harness show they are exercised).
#ifndef C18_LOCK_MODEL_H
#define C18_LOCK_MODEL_H
#define private public
#define protected public
#include "MutexFactory.h"
#undef private
#undef protected

#ifndef LM_N
#define LM_N 6
#endif
// written global lock order (acquire only upwards).  Two mutexes of the same class (two tokens, two objects) have the same
// rank: holding one while acquiring the other is refused (no order between them is defined by the code).
enum { LM_RANK_NONE = 0, LM_RANK_SESSIONS = 10, LM_RANK_STORE = 20, LM_RANK_TOKEN = 30, LM_RANK_OSTOKEN = 40, LM_RANK_OBJECT = 50,
       LM_RANK_DATAMGR = 60, LM_RANK_HANDLES = 70 };

static inline size_t vmutex_depth(Mutex* m) { return m ? (size_t)m->handle : 0; }
static Mutex lm_pool[LM_N]; static size_t lm_next;
static int lm_rank[LM_N];
static bool lm_on;
static bool lm_pair[LM_N][LM_N];
static unsigned long lm_acquisitions[LM_N];   // number of acquisitions from depth 0 while armed
static unsigned long lm_recycled;
static void lm_on_acquire(int idx);           // defined by the harness section of the class under test
static void lm_on_release(int idx);

static inline int lm_idx(const Mutex* m) { for (int i = 0; i < LM_N; i++) if (m == &lm_pool[i]) return i; return -1; }
static inline void lm_set_rank(Mutex* m, int rank) { int i = lm_idx(m); if (i >= 0) lm_rank[i] = rank; }
static inline bool lm_all_released() { for (int i = 0; i < LM_N; i++) if (lm_pool[i].handle != 0) return false; return true; }

Mutex::Mutex() { handle = 0; isValid = true; }
Mutex::~Mutex() {}
// (all ghost tables are indexed by the CONCRETE loop variable; which pool entry `this` is stays a symbolic guard: cheaper for symbolic execution than symbolic indices)
bool Mutex::lock()
{
	if (lm_on)
	{
		bool known = false;
		for (int me = 0; me < LM_N; me++) if (this == &lm_pool[me])
		{
			known = true;
			vassert_(lm_pool[me].handle == 0, 9002);
			for (int i = 0; i < LM_N; i++) if (i != me && lm_pool[i].handle != 0)
			{
				lm_pair[i][me] = true;
				vassert_(lm_rank[i] < lm_rank[me], 9004);
			}
			if (lm_pool[me].handle == 0) { lm_acquisitions[me]++; lm_on_acquire(me); }
			lm_pool[me].handle = (CK_VOID_PTR)((size_t)lm_pool[me].handle + 1);
		}
		vassert_(known, 9005);
		return true;
	}
	handle = (CK_VOID_PTR)((size_t)handle + 1);
	return true;
}
void Mutex::unlock()
{
	if (lm_on)
	{
		for (int me = 0; me < LM_N; me++) if (this == &lm_pool[me])
		{
			vassert_(lm_pool[me].handle != 0, 9003);
			lm_pool[me].handle = (CK_VOID_PTR)((size_t)lm_pool[me].handle - 1);
			if (lm_pool[me].handle == 0) lm_on_release(me);
			return;
		}
		return;
	}
	handle = (CK_VOID_PTR)((size_t)handle - 1);
}
MutexLocker::MutexLocker(Mutex* inMutex) { mutex = inMutex; if (mutex != NULL) mutex->lock(); }
MutexLocker::~MutexLocker() { if (mutex != NULL) mutex->unlock(); }
static long lm_factory_storage[(sizeof(MutexFactory) + 7) / 8];
MutexFactory* MutexFactory::i() { return (MutexFactory*)lm_factory_storage; }
MutexFactory::~MutexFactory() {}
Mutex* MutexFactory::getMutex() { Mutex* m = &lm_pool[lm_next % LM_N]; lm_next++; return m; }
void MutexFactory::recycleMutex(Mutex* m) { if (m) lm_recycled++; }
#endif
