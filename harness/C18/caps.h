// container capacities of the C18 lock-discipline harnesses (force-included in every TU of an obligation)
#ifndef C18_CAPS_H
#define C18_CAPS_H
#include "vstl_common.h"
class Session;
#ifndef BS_CAP
#define BS_CAP 4
#endif
#ifndef NSESS
#define NSESS 3
#endif
template<> struct vstl_vec_cap<unsigned char> { enum { value = BS_CAP }; };
template<> struct vstl_vec_cap<Session*> { enum { value = NSESS }; };
template<> struct vstl_vec_cap<unsigned long> { enum { value = 2 }; };
template<> struct vstl_set_cap<unsigned long> { enum { value = 2 }; };
class OSAttribute;
template<> struct vstl_map_cap<unsigned long, OSAttribute> { enum { value = 2 }; };    // nested attribute maps (not exercised here)
template<> struct vstl_map_cap<unsigned long, OSAttribute*> { enum { value = 2 }; };   // attributes of a session object
#endif
