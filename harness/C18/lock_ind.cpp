// C18 - lock discipline of the manager classes, decided per public method (one inductive step).
//
// Real threads are not executed.  What is proved, for EVERY pre-state satisfying the class's representation invariant and
// EVERY argument value within the container capacities, for ONE call of ONE public method (-DCLS=class, -DOP=method):
//   (a) every access to a shared table of the class happens while the mutex guarding that table is held
//       (vstl_access hook of the container models -> L9001); scalar shared fields are checked indirectly: they are
//       havocked at the moment the guarding mutex is acquired (interference by other threads) and the method's result must
//       be explained by the value AT LOCK TIME, so a value read before the lock and used after it is refuted;
//   (b) at return every mutex is released again (ghost counters back at their entry values), no unlock without lock (L9003);
//   (c) no mutex is acquired while the caller already holds it (L9002: non-recursive OS mutexes => self-deadlock);
//   (d) nested acquisitions follow the written global order of lock_model.h (L9004); the nestings that occur are witnessed.
// Together (a)+(b) make each method body ONE critical section over its table: dropping a MutexLocker, moving it below the
// first access, ending its scope before the last access, or splitting a check-then-act into two sections is refuted.
// NOT given: atomicity of a whole C_* call that is composed of several manager calls; real schedules; memory-model effects.
#include "venv.h"
#include "lock_model.h"
#include <new>

// L9001: table `c` is being accessed; `m` is the mutex that must be held
#define GUARDED_BY(c_, table, m) do { if ((c_) == (const void*)&(table)) vassert_(vmutex_depth(m) > 0, 9001); } while (0)

#if CLS == 1
// =============================================================================================== HandleManager
#define private public
#include "HandleManager.h"
#undef private
typedef std::map<CK_ULONG, Handle> HMap;
typedef std::map<CK_VOID_PTR, CK_ULONG> OMap;
enum { CAP = HMap::CAP, ENVN = 4 };
static HMap::node hpool[CAP], henv[ENVN];
static OMap::node opool[CAP], oenv[ENVN];
static char objpool[8];          // object / session addresses known to the table at entry
static char envobj[ENVN];        // addresses owned by OTHER threads (never equal to anything the calling thread passes in)
static char mysess;              // the calling thread's freshly created session (addSession)
VRAW(HandleManager, lifecycle, )   // typed raw storage (a pointer stored into an untyped array would lose its target for CBMC)
static HandleManager* g_hm;
static void* g_own;              // what the calling thread owns in this call (its session / the object it passes in): other threads do not remove it
static CK_ULONG g_q;             // handle argument of the call
static unsigned envn;

struct View { bool present; CK_ULONG kind, slot, hsess; void* obj; bool priv; };
static View look(HandleManager& hm, CK_ULONG q)
{
	View v; v.present = false; v.kind = 0; v.slot = 0; v.hsess = 0; v.obj = 0; v.priv = false;
	for (size_t j = 0; j < CAP; j++) if (hm.handles.s_[j] && hm.handles.s_[j]->v.first == q)
	{ const Handle& h = hm.handles.s_[j]->v.second; v.present = true; v.kind = h.kind; v.slot = h.slotID; v.hsess = h.hSession; v.obj = h.object; v.priv = h.isPrivate; }
	return v;
}
static CK_ULONG omap(HandleManager& hm, void* o) { for (size_t j = 0; j < CAP; j++) if (hm.objects.s_[j] && hm.objects.s_[j]->v.first == o) return hm.objects.s_[j]->v.second; return 0; }
static CK_ULONG small() { return nondet_uchar() & 3; }
// ghost snapshot "state at lock time" (taken after the interference that precedes the acquisition)
static struct { bool valid; CK_ULONG cnt; View q; CK_ULONG known; View knownView; bool otherSession; } L;
static void snapshot()
{
	HandleManager& hm = *g_hm;
	L.valid = true; L.cnt = hm.handleCounter; L.q = look(hm, g_q); L.known = omap(hm, g_own); L.knownView = look(hm, L.known);
	L.otherSession = false;
	for (size_t j = 0; j < CAP; j++) if (hm.handles.s_[j] && hm.handles.s_[j]->v.first != g_q && hm.handles.s_[j]->v.second.kind == CKH_SESSION && hm.handles.s_[j]->v.second.slotID == L.q.slot) L.otherSession = true;
}

extern "C" void vstl_access(const void* c)
{
	if (!lm_on || !g_hm) return;
	GUARDED_BY(c, g_hm->handles, g_hm->handlesMutex);
	GUARDED_BY(c, g_hm->objects, g_hm->handlesMutex);
}
// One arbitrary admissible step of the OTHER threads on the state guarded by handlesMutex (a superset of what their
// addSession / add*Object / destroyObject / sessionClosed / allSessionsClosed / tokenLoggedOut calls can do):
//  * handleCounter grows by any k >= 0;  * one entry with a fresh key in (old counter, new counter] may appear (kind session
//  or object, any slot, an address of another thread), with or without its objects-map entry;  * any subset of the existing
//  entries is erased together with their objects-map entries - except entries of what the calling thread owns (g_own).
// The step preserves the representation invariant.
static void env_step()
{
	HandleManager& hm = *g_hm;
	CK_ULONG old = hm.handleCounter, k = nondet_ulong();
	vassume(k < 0x1000000UL);
	CK_ULONG nc = old + k;
	vassume(nc >= old && nc < 0xFFFFFFFFFFFFFFF0UL);   // (2^64 wrap-around of the counter is outside the claim, as in C11)
	hm.handleCounter = nc;
	for (size_t j = 0; j < CAP; j++)
		if (hm.handles.s_[j] && nondet_bool() && hm.handles.s_[j]->v.second.object != g_own)
		{
			CK_ULONG key = hm.handles.s_[j]->v.first;
			hm.handles.s_[j] = 0;
			for (size_t m = 0; m < CAP; m++) if (hm.objects.s_[m] && hm.objects.s_[m]->v.second == key) hm.objects.s_[m] = 0;
		}
	if (k > 0 && envn < ENVN && nondet_bool())
	{
		size_t fj = CAP; for (size_t j = 0; j < CAP; j++) if (!hm.handles.s_[j] && fj == CAP) fj = j;
		if (fj != CAP)
		{
			CK_ULONG key = nondet_ulong(); vassume(key > old && key <= nc);
			*(CK_ULONG*)&henv[envn].v.first = key;
			Handle& h = henv[envn].v.second; bool isObj = nondet_bool();
			h.kind = isObj ? CKH_OBJECT : CKH_SESSION; h.slotID = small(); h.hSession = isObj ? nondet_ulong() : 0; h.isPrivate = nondet_bool(); h.object = &envobj[envn];
			hm.handles.s_[fj] = &henv[envn];
			if (isObj && nondet_bool())
			{
				size_t fm = CAP; for (size_t m = 0; m < CAP; m++) if (!hm.objects.s_[m] && fm == CAP) fm = m;
				if (fm != CAP) { *(CK_VOID_PTR*)&oenv[envn].v.first = &envobj[envn]; oenv[envn].v.second = key; hm.objects.s_[fm] = &oenv[envn]; }
			}
		}
	}
	envn++;
}
static void lm_on_acquire(int idx) { if (g_hm && &lm_pool[idx] == g_hm->handlesMutex) { env_step(); snapshot(); } }
static void lm_on_release(int idx) { if (g_hm && &lm_pool[idx] == g_hm->handlesMutex) env_step(); }

// representation invariant of C11 (harness/C11/hm_ind.cpp), proved inductive there
static bool inv(HandleManager& hm)
{
	for (size_t j = 0; j < CAP; j++)
	{
		if (hm.handles.s_[j])
		{
			const Handle& h = hm.handles.s_[j]->v.second;
			CK_ULONG key = hm.handles.s_[j]->v.first;
			if (key == 0 || key > hm.handleCounter) return false;
			if (h.kind != CKH_SESSION && h.kind != CKH_OBJECT) return false;
			if (h.kind == CKH_SESSION && h.hSession != 0) return false;
			for (size_t k2 = 0; k2 < j; k2++) if (hm.handles.s_[k2] && hm.handles.s_[k2]->v.first == key) return false;
		}
		if (hm.objects.s_[j])
		{
			CK_ULONG hv = hm.objects.s_[j]->v.second; void* op = hm.objects.s_[j]->v.first;
			for (size_t k2 = 0; k2 < j; k2++) if (hm.objects.s_[k2] && hm.objects.s_[k2]->v.first == op) return false;
			bool found = false;
			for (size_t m = 0; m < CAP; m++)
				if (hm.handles.s_[m] && hm.handles.s_[m]->v.first == hv && hm.handles.s_[m]->v.second.kind == CKH_OBJECT && hm.handles.s_[m]->v.second.object == op) found = true;
			if (!found) return false;
		}
	}
	return true;
}

extern "C" void harness(void)
{
#if OP == 10
	// life cycle: the constructor obtains the mutex and takes no lock; the destructor hands the mutex back, holding nothing.
	// (construction / destruction are exclusive by contract - C_Initialize / C_Finalize)
	lm_on = true;
	HandleManager* p = new (&vraw_lifecycle) HandleManager();
	lm_on = false;
	vassert(p->handlesMutex != NULL && lm_idx(p->handlesMutex) >= 0 && vmutex_depth(p->handlesMutex) == 0 && p->handleCounter == 0);
	vassert(lm_all_released());
	lm_on = true;
	p->~HandleManager();
	lm_on = false;
	vassert(lm_recycled == 1 && lm_all_released());
	vreach(); return;
#else
	static HandleManager hm;
	g_hm = &hm;
	lm_set_rank(hm.handlesMutex, LM_RANK_HANDLES);
	const int MI = lm_idx(hm.handlesMutex);
	for (size_t j = 0; j < CAP; j++)
	{
		if (nondet_bool())
		{
			hm.handles.s_[j] = &hpool[j];
			*(CK_ULONG*)&hpool[j].v.first = nondet_ulong();
			Handle& h = hpool[j].v.second;
			h.kind = nondet_ulong(); h.slotID = small(); h.hSession = nondet_ulong(); h.isPrivate = nondet_bool();
			h.object = &objpool[nondet_uchar() & 7];
		}
		else hm.handles.s_[j] = 0;
		if (nondet_bool())
		{
			hm.objects.s_[j] = &opool[j];
			*(CK_VOID_PTR*)&opool[j].v.first = &objpool[nondet_uchar() & 7];
			opool[j].v.second = nondet_ulong();
		}
		else hm.objects.s_[j] = 0;
	}
	hm.handleCounter = nondet_ulong();
	vassume(inv(hm));
	vassume(hm.handleCounter < 0xFFFFFFFFFFFFFFF0UL);
	const CK_ULONG cnt0 = hm.handleCounter;   // every handle that exists at entry is <= cnt0
	size_t entryDepth = 0;
	vassert(lm_all_released());
#if OP == 0   // addSession: the returned handle denotes exactly the entry this call inserted
	CK_ULONG sl = small(); g_own = &mysess;
	lm_on = true;
	CK_ULONG h = hm.addSession(sl, &mysess);
	lm_on = false;
	View v = look(hm, h);
	vassert(L.valid && h > cnt0 && h == L.cnt + 1);                               // fresh: above every handle that existed at entry / at lock time
	vassert(v.present && v.kind == CKH_SESSION && v.slot == sl && v.obj == (void*)&mysess);   // ... and it is OUR entry, whatever the other threads did meanwhile
	if (hm.handleCounter > h) vreach();                                           // interference after the release happened
#elif OP == 1   // getSession: the result is what the handle denoted while the lock was held
	g_q = nondet_ulong();
	lm_on = true;
	void* s = hm.getSession(g_q);
	lm_on = false;
	vassert(L.valid && s == ((L.q.present && L.q.kind == CKH_SESSION) ? L.q.obj : (void*)0));
	if (s) vreach();
	if (s && !look(hm, g_q).present) vreach();                                    // (another thread closed it right after: allowed, sequentially explained)
#elif OP == 2 || OP == 3   // addSessionObject / addTokenObject: the returned handle maps to the passed object
	void* op = &objpool[nondet_uchar() & 7]; g_own = op; CK_ULONG sl = small(); bool priv = nondet_bool(); CK_ULONG hs = nondet_ulong();
	lm_on = true;
#if OP == 2
	CK_ULONG h = hm.addSessionObject(sl, hs, priv, op);
#else
	CK_ULONG h = hm.addTokenObject(sl, priv, op); hs = 0;
#endif
	lm_on = false;
	View v = look(hm, h);
	vassert(L.valid);
	if (L.known == 0)
	{
		vassert(h > cnt0 && h == L.cnt + 1);
		vassert(v.present && v.kind == CKH_OBJECT && v.obj == op && v.slot == sl && v.hsess == hs && v.priv == priv && omap(hm, op) == h);
		vreach();
	}
	else if (h != 0)
	{
		vassert(h == L.known && L.knownView.kind == CKH_OBJECT && L.knownView.obj == op && L.knownView.slot == sl);
		vassert(v.present && v.kind == CKH_OBJECT && v.obj == op && omap(hm, op) == h);
		vreach();
	}
	else { vassert(L.knownView.slot != sl); vassert(omap(hm, op) == 0); vreach(); }   // stale mapping of another slot: refused and forgotten
#elif OP == 4   // getObject
	g_q = nondet_ulong();
	lm_on = true;
	void* o = hm.getObject(g_q);
	lm_on = false;
	vassert(L.valid && o == ((L.q.present && L.q.kind == CKH_OBJECT) ? L.q.obj : (void*)0));
	if (o) vreach();
#elif OP == 5   // getObjectHandle
	void* op = &objpool[nondet_uchar() & 7]; g_own = op;
	lm_on = true;
	CK_ULONG oh = hm.getObjectHandle(op);
	lm_on = false;
	vassert(L.valid && oh == L.known);
	if (oh) { vassert(omap(hm, op) == oh); vreach(); }
#elif OP == 6   // destroyObject
	g_q = nondet_ulong();
	lm_on = true;
	hm.destroyObject(g_q);
	lm_on = false;
	vassert(L.valid);
	if (g_q <= L.cnt) { View v = look(hm, g_q); vassert(!v.present || v.kind != CKH_OBJECT); }   // (handles above the lock-time counter may be issued to others later)
	if (L.q.present && L.q.kind == CKH_OBJECT) vreach();
#elif OP == 7   // sessionClosed (on the last session of a slot it calls allSessionsClosed(slot, true): must not lock again)
	g_q = nondet_ulong();
	lm_on = true;
	hm.sessionClosed(g_q);
	lm_on = false;
	vassert(L.valid);
	if (L.q.present && L.q.kind == CKH_SESSION)
		for (size_t j = 0; j < CAP; j++) if (hm.handles.s_[j] && hm.handles.s_[j]->v.first <= L.cnt)
		{
			const Handle& e = hm.handles.s_[j]->v.second;
			vassert(hm.handles.s_[j]->v.first != g_q);                                // the session handle is gone
			vassert(!(e.kind == CKH_OBJECT && e.hSession == g_q));                    // ... with its session objects
			if (!L.otherSession) vassert(e.slotID != L.q.slot);                       // ... and, decided in the SAME critical section, everything of the slot on last close
		}
	if (L.q.present && L.q.kind == CKH_SESSION && !L.otherSession) vreach();
	if (L.q.present && L.q.kind == CKH_SESSION && L.otherSession) vreach();
#elif OP == 8   // allSessionsClosed; isLocked == true is the contract "the caller holds handlesMutex" (the harness is that caller)
	bool isLocked = nondet_bool(); CK_ULONG sl = small();
	if (isLocked) { hm.handlesMutex->lock(); entryDepth = 1; snapshot(); }
	lm_on = true;
	hm.allSessionsClosed(sl, isLocked);
	lm_on = false;
	vassert(L.valid);
	vassert(lm_acquisitions[MI] == (isLocked ? 0UL : 1UL));
	for (size_t j = 0; j < CAP; j++) vassert(!hm.handles.s_[j] || hm.handles.s_[j]->v.first > L.cnt || hm.handles.s_[j]->v.second.slotID != sl);
	if (isLocked) vreach();
	if (!isLocked) vreach();
#elif OP == 9   // tokenLoggedOut
	CK_ULONG sl = small();
	lm_on = true;
	hm.tokenLoggedOut(sl);
	lm_on = false;
	vassert(L.valid);
	for (size_t j = 0; j < CAP; j++) if (hm.handles.s_[j] && hm.handles.s_[j]->v.first <= L.cnt)
	{ const Handle& e = hm.handles.s_[j]->v.second; vassert(!(e.kind == CKH_OBJECT && e.slotID == sl && e.isPrivate)); }
#endif
	vassert(vmutex_depth(hm.handlesMutex) == entryDepth);                         // (b) released on every path, exactly as often as taken
	for (int i = 0; i < LM_N; i++) if (i != MI) vassert(lm_pool[i].handle == 0);
	vassert(lm_acquisitions[MI] <= 1);                                            // one critical section per method: check-then-act stays atomic
	vassert(hm.handleCounter >= cnt0);
	vassert(inv(hm));                                                             // (also: the interference steps are admissible)
	vreach();
#endif
}
#endif

#if CLS == 2
// =============================================================================================== SessionManager
// Real SessionManager + Session + Slot + Token::logout/isSOLoggedIn/... + SecureDataManager::logout: the nested acquisitions
// sessionsMutex -> tokenMutex -> dataMgrMutex are executed, not modelled.  Session::resetOp (operation clean-up in ~Session,
// session-private state) is cut.
#define private public
#define protected public
#include "SessionManager.h"
#include "Session.h"
#include "Slot.h"
#include "Token.h"
#include "SecureDataManager.h"
#undef private
#undef protected
#include <stdarg.h>
void softHSMLog(const int, const char*, const char*, const int, const char*, ...) {}
extern "C" void stub_resetOp(Session*) {}

enum { ENVN = 1 };
VRAW(Slot, slot, [2]) VRAW(Token, tok, [2]) VRAW(SecureDataManager, sdm, [2]) VRAW(Session, sess, [NSESS]) VRAW(Session, envsess, [ENVN]) VRAW(SessionManager, lifecycle, )
static Session proto_session;                 // built by the real default constructor (vtable pointer of a real Session)
static SessionManager sm;
static const CK_SLOT_ID SLOT_ID[2] = { 11, 22 };
static char storeTokenDummy, mymark;
static Session* g_own;                        // the session the calling thread works with: no other thread closes it (C18: "threads use different sessions")
static bool g_closeAll;                       // C_CloseAllSessions of the calling thread: the application closes everybody's sessions of the slot
static unsigned envn;
static int tokOf(Session* s) { return s->slot == &vraw_slot[0] ? 0 : 1; }
static bool isEnv(Session* s) { for (unsigned i = 0; i < ENVN; i++) if (s == &vraw_envsess[i]) return true; return false; }
static void mkSession(Session* s, int t, bool rw, CK_ULONG h, void* app)
{
	*(void**)s = *(void**)&proto_session;
	s->slot = &vraw_slot[t]; s->token = &vraw_tok[t]; s->isReadWrite = rw; s->hSession = h; s->operation = SESSION_OP_NONE;
	s->findOp = 0; s->digestOp = 0; s->macOp = 0; s->asymmetricCryptoOp = 0; s->symmetricCryptoOp = 0; s->param = 0; s->paramLen = 0;
	s->publicKey = 0; s->privateKey = 0; s->symmetricKey = 0; s->reAuthentication = false; s->pApplication = app; s->notify = 0;
	s->hashAlgo = HashAlgo::Unknown; s->mechanism = AsymMech::Unknown; s->allowMultiPartOp = false; s->allowSinglePartOp = false;
}
// ghost snapshot of the session table at lock time
static struct { bool valid; size_t n; Session* s[NSESS]; bool have[2], haveRO[2]; } L;
static void snapshot()
{
	L.valid = true; L.n = sm.sessions.n_; L.have[0] = L.have[1] = L.haveRO[0] = L.haveRO[1] = false;
	for (size_t i = 0; i < NSESS; i++)
	{
		L.s[i] = i < L.n ? sm.sessions.s_[i] : 0;
		if (L.s[i]) { L.have[tokOf(L.s[i])] = true; if (!L.s[i]->isReadWrite) L.haveRO[tokOf(L.s[i])] = true; }
	}
}
extern "C" void vstl_access(const void* c)
{
	if (!lm_on) return;
	GUARDED_BY(c, sm.sessions, sm.sessionsMutex);
}
// one arbitrary admissible step of the other threads on the session table: they close sessions of their own and - after the
// release - open new ones (first NULL spot, else appended: what openSession does); the calling thread's session stays.
// (Sessions opened by others BEFORE the acquisition are part of the arbitrary pre-state: every table access is hooked.)
static void env_step(bool mayOpen)
{
	for (size_t i = 0; i < NSESS; i++)
		if (i < sm.sessions.n_ && sm.sessions.s_[i] && sm.sessions.s_[i] != g_own && sm.sessions.s_[i]->pApplication != (void*)&mymark && nondet_bool())
			sm.sessions.s_[i] = 0;
	if (mayOpen && envn < ENVN && nondet_bool())
	{
		Session* e = &vraw_envsess[envn]; envn++;
		{ int tk_ = nondet_bool() ? 1 : 0; bool rw_ = nondet_bool(); mkSession(e, tk_, rw_, 0, 0); }      // (one nondet input per statement: argument evaluation order differs between clang and g++)
		bool done = false;
		for (size_t i = 0; i < NSESS; i++) if (!done && i < sm.sessions.n_ && !sm.sessions.s_[i]) { sm.sessions.s_[i] = e; e->hSession = i + 1; done = true; }
		for (size_t i = 0; i < NSESS; i++) if (!done && i == sm.sessions.n_) { sm.sessions.s_[i] = e; e->hSession = i + 1; sm.sessions.n_ = i + 1; done = true; }
	}
}
static void lm_on_acquire(int idx) { if (&lm_pool[idx] == sm.sessionsMutex) { env_step(false); snapshot(); } }
static void lm_on_release(int idx) { if (&lm_pool[idx] == sm.sessionsMutex) env_step(true); }
// representation invariant (C03): entry i carries the internal handle i+1 and points to one of the two slots, token = the slot's token
static bool inv()
{
	if (sm.sessions.n_ > NSESS) return false;
	for (size_t i = 0; i < NSESS; i++) if (i < sm.sessions.n_ && sm.sessions.s_[i])
	{
		Session* s = sm.sessions.s_[i];
		if (s->hSession != i + 1) return false;
		if (s->slot != &vraw_slot[0] && s->slot != &vraw_slot[1]) return false;
		if (s->token != &vraw_tok[tokOf(s)]) return false;
		for (size_t k = 0; k < i; k++) if (sm.sessions.s_[k] == s) return false;
	}
	return true;
}

extern "C" void harness(void)
{
#if OP == 10
	size_t before = lm_recycled;
	lm_on = true;
	SessionManager* p = new (&vraw_lifecycle) SessionManager();
	lm_on = false;
	vassert(p->sessionsMutex != NULL && lm_idx(p->sessionsMutex) >= 0 && lm_all_released() && p->sessions.n_ == 0);
	lm_on = true;
	p->~SessionManager();                      // exclusive by contract (C_Finalize): touches the table without the lock
	lm_on = false;
	vassert(lm_recycled == before + 1 && lm_all_released());
	vreach(); return;
#else
	int MT[2], MD[2]; const int MS = lm_idx(sm.sessionsMutex);
	lm_set_rank(sm.sessionsMutex, LM_RANK_SESSIONS);
	for (int t = 0; t < 2; t++)
	{
		SecureDataManager& d = vraw_sdm[t];
		d.soLoggedIn = nondet_bool(); d.userLoggedIn = nondet_bool(); vassume(!(d.soLoggedIn && d.userLoggedIn));
		d.dataMgrMutex = MutexFactory::i()->getMutex(); lm_set_rank(d.dataMgrMutex, LM_RANK_DATAMGR); MD[t] = lm_idx(d.dataMgrMutex);
		vraw_tok[t].valid = true; vraw_tok[t].token = (ObjectStoreToken*)&storeTokenDummy; vraw_tok[t].sdm = &d;
		vraw_tok[t].tokenMutex = MutexFactory::i()->getMutex(); lm_set_rank(vraw_tok[t].tokenMutex, LM_RANK_TOKEN); MT[t] = lm_idx(vraw_tok[t].tokenMutex);
		vraw_slot[t].objectStore = 0; vraw_slot[t].token = &vraw_tok[t]; vraw_slot[t].slotID = SLOT_ID[t];
	}
	vassert(lm_next <= LM_N);                  // every mutex of the scene is a distinct pool entry
	sm.sessions.n_ = nondet_uchar(); vassume(sm.sessions.n_ <= NSESS);
	for (int i = 0; i < NSESS; i++)
	{
		sm.sessions.s_[i] = 0;
		if (i < (int)sm.sessions.n_ && nondet_bool()) { int tk_ = nondet_bool() ? 1 : 0; bool rw_ = nondet_bool(); mkSession(&vraw_sess[i], tk_, rw_, i + 1, 0); sm.sessions.s_[i] = &vraw_sess[i]; }
	}
	vassume(inv());
	vassert(lm_all_released());
#if OP == 0   // openSession: the returned id denotes exactly the session this call created, whatever the other threads open / close meanwhile
	int t = nondet_bool() ? 1 : 0; bool nullSlot = nondet_bool(), nullPh = nondet_bool(); CK_FLAGS flags = nondet_ulong(); CK_SESSION_HANDLE h = 0;
	// (bound: more than NSESS simultaneously open sessions - this call's plus those the other threads open meanwhile - end the path: capacity of the vector model)
	lm_on = true;
	CK_RV rv = sm.openSession(nullSlot ? NULL : &vraw_slot[t], flags, &mymark, NULL, nullPh ? NULL : &h);
	lm_on = false;
	size_t mine = 0; for (size_t i = 0; i < NSESS; i++) if (i < sm.sessions.n_ && sm.sessions.s_[i] && sm.sessions.s_[i]->pApplication == (void*)&mymark) mine++;
	if (rv == CKR_OK)
	{
		vassert(L.valid && !nullSlot && !nullPh && (flags & CKF_SERIAL_SESSION));
		vassert(h >= 1 && h <= sm.sessions.n_ && mine == 1);
		Session* ns = sm.sessions.s_[h - 1];
		vassert(ns != NULL && ns->pApplication == (void*)&mymark && ns->hSession == h && ns->slot == &vraw_slot[t] && ns->isReadWrite == ((flags & CKF_RW_SESSION) != 0));
		vassert(h - 1 >= L.n || L.s[h - 1] == NULL);                              // took a spot that was free at lock time: nobody displaced
		vassert(lm_acquisitions[MS] == 1);
		if (!(flags & CKF_RW_SESSION)) { vassert(lm_pair[MS][MT[t]]); vreach(); }    // the SO-logged-in test ran under sessionsMutex (nested tokenMutex)
		vreach();
		if (h - 1 < L.n) vreach();                                                  // re-used a NULL spot
	}
	else { vassert(mine == 0); vassert(h == 0); if (L.valid) vreach(); }
#elif OP == 1  // closeSession: exactly the caller's session goes; "last session => logout" is decided in the same critical section
	CK_SESSION_HANDLE h = nondet_bool() ? (CK_SESSION_HANDLE)(1 + (nondet_uchar() % NSESS)) : nondet_ulong();
	g_own = (h >= 1 && h <= sm.sessions.n_) ? sm.sessions.s_[h - 1] : (Session*)0;
	lm_on = true;
	CK_RV rv = sm.closeSession(h);
	lm_on = false;
	if (g_own)
	{
		int t = tokOf(g_own);
		bool last = true; for (size_t i = 0; i < NSESS; i++) if (L.s[i] && L.s[i] != g_own && tokOf(L.s[i]) == t) last = false;
		vassert(rv == CKR_OK && L.valid && L.s[h - 1] == g_own);
		vassert(h > sm.sessions.n_ || sm.sessions.s_[h - 1] != g_own);              // gone (the spot may already belong to a new session of another thread)
		vassert(lm_acquisitions[MS] == 1);
		vassert(lm_acquisitions[MT[t]] == (last ? 1UL : 0UL) && lm_acquisitions[MD[t]] == (last ? 1UL : 0UL));   // logout exactly on the last close
		vassert(lm_acquisitions[MT[1 - t]] == 0 && lm_acquisitions[MD[1 - t]] == 0);
		if (last) { vassert(lm_pair[MS][MT[t]] && lm_pair[MT[t]][MD[t]] && lm_pair[MS][MD[t]]); vassert(!vraw_sdm[t].soLoggedIn && !vraw_sdm[t].userLoggedIn); vreach(); }
		else vreach();
	}
	else
	{
		vassert(rv == CKR_SESSION_HANDLE_INVALID);                                  // not a session: refused
		vassert(lm_acquisitions[MS] <= 1);
		if (rv == CKR_SESSION_HANDLE_INVALID) vreach();
	}
#elif OP == 2  // closeAllSessions
	int t = nondet_bool() ? 1 : 0; bool nullSlot = nondet_bool(); g_closeAll = true;
	lm_on = true;
	CK_RV rv = sm.closeAllSessions(nullSlot ? NULL : &vraw_slot[t]);
	lm_on = false;
	if (nullSlot) { vassert(rv == CKR_SLOT_ID_INVALID && lm_acquisitions[MS] == 0); vreach(); }
	else
	{
		vassert(rv == CKR_OK && L.valid && lm_acquisitions[MS] == 1);
		for (size_t i = 0; i < NSESS; i++) if (L.s[i] && tokOf(L.s[i]) == t) vassert(i >= sm.sessions.n_ || sm.sessions.s_[i] != L.s[i]);   // every session of the slot that existed at lock time is gone
		for (size_t i = 0; i < NSESS; i++) if (L.s[i] && tokOf(L.s[i]) != t && !isEnv(L.s[i])) vassert(sm.sessions.s_[i] == L.s[i] || sm.sessions.s_[i] == NULL || isEnv(sm.sessions.s_[i]));
		vassert(lm_acquisitions[MT[t]] == 1 && lm_acquisitions[MD[t]] == 1 && lm_pair[MS][MT[t]] && lm_pair[MT[t]][MD[t]]);   // logout under the same sessionsMutex hold
		vassert(lm_acquisitions[MT[1 - t]] == 0);
		if (L.have[t]) vreach();
	}
#elif OP == 3  // getSessionInfo = getSession (critical section) + Session::getInfo on the caller's own session (two sequential tokenMutex sections)
	CK_SESSION_HANDLE h = nondet_bool() ? (CK_SESSION_HANDLE)(1 + (nondet_uchar() % NSESS)) : nondet_ulong();
	g_own = (h >= 1 && h <= sm.sessions.n_) ? sm.sessions.s_[h - 1] : (Session*)0;
	CK_SESSION_INFO info; bool nullInfo = nondet_bool();
	lm_on = true;
	CK_RV rv = sm.getSessionInfo(h, nullInfo ? NULL : &info);
	lm_on = false;
	vassert(L.valid && lm_acquisitions[MS] == 1);
	if (!g_own) vassert(rv == CKR_SESSION_HANDLE_INVALID);
	else if (nullInfo) vassert(rv == CKR_ARGUMENTS_BAD);
	else
	{
		vassert(rv == CKR_OK && info.slotID == SLOT_ID[tokOf(g_own)] && ((info.flags & CKF_RW_SESSION) != 0) == g_own->isReadWrite);
		vassert(!lm_pair[MS][MT[0]] && !lm_pair[MS][MT[1]]);                       // the table lock is not held while the token is asked
		vreach();
	}
#elif OP == 4  // getSession: what the table held at lock time
	CK_SESSION_HANDLE h = nondet_bool() ? (CK_SESSION_HANDLE)(1 + (nondet_uchar() % NSESS)) : nondet_ulong();
	g_own = (h >= 1 && h <= sm.sessions.n_) ? sm.sessions.s_[h - 1] : (Session*)0;
	lm_on = true;
	Session* s = sm.getSession(h);
	lm_on = false;
	vassert(L.valid && lm_acquisitions[MS] == 1);
	vassert(s == ((h >= 1 && h <= L.n) ? L.s[h - 1] : (Session*)0));
	if (g_own) { vassert(s == g_own); vreach(); }
	if (!s) vreach();
#elif OP == 5 || OP == 6   // haveSession / haveROSession: the answer describes the table at lock time
	CK_SLOT_ID sid = nondet_bool() ? SLOT_ID[nondet_bool() ? 1 : 0] : nondet_ulong();
	lm_on = true;
#if OP == 5
	bool r = sm.haveSession(sid);
	lm_on = false;
	vassert(L.valid && r == ((sid == SLOT_ID[0] && L.have[0]) || (sid == SLOT_ID[1] && L.have[1])));
#else
	bool r = sm.haveROSession(sid);
	lm_on = false;
	vassert(L.valid && r == ((sid == SLOT_ID[0] && L.haveRO[0]) || (sid == SLOT_ID[1] && L.haveRO[1])));
#endif
	vassert(lm_acquisitions[MS] == 1);
	if (r) vreach();
	if (!r) vreach();
#endif
	vassert(lm_all_released());                                                   // (b) every mutex released on every path
	vassert(lm_acquisitions[MS] <= 1);                                            // one critical section over the table per method
	for (int a = 0; a < LM_N; a++) for (int b = 0; b < LM_N; b++) if (lm_pair[a][b]) vassert(lm_rank[a] < lm_rank[b]);   // (d) observed nestings are consistent with the written order
	vassert(inv());
	vreach();
#endif
}
#endif

#if CLS == 3
// =============================================================================================== SessionObjectStore
// Real SessionObjectStore + SessionObject (its objectMutex and attribute map are real: storeMutex -> objectMutex nesting is executed).
#define private public
#define protected public
#include "SessionObjectStore.h"
#include "SessionObject.h"
#include "OSAttribute.h"
#undef private
#undef protected
#include <stdarg.h>
void softHSMLog(const int, const char*, const char*, const int, const char*, ...) {}
typedef std::set<SessionObject*> OSet;
enum { CAP = OSet::CAP, NOBJ = CAP - 1, ENVN = 1 };     // one slot of the sets stays free for the object created by this call / by another thread
static SessionObjectStore store;
VRAW(SessionObject, objraw, [NOBJ]) VRAW(SessionObject, envraw, [ENVN]) VRAW(SessionObjectStore, lifecycle, )   // typed raw storage; the real constructors run on it
static SessionObject* obj[NOBJ]; static SessionObject* envobj[ENVN];
static OSAttribute* attrProto;
static SessionObject* g_own;                  // the object the calling thread works with (the one it passes in): no other thread destroys it
static unsigned envn;
static bool in(const OSet& s, SessionObject* o) { for (size_t j = 0; j < CAP; j++) if (s.u_[j] && s.k_[j] == o) return true; return false; }
static void drop(OSet& s, SessionObject* o) { for (size_t j = 0; j < CAP; j++) if (s.u_[j] && s.k_[j] == o) s.u_[j] = false; }
static void put(OSet& s, SessionObject* o) { bool done = false; for (size_t j = 0; j < CAP; j++) if (!done && !s.u_[j]) { s.k_[j] = o; s.u_[j] = true; done = true; } }
static size_t count(const OSet& s) { size_t n = 0; for (size_t j = 0; j < CAP; j++) if (s.u_[j]) n++; return n; }
static bool isEnv(SessionObject* o) { for (unsigned i = 0; i < ENVN; i++) if (o == envobj[i]) return true; return false; }
static struct { bool valid; bool inObjects[NOBJ]; bool inAll[NOBJ]; size_t n; } L;
static void snapshot() { L.valid = true; L.n = count(store.objects); for (int i = 0; i < NOBJ; i++) { L.inObjects[i] = in(store.objects, obj[i]); L.inAll[i] = in(store.allObjects, obj[i]); } }
extern "C" void vstl_access(const void* c)
{
	if (!lm_on) return;
	GUARDED_BY(c, store.objects, store.storeMutex);
	GUARDED_BY(c, store.allObjects, store.storeMutex);
	for (int i = 0; i < NOBJ; i++) if (obj[i]) GUARDED_BY(c, obj[i]->attributes, obj[i]->objectMutex);
	for (unsigned i = 0; i < ENVN; i++) if (envobj[i]) GUARDED_BY(c, envobj[i]->attributes, envobj[i]->objectMutex);
}
// one admissible step of the other threads: they destroy session objects of their own (C_DestroyObject -> deleteObject) and,
// after the release, create one (C_CreateObject -> createObject); the calling thread's object stays.
static void env_step(bool mayCreate)
{
	for (int i = 0; i < NOBJ; i++) if (obj[i] != g_own && in(store.objects, obj[i]) && nondet_bool()) { drop(store.objects, obj[i]); obj[i]->valid = false; }
	if (mayCreate && envn < ENVN && count(store.objects) < CAP && count(store.allObjects) < CAP && nondet_bool())
	{
		SessionObject* e = envobj[envn]; envn++;
		e->slotID = nondet_uchar() & 1; e->hSession = nondet_uchar() & 3; e->isPrivate = nondet_bool(); e->valid = true;
		put(store.objects, e); put(store.allObjects, e);
	}
}
static void lm_on_acquire(int idx) { if (&lm_pool[idx] == store.storeMutex) { env_step(false); snapshot(); } }
static void lm_on_release(int idx) { if (&lm_pool[idx] == store.storeMutex) env_step(true); }
// representation invariant: objects is a subset of allObjects; members of objects are valid; an object that left `objects` is invalid and has no attributes
static bool inv()
{
	for (size_t j = 0; j < CAP; j++)
	{
		if (store.objects.u_[j])
		{
			SessionObject* o = store.objects.k_[j];
			if (!o || !in(store.allObjects, o) || !o->valid) return false;
			for (size_t k = 0; k < j; k++) if (store.objects.u_[k] && store.objects.k_[k] == o) return false;
		}
		if (store.allObjects.u_[j]) { for (size_t k = 0; k < j; k++) if (store.allObjects.u_[k] && store.allObjects.k_[k] == store.allObjects.k_[j]) return false; }
	}
	return true;
}

extern "C" void harness(void)
{
	const int MS = lm_idx(store.storeMutex);
	lm_set_rank(store.storeMutex, LM_RANK_STORE);
#if OP == 10
	size_t before = lm_recycled;
	lm_on = true;
	SessionObjectStore* p = new (&vraw_lifecycle) SessionObjectStore();
	lm_on = false;
	vassert(p->storeMutex != NULL && lm_idx(p->storeMutex) >= 0 && lm_all_released());
	lm_on = true;
	p->~SessionObjectStore();                    // exclusive by contract (C_Finalize)
	lm_on = false;
	vassert(lm_recycled == before + 1 && lm_all_released());
	vreach(); return;
#else
	static OSAttribute protoAttr((unsigned long)7);
	int MO[NOBJ];
	for (int i = 0; i < NOBJ; i++)
	{
		{ CK_SLOT_ID sl_ = nondet_uchar() & 1; CK_SESSION_HANDLE hs_ = nondet_uchar() & 3; bool pr_ = nondet_bool();
		obj[i] = new (&vraw_objraw[i]) SessionObject(&store, sl_, hs_, pr_); }   // real constructor: own objectMutex, empty attribute map
		lm_set_rank(obj[i]->objectMutex, LM_RANK_OBJECT); MO[i] = lm_idx(obj[i]->objectMutex);
		if (nondet_bool()) { store.allObjects.k_[i] = obj[i]; store.allObjects.u_[i] = true; }
		if (nondet_bool()) { store.objects.k_[i] = obj[i]; store.objects.u_[i] = true; }
		else obj[i]->valid = false;
		if (obj[i]->valid && nondet_bool()) obj[i]->attributes[CKA_LABEL] = new OSAttribute(protoAttr);   // one attribute, so that discardAttributes has work
	}
	for (unsigned i = 0; i < ENVN; i++) { envobj[i] = new (&vraw_envraw[i]) SessionObject(&store, 0, 0, false); lm_set_rank(envobj[i]->objectMutex, LM_RANK_OBJECT); }
	vassume(inv());
	vassert(lm_all_released());
	bool pre[NOBJ]; for (int i = 0; i < NOBJ; i++) pre[i] = in(store.objects, obj[i]);
#if OP == 0   // createObject: the new object is in both sets when the call returns and afterwards (the constructor runs before the lock: private data)
	CK_SLOT_ID sl = nondet_uchar() & 1; CK_SESSION_HANDLE hs = nondet_uchar() & 3; bool priv = nondet_bool();
	lm_on = true;
	SessionObject* o = store.createObject(sl, hs, priv);
	lm_on = false;
	vassert(o != NULL && L.valid && lm_acquisitions[MS] == 1);
	lm_set_rank(o->objectMutex, LM_RANK_OBJECT);
	vassert(in(store.objects, o) && in(store.allObjects, o) && o->valid && o->slotID == sl && o->hSession == hs && o->isPrivate == priv && o->parent == &store);
	for (int i = 0; i < NOBJ; i++) vassert(o != obj[i]);
	vreach();
#elif OP == 1  // deleteObject: decided and done in one critical section; the object's attributes are discarded under its own mutex (nested)
	int k = nondet_uchar() % NOBJ; g_own = obj[k];
	lm_on = true;
	bool ok = store.deleteObject(g_own);
	lm_on = false;
	vassert(L.valid && lm_acquisitions[MS] == 1 && ok == L.inObjects[k]);
	vassert(!in(store.objects, g_own));
	if (ok) { vassert(!g_own->valid && lm_pair[MS][MO[k]] && lm_acquisitions[MO[k]] == 1); vassert(in(store.allObjects, g_own)); vreach(); }
	else { vassert(lm_acquisitions[MO[k]] == 0); vreach(); }
#elif OP == 2 || OP == 3 || OP == 4   // sessionClosed / allSessionsClosed / tokenLoggedOut: purge in one critical section
	CK_ULONG arg = nondet_uchar() & 3;
	lm_on = true;
#if OP == 2
	store.sessionClosed(arg);
#elif OP == 3
	store.allSessionsClosed(arg);
#else
	store.tokenLoggedOut(arg);
#endif
	lm_on = false;
	vassert(L.valid && lm_acquisitions[MS] == 1);
	for (int i = 0; i < NOBJ; i++)
	{
#if OP == 2
		bool hit = obj[i]->hSession == arg;
#elif OP == 3
		bool hit = obj[i]->slotID == arg;
#else
		bool hit = obj[i]->slotID == arg && obj[i]->isPrivate;
#endif
		if (L.inObjects[i] && hit) { vassert(!in(store.objects, obj[i]) && !obj[i]->valid && lm_pair[MS][MO[i]]); vassert(in(store.allObjects, obj[i]) == L.inAll[i]); vreach(); }
		if (L.inObjects[i] && !hit) { vassert(lm_acquisitions[MO[i]] == 0); if (in(store.objects, obj[i])) vreach(); }   // (it may still have been destroyed by its owner after the release)
	}
#elif OP == 5 || OP == 6   // getObjects(set) / getObjects(slot, set): the answer is the content at lock time
	static std::set<OSObject*> out; CK_SLOT_ID sl = nondet_uchar() & 1;
	lm_on = true;
#if OP == 5
	store.getObjects(out);
#else
	store.getObjects(sl, out);
#endif
	lm_on = false;
	vassert(L.valid && lm_acquisitions[MS] == 1);
	for (int i = 0; i < NOBJ; i++)
	{
		bool want = L.inObjects[i] && (OP == 5 || obj[i]->slotID == sl), got = false;
		for (size_t j = 0; j < std::set<OSObject*>::CAP; j++) if (out.u_[j] && out.k_[j] == (OSObject*)obj[i]) got = true;
		vassert(want == got);
		if (got) vreach();
	}
#elif OP == 7  // clearStore: both sets emptied and the objects destroyed inside one critical section
	lm_on = true;
	store.clearStore();
	lm_on = false;
	vassert(L.valid && lm_acquisitions[MS] == 1);
	for (int i = 0; i < NOBJ; i++) { vassert(!in(store.objects, obj[i]) && !in(store.allObjects, obj[i])); if (L.inAll[i]) { vassert(lm_pair[MS][MO[i]]); vreach(); } }
#elif OP == 8  // getObjectCount - KNOWN: reads objects.size() WITHOUT storeMutex (the only caller in the tree is the unit test)
	lm_on = true;
	int n = store.getObjectCount();
	lm_on = false;
	vassert(n >= 0);
#endif
	vassert(lm_all_released());
	vassert(lm_acquisitions[MS] <= 1);
	for (int a = 0; a < LM_N; a++) for (int b = 0; b < LM_N; b++) if (lm_pair[a][b]) vassert(lm_rank[a] < lm_rank[b]);
#if OP != 7
	vassert(inv());
#endif
	vreach();
#endif
}
#endif

#if CLS == 4
// =============================================================================================== Token (+ its SecureDataManager)
// Real Token + SecureDataManager: everything a token shares between the sessions of all threads - the login flags, the masked
// key, the PIN blobs and the ONE AES instance of the token - is used under Token::tokenMutex; SecureDataManager::dataMgrMutex
// nests inside it.  The PBE/AES internals of SecureDataManager::login / reAuthenticate are cut to a lock-faithful contract
// (login logs out first - the real logout, real dataMgrMutex - and takes dataMgrMutex again to install the key when accepted).
#define private public
#define protected public
#include "Token.h"
#include "SecureDataManager.h"
#include "SymmetricAlgorithm.h"
#include "AESKey.h"
#include "RNG.h"
#undef private
#undef protected
#include "store_token_model.h"
#include <stdarg.h>
void softHSMLog(const int, const char*, const char*, const int, const char*, ...) {}
VRAW(Token, tok, ) VRAW(SecureDataManager, sdm, )
static ModelStoreToken store;
static unsigned long pinChecks, aesCalls; static bool accept;
static bool tokenHeld() { return vmutex_depth(vraw_tok.tokenMutex) > 0; }
// the single AES instance / RNG of the token: every use must happen under tokenMutex (L9001)
class LockSym : public SymmetricAlgorithm {
public:
	void use() { aesCalls++; if (lm_on) vassert_(tokenHeld(), 9001); }
	virtual bool encryptInit(const SymmetricKey*, const SymMode::Type, const ByteString&, bool, size_t, const ByteString&, size_t) { use(); return nondet_bool(); }
	virtual bool decryptInit(const SymmetricKey*, const SymMode::Type, const ByteString&, bool, size_t, const ByteString&, size_t) { use(); return nondet_bool(); }
	virtual bool encryptUpdate(const ByteString&, ByteString& out) { use(); out.resize(nondet_uchar() & 1); return nondet_bool(); }
	virtual bool encryptFinal(ByteString& out) { use(); out.resize(nondet_uchar() & 1); return nondet_bool(); }
	virtual bool decryptUpdate(const ByteString&, ByteString& out) { use(); out.resize(nondet_uchar() & 1); return nondet_bool(); }
	virtual bool decryptFinal(ByteString& out) { use(); out.resize(nondet_uchar() & 1); return nondet_bool(); }
	virtual bool wrapKey(const SymmetricKey*, const SymWrap::Type, const ByteString&, ByteString&) { use(); return false; }
	virtual bool unwrapKey(const SymmetricKey*, const SymWrap::Type, const ByteString&, ByteString&) { use(); return false; }
	virtual size_t getBlockSize() const { return 2; }
	virtual bool checkMaximumBytes(unsigned long) { return true; }
};
class LockRNG : public RNG {
public:
	virtual bool generateRandom(ByteString& data, const size_t len) { if (lm_on) vassert_(tokenHeld(), 9001); data.resize(len); return nondet_bool(); }
	virtual void seed(ByteString&) {}
};
static LockSym lock_sym; static LockRNG lock_rng;
extern "C" {
bool stub_sdm_login(SecureDataManager* d, const ByteString& pin, const ByteString& blob) { pinChecks++; d->logout(); if (!accept) return false; MutexLocker lock(d->dataMgrMutex); d->maskedKey.resize(KEYLEN); return true; }
bool stub_sdm_reauth(SecureDataManager* d, const ByteString& pin, const ByteString& blob) { pinChecks++; return accept; }
}
extern "C" void vstl_access(const void* c)
{
	if (!lm_on) return;
	SecureDataManager& d = vraw_sdm;
	GUARDED_BY(c, d.maskedKey.byteString, vraw_tok.tokenMutex);
	GUARDED_BY(c, d.soEncryptedKey.byteString, vraw_tok.tokenMutex);
	GUARDED_BY(c, d.userEncryptedKey.byteString, vraw_tok.tokenMutex);
	GUARDED_BY(c, d.magic.byteString, vraw_tok.tokenMutex);
	if (d.mask) GUARDED_BY(c, d.mask->byteString, d.dataMgrMutex);                 // the mask is only touched inside dataMgrMutex sections
}
// lock-time / release-time snapshots and the interference of other threads' sessions on the same token: they log in / out
static struct { bool valid; bool so, us; } L, R;
static void env_step()
{
	SecureDataManager& d = vraw_sdm;
	bool so = nondet_bool(), us = nondet_bool(); vassume(!(so && us));
	d.soLoggedIn = so; d.userLoggedIn = us; d.maskedKey.byteString.n_ = (so || us) ? KEYLEN : 0;
}
static void lm_on_acquire(int idx) { if (&lm_pool[idx] == vraw_tok.tokenMutex) { env_step(); L.valid = true; L.so = vraw_sdm.soLoggedIn; L.us = vraw_sdm.userLoggedIn; } }
static void lm_on_release(int idx) { if (&lm_pool[idx] == vraw_tok.tokenMutex) { R.valid = true; R.so = vraw_sdm.soLoggedIn; R.us = vraw_sdm.userLoggedIn; env_step(); } }

extern "C" void harness(void)
{
	SecureDataManager& d = vraw_sdm; Token& t = vraw_tok;
	d.soLoggedIn = nondet_bool(); d.userLoggedIn = nondet_bool(); vassume(!(d.soLoggedIn && d.userLoggedIn));
	d.dataMgrMutex = MutexFactory::i()->getMutex(); d.mask = new ByteString(); d.mask->resize(KEYLEN); d.aes = &lock_sym; d.rng = &lock_rng;
	d.maskedKey.resize((d.soLoggedIn || d.userLoggedIn) ? KEYLEN : 0);
	size_t a = nondet_uchar(), b = nondet_uchar(); vassume(a <= 2 && b <= 2); d.soEncryptedKey.resize(a); d.userEncryptedKey.resize(b);
	store.havoc(2);
	bool noSdm = nondet_bool();
	t.valid = nondet_bool(); t.token = &store; t.sdm = noSdm ? (SecureDataManager*)0 : &d; t.tokenMutex = MutexFactory::i()->getMutex();
	const int MT = lm_idx(t.tokenMutex), MD = lm_idx(d.dataMgrMutex);
	lm_set_rank(t.tokenMutex, LM_RANK_TOKEN); lm_set_rank(d.dataMgrMutex, LM_RANK_DATAMGR);
	accept = nondet_bool();
	bool userPinSet = d.userEncryptedKey.size() != 0;
	ByteString pin; size_t pl = nondet_uchar(); vassume(pl <= 2); pin.resize(pl);
	vassert(lm_all_released());
	lm_on = true;
#if OP == 0
	bool r = t.isValid();
	lm_on = false;
	vassert(L.valid && r == (t.valid && store.valid));
#elif OP == 1
	bool r = t.isSOLoggedIn();
	lm_on = false;
	vassert(L.valid && r == (!noSdm && L.so)); if (r) vreach();
#elif OP == 2
	bool r = t.isUserLoggedIn();
	lm_on = false;
	vassert(L.valid && r == (!noSdm && L.us)); if (r) vreach();
#elif OP == 3 || OP == 4   // loginSO / loginUser: the "nobody is logged in" test, the PIN check and the flag update are ONE critical section
#if OP == 3
	CK_RV rv = t.loginSO(pin); bool mine = L.so, other = L.us; bool pinOk = true;
#else
	CK_RV rv = t.loginUser(pin); bool mine = L.us, other = L.so; bool pinOk = userPinSet;
#endif
	lm_on = false;
	vassert(L.valid && R.valid);
	if (noSdm) vassert(rv == CKR_GENERAL_ERROR);
	else if (other) { vassert(rv == CKR_USER_ANOTHER_ALREADY_LOGGED_IN && pinChecks == 0 && R.so == L.so && R.us == L.us); vreach(); }
	else if (mine) { vassert(rv == CKR_USER_ALREADY_LOGGED_IN && pinChecks == 0 && R.so == L.so && R.us == L.us); vreach(); }
	else if (!pinOk) vassert(rv == CKR_USER_PIN_NOT_INITIALIZED && pinChecks == 0);
	else if (store.failReads) vassert(rv == CKR_GENERAL_ERROR && pinChecks == 0);
	else
	{
		vassert(pinChecks == 1 && rv == (accept ? CKR_OK : CKR_PIN_INCORRECT));
		vassert((OP == 3 ? R.so : R.us) == accept && !(OP == 3 ? R.us : R.so));    // state when the lock was released
		vassert(lm_pair[MT][MD]);                                                   // dataMgrMutex nested inside tokenMutex
		if (accept) vreach(); else vreach();
	}
#elif OP == 5   // reAuthenticate
	CK_RV rv = t.reAuthenticate(pin);
	lm_on = false;
	vassert(L.valid && R.valid && R.so == L.so && R.us == L.us);
	if (!noSdm && !store.failReads) { vassert(rv == ((L.so || L.us) ? (accept ? CKR_OK : CKR_PIN_INCORRECT) : CKR_OPERATION_NOT_INITIALIZED)); vreach(); }
#elif OP == 6   // logout
	t.logout();
	lm_on = false;
	vassert(L.valid && R.valid);
	if (!noSdm) { vassert(!R.so && !R.us && lm_pair[MT][MD] && lm_acquisitions[MD] == 1); vreach(); }
#elif OP == 7 || OP == 8   // decrypt / encrypt: login test, key unmasking and the use of the token's AES instance inside one tokenMutex section
	ByteString in, out; size_t il = nondet_uchar(); vassume(il <= 3); in.resize(il);
#if OP == 7
	bool ok = t.decrypt(in, out);
#else
	bool ok = t.encrypt(in, out);
#endif
	lm_on = false;
	vassert(L.valid && R.valid && R.so == L.so && R.us == L.us);
	if (noSdm || (!L.so && !L.us)) { vassert(!ok && aesCalls == 0 && lm_acquisitions[MD] == 0); vreach(); }
	if (ok && aesCalls) { vassert(lm_pair[MT][MD] && lm_acquisitions[MD] == 1); vreach(); }
#endif
	vassert(lm_all_released());
	vassert(lm_acquisitions[MT] == 1);                                            // exactly one critical section over the token per method
	vassert(!lm_pair[MD][MT]);
	for (int x = 0; x < LM_N; x++) for (int y = 0; y < LM_N; y++) if (lm_pair[x][y]) vassert(lm_rank[x] < lm_rank[y]);
	vreach();
}
#endif

#if CLS == 5
// =============================================================================================== SecureMemoryRegistry
// (every ByteString allocation of every thread registers / unregisters its block here; C_Finalize wipes what is left)
#define private public
#include "SecureMemoryRegistry.h"
#undef private
#include <stdarg.h>
void softHSMLog(const int, const char*, const char*, const int, const char*, ...) {}
typedef std::map<void*, size_t> RMap;
enum { CAP = RMap::CAP, BLK = 2, ENVN = 2 };
static SecureMemoryRegistry reg;
static RMap::node rpool[CAP], renv[ENVN];
// all registered blocks live in ONE array: the map model orders pointer keys with `<`, which CBMC only decides for pointers into the same object
static unsigned char mem[CAP + ENVN + 1][BLK];
#define blocks (mem)
#define envblk (mem + CAP)
#define myblk (mem[CAP + ENVN])
static unsigned envn;
static size_t lookup(void* p) { for (size_t j = 0; j < CAP; j++) if (reg.registry.s_[j] && reg.registry.s_[j]->v.first == p) return reg.registry.s_[j]->v.second; return (size_t)-1; }
static struct { bool valid; size_t mine; size_t n; } L;
extern "C" void vstl_access(const void* c) { if (!lm_on) return; GUARDED_BY(c, reg.registry, reg.SecMemRegistryMutex); }
// other threads register / unregister blocks of their own; the calling thread's block (myblk) is its own business
static void env_step(bool mayAdd)
{
	for (size_t j = 0; j < CAP; j++) if (reg.registry.s_[j] && reg.registry.s_[j]->v.first != (void*)myblk && nondet_bool()) reg.registry.s_[j] = 0;
	if (mayAdd && envn < ENVN && nondet_bool())
	{
		bool done = false;
		for (size_t j = 0; j < CAP; j++) if (!done && !reg.registry.s_[j]) { *(void**)&renv[envn].v.first = envblk[envn]; renv[envn].v.second = nondet_uchar() % (BLK + 1); reg.registry.s_[j] = &renv[envn]; done = true; }
		envn++;
	}
}
static void lm_on_acquire(int idx) { if (&lm_pool[idx] == reg.SecMemRegistryMutex) { env_step(false); L.valid = true; L.mine = lookup(myblk); L.n = 0; for (size_t j = 0; j < CAP; j++) if (reg.registry.s_[j]) L.n++; } }
static void lm_on_release(int idx) { if (&lm_pool[idx] == reg.SecMemRegistryMutex) env_step(true); }
static bool inv()
{
	for (size_t j = 0; j < CAP; j++) if (reg.registry.s_[j])
	{
		if (reg.registry.s_[j]->v.second > BLK) return false;
		for (size_t k = 0; k < j; k++) if (reg.registry.s_[k] && reg.registry.s_[k]->v.first == reg.registry.s_[j]->v.first) return false;
	}
	return true;
}
extern "C" void harness(void)
{
	const int MR = lm_idx(reg.SecMemRegistryMutex);
	lm_set_rank(reg.SecMemRegistryMutex, LM_RANK_HANDLES + 10);   // leaf: taken by allocations under any other lock, never holds another
	bool mineIn = false;
	for (size_t j = 0; j < CAP; j++)
	{
		reg.registry.s_[j] = 0;
		if (nondet_bool())
		{
			bool m = !mineIn && j + 1 < CAP && nondet_bool();   // (one slot stays available for add)
			*(void**)&rpool[j].v.first = m ? (void*)myblk : (void*)blocks[j]; rpool[j].v.second = nondet_uchar() % (BLK + 1); reg.registry.s_[j] = &rpool[j];
			if (m) mineIn = true;
		}
	}
	vassume(inv());
	for (int i = 0; i < BLK; i++) myblk[i] = 0x5A;
	vassert(lm_all_released());
	lm_on = true;
#if OP == 0   // add
	size_t sz = nondet_uchar() % (BLK + 1);
	reg.add(myblk, sz);
	lm_on = false;
	vassert(L.valid && lookup(myblk) == sz);
	vreach();
#elif OP == 1   // remove: returns the size registered at lock time, entry gone
	size_t r = reg.remove(myblk);
	lm_on = false;
	vassert(L.valid && lookup(myblk) == (size_t)-1);
	if (L.mine != (size_t)-1) { vassert(r == L.mine); vreach(); } else vassert(r == 0);
#elif OP == 2   // wipe: every block registered at lock time is zeroed while the lock is held
	reg.wipe();
	lm_on = false;
	vassert(L.valid);
	if (L.mine != (size_t)-1) { for (size_t i = 0; i < BLK; i++) vassert(i >= L.mine || myblk[i] == 0); if (L.mine == BLK) vreach(); }
#endif
	vassert(lm_all_released());
	vassert(lm_acquisitions[MR] == 1);
	vassert(inv());
	vreach();
}
#endif
