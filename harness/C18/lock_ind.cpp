// C18 - lock discipline of the manager classes, decided per public method (one inductive step).
//
// Real threads are not executed.  What is proved, for EVERY pre-state satisfying the class's representation invariant and
// EVERY argument value within the container capacities, for ONE call of ONE public method (-DCLS=class, -DOP=method):
//   (a) every access to a shared table of the class happens while the mutex guarding that table is held
//       (vstl_access hook of the container models -> L9001); scalar shared fields are checked indirectly: they are
//       havocked at the moment the guarding mutex is acquired (interference by other threads) and the method's result must
//       be explained by the value AT LOCK TIME, so a value read before the lock and used after it is refuted;
//   (b) at return every mutex is released again (ghost counters back at their entry values), no unlock without lock (L9003);
//   (c) no mutex is acquired while the caller already holds it (L9002: non-recursive OS mutexes => self-deadlock);
//   (d) nested acquisitions follow the written global order of lock_model.h (L9004); the nestings that occur are witnessed.
// Together (a)+(b) make each method body ONE critical section over its table: dropping a MutexLocker, moving it below the
// first access, ending its scope before the last access, or splitting a check-then-act into two sections is refuted.
// NOT given: atomicity of a whole C_* call that is composed of several manager calls; real schedules; memory-model effects.
#include "venv.h"
#include "lock_model.h"
#include <new>

// L9001: table `c` is being accessed; `m` is the mutex that must be held
#define GUARDED_BY(c_, table, m) do { if ((c_) == (const void*)&(table)) vassert_(vmutex_depth(m) > 0, 9001); } while (0)

#if CLS == 1
// =============================================================================================== HandleManager
#define private public
#include "HandleManager.h"
#undef private
typedef std::map<CK_ULONG, Handle> HMap;
typedef std::map<CK_VOID_PTR, CK_ULONG> OMap;
enum { CAP = HMap::CAP, ENVN = 4 };
static HMap::node hpool[CAP], henv[ENVN];
static OMap::node opool[CAP], oenv[ENVN];
static char objpool[8];          // object / session addresses known to the table at entry
static char envobj[ENVN];        // addresses owned by OTHER threads (never equal to anything the calling thread passes in)
static char mysess;              // the calling thread's freshly created session (addSession)
static HandleManager* g_hm;
static void* g_own;              // what the calling thread owns in this call (its session / the object it passes in): other threads do not remove it
static CK_ULONG g_q;             // handle argument of the call
static unsigned envn;

struct View { bool present; CK_ULONG kind, slot, hsess; void* obj; bool priv; };
static View look(HandleManager& hm, CK_ULONG q)
{
	View v; v.present = false; v.kind = 0; v.slot = 0; v.hsess = 0; v.obj = 0; v.priv = false;
	for (size_t j = 0; j < CAP; j++) if (hm.handles.s_[j] && hm.handles.s_[j]->v.first == q)
	{ const Handle& h = hm.handles.s_[j]->v.second; v.present = true; v.kind = h.kind; v.slot = h.slotID; v.hsess = h.hSession; v.obj = h.object; v.priv = h.isPrivate; }
	return v;
}
static CK_ULONG omap(HandleManager& hm, void* o) { for (size_t j = 0; j < CAP; j++) if (hm.objects.s_[j] && hm.objects.s_[j]->v.first == o) return hm.objects.s_[j]->v.second; return 0; }
static CK_ULONG small() { return nondet_uchar() & 3; }
// ghost snapshot "state at lock time" (taken after the interference that precedes the acquisition)
static struct { bool valid; CK_ULONG cnt; View q; CK_ULONG known; View knownView; bool otherSession; } L;
static void snapshot()
{
	HandleManager& hm = *g_hm;
	L.valid = true; L.cnt = hm.handleCounter; L.q = look(hm, g_q); L.known = omap(hm, g_own); L.knownView = look(hm, L.known);
	L.otherSession = false;
	for (size_t j = 0; j < CAP; j++) if (hm.handles.s_[j] && hm.handles.s_[j]->v.first != g_q && hm.handles.s_[j]->v.second.kind == CKH_SESSION && hm.handles.s_[j]->v.second.slotID == L.q.slot) L.otherSession = true;
}

extern "C" void vstl_access(const void* c)
{
	if (!lm_on || !g_hm) return;
	GUARDED_BY(c, g_hm->handles, g_hm->handlesMutex);
	GUARDED_BY(c, g_hm->objects, g_hm->handlesMutex);
}
// One arbitrary admissible step of the OTHER threads on the state guarded by handlesMutex (a superset of what their
// addSession / add*Object / destroyObject / sessionClosed / allSessionsClosed / tokenLoggedOut calls can do):
//  * handleCounter grows by any k >= 0;  * one entry with a fresh key in (old counter, new counter] may appear (kind session
//  or object, any slot, an address of another thread), with or without its objects-map entry;  * any subset of the existing
//  entries is erased together with their objects-map entries - except entries of what the calling thread owns (g_own).
// The step preserves the representation invariant.
static void env_step()
{
	HandleManager& hm = *g_hm;
	CK_ULONG old = hm.handleCounter, k = nondet_ulong();
	vassume(k < 0x1000000UL);
	CK_ULONG nc = old + k;
	vassume(nc >= old && nc < 0xFFFFFFFFFFFFFFF0UL);   // (2^64 wrap-around of the counter is outside the claim, as in C11)
	hm.handleCounter = nc;
	for (size_t j = 0; j < CAP; j++)
		if (hm.handles.s_[j] && nondet_bool() && hm.handles.s_[j]->v.second.object != g_own)
		{
			CK_ULONG key = hm.handles.s_[j]->v.first;
			hm.handles.s_[j] = 0;
			for (size_t m = 0; m < CAP; m++) if (hm.objects.s_[m] && hm.objects.s_[m]->v.second == key) hm.objects.s_[m] = 0;
		}
	if (k > 0 && envn < ENVN && nondet_bool())
	{
		size_t fj = CAP; for (size_t j = 0; j < CAP; j++) if (!hm.handles.s_[j] && fj == CAP) fj = j;
		if (fj != CAP)
		{
			CK_ULONG key = nondet_ulong(); vassume(key > old && key <= nc);
			*(CK_ULONG*)&henv[envn].v.first = key;
			Handle& h = henv[envn].v.second; bool isObj = nondet_bool();
			h.kind = isObj ? CKH_OBJECT : CKH_SESSION; h.slotID = small(); h.hSession = isObj ? nondet_ulong() : 0; h.isPrivate = nondet_bool(); h.object = &envobj[envn];
			hm.handles.s_[fj] = &henv[envn];
			if (isObj && nondet_bool())
			{
				size_t fm = CAP; for (size_t m = 0; m < CAP; m++) if (!hm.objects.s_[m] && fm == CAP) fm = m;
				if (fm != CAP) { *(CK_VOID_PTR*)&oenv[envn].v.first = &envobj[envn]; oenv[envn].v.second = key; hm.objects.s_[fm] = &oenv[envn]; }
			}
		}
	}
	envn++;
}
static void lm_on_acquire(int idx) { if (g_hm && &lm_pool[idx] == g_hm->handlesMutex) { env_step(); snapshot(); } }
static void lm_on_release(int idx) { if (g_hm && &lm_pool[idx] == g_hm->handlesMutex) env_step(); }

// representation invariant of C11 (harness/C11/hm_ind.cpp), proved inductive there
static bool inv(HandleManager& hm)
{
	for (size_t j = 0; j < CAP; j++)
	{
		if (hm.handles.s_[j])
		{
			const Handle& h = hm.handles.s_[j]->v.second;
			CK_ULONG key = hm.handles.s_[j]->v.first;
			if (key == 0 || key > hm.handleCounter) return false;
			if (h.kind != CKH_SESSION && h.kind != CKH_OBJECT) return false;
			if (h.kind == CKH_SESSION && h.hSession != 0) return false;
			for (size_t k2 = 0; k2 < j; k2++) if (hm.handles.s_[k2] && hm.handles.s_[k2]->v.first == key) return false;
		}
		if (hm.objects.s_[j])
		{
			CK_ULONG hv = hm.objects.s_[j]->v.second; void* op = hm.objects.s_[j]->v.first;
			for (size_t k2 = 0; k2 < j; k2++) if (hm.objects.s_[k2] && hm.objects.s_[k2]->v.first == op) return false;
			bool found = false;
			for (size_t m = 0; m < CAP; m++)
				if (hm.handles.s_[m] && hm.handles.s_[m]->v.first == hv && hm.handles.s_[m]->v.second.kind == CKH_OBJECT && hm.handles.s_[m]->v.second.object == op) found = true;
			if (!found) return false;
		}
	}
	return true;
}

extern "C" void harness(void)
{
#if OP == 10
	// life cycle: the constructor obtains the mutex and takes no lock; the destructor hands the mutex back, holding nothing.
	// (construction / destruction are exclusive by contract - C_Initialize / C_Finalize)
	static long raw[(sizeof(HandleManager) + 7) / 8];
	lm_on = true;
	HandleManager* p = new (raw) HandleManager();
	lm_on = false;
	vassert(p->handlesMutex != NULL && lm_idx(p->handlesMutex) >= 0 && vmutex_depth(p->handlesMutex) == 0 && p->handleCounter == 0);
	vassert(lm_all_released());
	lm_on = true;
	p->~HandleManager();
	lm_on = false;
	vassert(lm_recycled == 1 && lm_all_released());
	vreach(); return;
#else
	static HandleManager hm;
	g_hm = &hm;
	lm_set_rank(hm.handlesMutex, LM_RANK_HANDLES);
	const int MI = lm_idx(hm.handlesMutex);
	for (size_t j = 0; j < CAP; j++)
	{
		if (nondet_bool())
		{
			hm.handles.s_[j] = &hpool[j];
			*(CK_ULONG*)&hpool[j].v.first = nondet_ulong();
			Handle& h = hpool[j].v.second;
			h.kind = nondet_ulong(); h.slotID = small(); h.hSession = nondet_ulong(); h.isPrivate = nondet_bool();
			h.object = &objpool[nondet_uchar() & 7];
		}
		else hm.handles.s_[j] = 0;
		if (nondet_bool())
		{
			hm.objects.s_[j] = &opool[j];
			*(CK_VOID_PTR*)&opool[j].v.first = &objpool[nondet_uchar() & 7];
			opool[j].v.second = nondet_ulong();
		}
		else hm.objects.s_[j] = 0;
	}
	hm.handleCounter = nondet_ulong();
	vassume(inv(hm));
	vassume(hm.handleCounter < 0xFFFFFFFFFFFFFFF0UL);
	const CK_ULONG cnt0 = hm.handleCounter;   // every handle that exists at entry is <= cnt0
	size_t entryDepth = 0;
	vassert(lm_all_released());
#if OP == 0   // addSession: the returned handle denotes exactly the entry this call inserted
	CK_ULONG sl = small(); g_own = &mysess;
	lm_on = true;
	CK_ULONG h = hm.addSession(sl, &mysess);
	lm_on = false;
	View v = look(hm, h);
	vassert(L.valid && h > cnt0 && h == L.cnt + 1);                               // fresh: above every handle that existed at entry / at lock time
	vassert(v.present && v.kind == CKH_SESSION && v.slot == sl && v.obj == (void*)&mysess);   // ... and it is OUR entry, whatever the other threads did meanwhile
	if (hm.handleCounter > h) vreach();                                           // interference after the release happened
#elif OP == 1   // getSession: the result is what the handle denoted while the lock was held
	g_q = nondet_ulong();
	lm_on = true;
	void* s = hm.getSession(g_q);
	lm_on = false;
	vassert(L.valid && s == ((L.q.present && L.q.kind == CKH_SESSION) ? L.q.obj : (void*)0));
	if (s) vreach();
	if (s && !look(hm, g_q).present) vreach();                                    // (another thread closed it right after: allowed, sequentially explained)
#elif OP == 2 || OP == 3   // addSessionObject / addTokenObject: the returned handle maps to the passed object
	void* op = &objpool[nondet_uchar() & 7]; g_own = op; CK_ULONG sl = small(); bool priv = nondet_bool(); CK_ULONG hs = nondet_ulong();
	lm_on = true;
#if OP == 2
	CK_ULONG h = hm.addSessionObject(sl, hs, priv, op);
#else
	CK_ULONG h = hm.addTokenObject(sl, priv, op); hs = 0;
#endif
	lm_on = false;
	View v = look(hm, h);
	vassert(L.valid);
	if (L.known == 0)
	{
		vassert(h > cnt0 && h == L.cnt + 1);
		vassert(v.present && v.kind == CKH_OBJECT && v.obj == op && v.slot == sl && v.hsess == hs && v.priv == priv && omap(hm, op) == h);
		vreach();
	}
	else if (h != 0)
	{
		vassert(h == L.known && L.knownView.kind == CKH_OBJECT && L.knownView.obj == op && L.knownView.slot == sl);
		vassert(v.present && v.kind == CKH_OBJECT && v.obj == op && omap(hm, op) == h);
		vreach();
	}
	else { vassert(L.knownView.slot != sl); vassert(omap(hm, op) == 0); vreach(); }   // stale mapping of another slot: refused and forgotten
#elif OP == 4   // getObject
	g_q = nondet_ulong();
	lm_on = true;
	void* o = hm.getObject(g_q);
	lm_on = false;
	vassert(L.valid && o == ((L.q.present && L.q.kind == CKH_OBJECT) ? L.q.obj : (void*)0));
	if (o) vreach();
#elif OP == 5   // getObjectHandle
	void* op = &objpool[nondet_uchar() & 7]; g_own = op;
	lm_on = true;
	CK_ULONG oh = hm.getObjectHandle(op);
	lm_on = false;
	vassert(L.valid && oh == L.known);
	if (oh) { vassert(omap(hm, op) == oh); vreach(); }
#elif OP == 6   // destroyObject
	g_q = nondet_ulong();
	lm_on = true;
	hm.destroyObject(g_q);
	lm_on = false;
	vassert(L.valid);
	if (g_q <= L.cnt) { View v = look(hm, g_q); vassert(!v.present || v.kind != CKH_OBJECT); }   // (handles above the lock-time counter may be issued to others later)
	if (L.q.present && L.q.kind == CKH_OBJECT) vreach();
#elif OP == 7   // sessionClosed (on the last session of a slot it calls allSessionsClosed(slot, true): must not lock again)
	g_q = nondet_ulong();
	lm_on = true;
	hm.sessionClosed(g_q);
	lm_on = false;
	vassert(L.valid);
	if (L.q.present && L.q.kind == CKH_SESSION)
		for (size_t j = 0; j < CAP; j++) if (hm.handles.s_[j] && hm.handles.s_[j]->v.first <= L.cnt)
		{
			const Handle& e = hm.handles.s_[j]->v.second;
			vassert(hm.handles.s_[j]->v.first != g_q);                                // the session handle is gone
			vassert(!(e.kind == CKH_OBJECT && e.hSession == g_q));                    // ... with its session objects
			if (!L.otherSession) vassert(e.slotID != L.q.slot);                       // ... and, decided in the SAME critical section, everything of the slot on last close
		}
	if (L.q.present && L.q.kind == CKH_SESSION && !L.otherSession) vreach();
	if (L.q.present && L.q.kind == CKH_SESSION && L.otherSession) vreach();
#elif OP == 8   // allSessionsClosed; isLocked == true is the contract "the caller holds handlesMutex" (the harness is that caller)
	bool isLocked = nondet_bool(); CK_ULONG sl = small();
	if (isLocked) { hm.handlesMutex->lock(); entryDepth = 1; snapshot(); }
	lm_on = true;
	hm.allSessionsClosed(sl, isLocked);
	lm_on = false;
	vassert(L.valid);
	vassert(lm_acquisitions[MI] == (isLocked ? 0UL : 1UL));
	for (size_t j = 0; j < CAP; j++) vassert(!hm.handles.s_[j] || hm.handles.s_[j]->v.first > L.cnt || hm.handles.s_[j]->v.second.slotID != sl);
	if (isLocked) vreach();
	if (!isLocked) vreach();
#elif OP == 9   // tokenLoggedOut
	CK_ULONG sl = small();
	lm_on = true;
	hm.tokenLoggedOut(sl);
	lm_on = false;
	vassert(L.valid);
	for (size_t j = 0; j < CAP; j++) if (hm.handles.s_[j] && hm.handles.s_[j]->v.first <= L.cnt)
	{ const Handle& e = hm.handles.s_[j]->v.second; vassert(!(e.kind == CKH_OBJECT && e.slotID == sl && e.isPrivate)); }
#endif
	vassert(vmutex_depth(hm.handlesMutex) == entryDepth);                         // (b) released on every path, exactly as often as taken
	for (int i = 0; i < LM_N; i++) if (i != MI) vassert(lm_pool[i].handle == 0);
	vassert(lm_acquisitions[MI] <= 1);                                            // one critical section per method: check-then-act stays atomic
	vassert(hm.handleCounter >= cnt0);
	vassert(inv(hm));                                                             // (also: the interference steps are admissible)
	vreach();
#endif
}
#endif

#if CLS == 2
// =============================================================================================== SessionManager
// Real SessionManager + Session + Slot + Token::logout/isSOLoggedIn/... + SecureDataManager::logout: the nested acquisitions
// sessionsMutex -> tokenMutex -> dataMgrMutex are executed, not modelled.  Session::resetOp (operation clean-up in ~Session,
// session-private state) is cut.
#define private public
#define protected public
#include "SessionManager.h"
#include "Session.h"
#include "Slot.h"
#include "Token.h"
#include "SecureDataManager.h"
#undef private
#undef protected
#include <stdarg.h>
void softHSMLog(const int, const char*, const char*, const int, const char*, ...) {}
extern "C" void stub_resetOp(Session*) {}

enum { ENVN = 1 };
VRAW(Slot, slot, [2]) VRAW(Token, tok, [2]) VRAW(SecureDataManager, sdm, [2]) VRAW(Session, sess, [NSESS]) VRAW(Session, envsess, [ENVN])
static Session proto_session;                 // built by the real default constructor (vtable pointer of a real Session)
static SessionManager sm;
static const CK_SLOT_ID SLOT_ID[2] = { 11, 22 };
static char storeTokenDummy, mymark;
static Session* g_own;                        // the session the calling thread works with: no other thread closes it (C18: "threads use different sessions")
static bool g_closeAll;                       // C_CloseAllSessions of the calling thread: the application closes everybody's sessions of the slot
static unsigned envn;
static int tokOf(Session* s) { return s->slot == &vraw_slot[0] ? 0 : 1; }
static bool isEnv(Session* s) { for (unsigned i = 0; i < ENVN; i++) if (s == &vraw_envsess[i]) return true; return false; }
static void mkSession(Session* s, int t, bool rw, CK_ULONG h, void* app)
{
	*(void**)s = *(void**)&proto_session;
	s->slot = &vraw_slot[t]; s->token = &vraw_tok[t]; s->isReadWrite = rw; s->hSession = h; s->operation = SESSION_OP_NONE;
	s->findOp = 0; s->digestOp = 0; s->macOp = 0; s->asymmetricCryptoOp = 0; s->symmetricCryptoOp = 0; s->param = 0; s->paramLen = 0;
	s->publicKey = 0; s->privateKey = 0; s->symmetricKey = 0; s->reAuthentication = false; s->pApplication = app; s->notify = 0;
	s->hashAlgo = HashAlgo::Unknown; s->mechanism = AsymMech::Unknown; s->allowMultiPartOp = false; s->allowSinglePartOp = false;
}
// ghost snapshot of the session table at lock time
static struct { bool valid; size_t n; Session* s[NSESS]; bool have[2], haveRO[2]; } L;
static void snapshot()
{
	L.valid = true; L.n = sm.sessions.n_; L.have[0] = L.have[1] = L.haveRO[0] = L.haveRO[1] = false;
	for (size_t i = 0; i < NSESS; i++)
	{
		L.s[i] = i < L.n ? sm.sessions.s_[i] : 0;
		if (L.s[i]) { L.have[tokOf(L.s[i])] = true; if (!L.s[i]->isReadWrite) L.haveRO[tokOf(L.s[i])] = true; }
	}
}
extern "C" void vstl_access(const void* c)
{
	if (!lm_on) return;
	GUARDED_BY(c, sm.sessions, sm.sessionsMutex);
}
// one arbitrary admissible step of the other threads on the session table: they close sessions of their own and - after the
// release - open new ones (first NULL spot, else appended: what openSession does); the calling thread's session stays.
// (Sessions opened by others BEFORE the acquisition are part of the arbitrary pre-state: every table access is hooked.)
static void env_step(bool mayOpen)
{
	for (size_t i = 0; i < NSESS; i++)
		if (i < sm.sessions.n_ && sm.sessions.s_[i] && sm.sessions.s_[i] != g_own && sm.sessions.s_[i]->pApplication != (void*)&mymark && nondet_bool())
			sm.sessions.s_[i] = 0;
	if (mayOpen && envn < ENVN && nondet_bool())
	{
		Session* e = &vraw_envsess[envn]; envn++;
		mkSession(e, nondet_bool() ? 1 : 0, nondet_bool(), 0, 0);
		bool done = false;
		for (size_t i = 0; i < NSESS; i++) if (!done && i < sm.sessions.n_ && !sm.sessions.s_[i]) { sm.sessions.s_[i] = e; e->hSession = i + 1; done = true; }
		for (size_t i = 0; i < NSESS; i++) if (!done && i == sm.sessions.n_) { sm.sessions.s_[i] = e; e->hSession = i + 1; sm.sessions.n_ = i + 1; done = true; }
	}
}
static void lm_on_acquire(int idx) { if (&lm_pool[idx] == sm.sessionsMutex) { env_step(false); snapshot(); } }
static void lm_on_release(int idx) { if (&lm_pool[idx] == sm.sessionsMutex) env_step(true); }
// representation invariant (C03): entry i carries the internal handle i+1 and points to one of the two slots, token = the slot's token
static bool inv()
{
	if (sm.sessions.n_ > NSESS) return false;
	for (size_t i = 0; i < NSESS; i++) if (i < sm.sessions.n_ && sm.sessions.s_[i])
	{
		Session* s = sm.sessions.s_[i];
		if (s->hSession != i + 1) return false;
		if (s->slot != &vraw_slot[0] && s->slot != &vraw_slot[1]) return false;
		if (s->token != &vraw_tok[tokOf(s)]) return false;
		for (size_t k = 0; k < i; k++) if (sm.sessions.s_[k] == s) return false;
	}
	return true;
}

extern "C" void harness(void)
{
#if OP == 10
	static long raw[(sizeof(SessionManager) + 7) / 8];
	size_t before = lm_recycled;
	lm_on = true;
	SessionManager* p = new (raw) SessionManager();
	lm_on = false;
	vassert(p->sessionsMutex != NULL && lm_idx(p->sessionsMutex) >= 0 && lm_all_released() && p->sessions.n_ == 0);
	lm_on = true;
	p->~SessionManager();                      // exclusive by contract (C_Finalize): touches the table without the lock
	lm_on = false;
	vassert(lm_recycled == before + 1 && lm_all_released());
	vreach(); return;
#else
	int MT[2], MD[2]; const int MS = lm_idx(sm.sessionsMutex);
	lm_set_rank(sm.sessionsMutex, LM_RANK_SESSIONS);
	for (int t = 0; t < 2; t++)
	{
		SecureDataManager& d = vraw_sdm[t];
		d.soLoggedIn = nondet_bool(); d.userLoggedIn = nondet_bool(); vassume(!(d.soLoggedIn && d.userLoggedIn));
		d.dataMgrMutex = MutexFactory::i()->getMutex(); lm_set_rank(d.dataMgrMutex, LM_RANK_DATAMGR); MD[t] = lm_idx(d.dataMgrMutex);
		vraw_tok[t].valid = true; vraw_tok[t].token = (ObjectStoreToken*)&storeTokenDummy; vraw_tok[t].sdm = &d;
		vraw_tok[t].tokenMutex = MutexFactory::i()->getMutex(); lm_set_rank(vraw_tok[t].tokenMutex, LM_RANK_TOKEN); MT[t] = lm_idx(vraw_tok[t].tokenMutex);
		vraw_slot[t].objectStore = 0; vraw_slot[t].token = &vraw_tok[t]; vraw_slot[t].slotID = SLOT_ID[t];
	}
	vassert(lm_next <= LM_N);                  // every mutex of the scene is a distinct pool entry
	sm.sessions.n_ = nondet_uchar(); vassume(sm.sessions.n_ <= NSESS);
	for (int i = 0; i < NSESS; i++)
	{
		sm.sessions.s_[i] = 0;
		if (i < (int)sm.sessions.n_ && nondet_bool()) { mkSession(&vraw_sess[i], nondet_bool() ? 1 : 0, nondet_bool(), i + 1, 0); sm.sessions.s_[i] = &vraw_sess[i]; }
	}
	vassume(inv());
	vassert(lm_all_released());
#if OP == 0   // openSession: the returned id denotes exactly the session this call created, whatever the other threads open / close meanwhile
	int t = nondet_bool() ? 1 : 0; bool nullSlot = nondet_bool(), nullPh = nondet_bool(); CK_FLAGS flags = nondet_ulong(); CK_SESSION_HANDLE h = 0;
	// (bound: more than NSESS simultaneously open sessions - this call's plus those the other threads open meanwhile - end the path: capacity of the vector model)
	lm_on = true;
	CK_RV rv = sm.openSession(nullSlot ? NULL : &vraw_slot[t], flags, &mymark, NULL, nullPh ? NULL : &h);
	lm_on = false;
	size_t mine = 0; for (size_t i = 0; i < NSESS; i++) if (i < sm.sessions.n_ && sm.sessions.s_[i] && sm.sessions.s_[i]->pApplication == (void*)&mymark) mine++;
	if (rv == CKR_OK)
	{
		vassert(L.valid && !nullSlot && !nullPh && (flags & CKF_SERIAL_SESSION));
		vassert(h >= 1 && h <= sm.sessions.n_ && mine == 1);
		Session* ns = sm.sessions.s_[h - 1];
		vassert(ns != NULL && ns->pApplication == (void*)&mymark && ns->hSession == h && ns->slot == &vraw_slot[t] && ns->isReadWrite == ((flags & CKF_RW_SESSION) != 0));
		vassert(h - 1 >= L.n || L.s[h - 1] == NULL);                              // took a spot that was free at lock time: nobody displaced
		vassert(lm_acquisitions[MS] == 1);
		if (!(flags & CKF_RW_SESSION)) { vassert(lm_pair[MS][MT[t]]); vreach(); }    // the SO-logged-in test ran under sessionsMutex (nested tokenMutex)
		vreach();
		if (h - 1 < L.n) vreach();                                                  // re-used a NULL spot
	}
	else { vassert(mine == 0); vassert(h == 0); if (L.valid) vreach(); }
#elif OP == 1  // closeSession: exactly the caller's session goes; "last session => logout" is decided in the same critical section
	CK_SESSION_HANDLE h = nondet_bool() ? (CK_SESSION_HANDLE)(1 + (nondet_uchar() % NSESS)) : nondet_ulong();
	g_own = (h >= 1 && h <= sm.sessions.n_) ? sm.sessions.s_[h - 1] : (Session*)0;
	lm_on = true;
	CK_RV rv = sm.closeSession(h);
	lm_on = false;
	if (g_own)
	{
		int t = tokOf(g_own);
		bool last = true; for (size_t i = 0; i < NSESS; i++) if (L.s[i] && L.s[i] != g_own && tokOf(L.s[i]) == t) last = false;
		vassert(rv == CKR_OK && L.valid && L.s[h - 1] == g_own);
		vassert(h > sm.sessions.n_ || sm.sessions.s_[h - 1] != g_own);              // gone (the spot may already belong to a new session of another thread)
		vassert(lm_acquisitions[MS] == 1);
		vassert(lm_acquisitions[MT[t]] == (last ? 1UL : 0UL) && lm_acquisitions[MD[t]] == (last ? 1UL : 0UL));   // logout exactly on the last close
		vassert(lm_acquisitions[MT[1 - t]] == 0 && lm_acquisitions[MD[1 - t]] == 0);
		if (last) { vassert(lm_pair[MS][MT[t]] && lm_pair[MT[t]][MD[t]] && lm_pair[MS][MD[t]]); vassert(!vraw_sdm[t].soLoggedIn && !vraw_sdm[t].userLoggedIn); vreach(); }
		else vreach();
	}
	else
	{
		vassert(rv == CKR_SESSION_HANDLE_INVALID);                                  // not a session: refused
		vassert(lm_acquisitions[MS] <= 1);
		if (rv == CKR_SESSION_HANDLE_INVALID) vreach();
	}
#elif OP == 2  // closeAllSessions
	int t = nondet_bool() ? 1 : 0; bool nullSlot = nondet_bool(); g_closeAll = true;
	lm_on = true;
	CK_RV rv = sm.closeAllSessions(nullSlot ? NULL : &vraw_slot[t]);
	lm_on = false;
	if (nullSlot) { vassert(rv == CKR_SLOT_ID_INVALID && lm_acquisitions[MS] == 0); vreach(); }
	else
	{
		vassert(rv == CKR_OK && L.valid && lm_acquisitions[MS] == 1);
		for (size_t i = 0; i < NSESS; i++) if (L.s[i] && tokOf(L.s[i]) == t) vassert(i >= sm.sessions.n_ || sm.sessions.s_[i] != L.s[i]);   // every session of the slot that existed at lock time is gone
		for (size_t i = 0; i < NSESS; i++) if (L.s[i] && tokOf(L.s[i]) != t && !isEnv(L.s[i])) vassert(sm.sessions.s_[i] == L.s[i] || sm.sessions.s_[i] == NULL || isEnv(sm.sessions.s_[i]));
		vassert(lm_acquisitions[MT[t]] == 1 && lm_acquisitions[MD[t]] == 1 && lm_pair[MS][MT[t]] && lm_pair[MT[t]][MD[t]]);   // logout under the same sessionsMutex hold
		vassert(lm_acquisitions[MT[1 - t]] == 0);
		if (L.have[t]) vreach();
	}
#elif OP == 3  // getSessionInfo = getSession (critical section) + Session::getInfo on the caller's own session (two sequential tokenMutex sections)
	CK_SESSION_HANDLE h = nondet_bool() ? (CK_SESSION_HANDLE)(1 + (nondet_uchar() % NSESS)) : nondet_ulong();
	g_own = (h >= 1 && h <= sm.sessions.n_) ? sm.sessions.s_[h - 1] : (Session*)0;
	CK_SESSION_INFO info; bool nullInfo = nondet_bool();
	lm_on = true;
	CK_RV rv = sm.getSessionInfo(h, nullInfo ? NULL : &info);
	lm_on = false;
	vassert(L.valid && lm_acquisitions[MS] == 1);
	if (!g_own) vassert(rv == CKR_SESSION_HANDLE_INVALID);
	else if (nullInfo) vassert(rv == CKR_ARGUMENTS_BAD);
	else
	{
		vassert(rv == CKR_OK && info.slotID == SLOT_ID[tokOf(g_own)] && ((info.flags & CKF_RW_SESSION) != 0) == g_own->isReadWrite);
		vassert(!lm_pair[MS][MT[0]] && !lm_pair[MS][MT[1]]);                       // the table lock is not held while the token is asked
		vreach();
	}
#elif OP == 4  // getSession: what the table held at lock time
	CK_SESSION_HANDLE h = nondet_bool() ? (CK_SESSION_HANDLE)(1 + (nondet_uchar() % NSESS)) : nondet_ulong();
	g_own = (h >= 1 && h <= sm.sessions.n_) ? sm.sessions.s_[h - 1] : (Session*)0;
	lm_on = true;
	Session* s = sm.getSession(h);
	lm_on = false;
	vassert(L.valid && lm_acquisitions[MS] == 1);
	vassert(s == ((h >= 1 && h <= L.n) ? L.s[h - 1] : (Session*)0));
	if (g_own) { vassert(s == g_own); vreach(); }
	if (!s) vreach();
#elif OP == 5 || OP == 6   // haveSession / haveROSession: the answer describes the table at lock time
	CK_SLOT_ID sid = nondet_bool() ? SLOT_ID[nondet_bool() ? 1 : 0] : nondet_ulong();
	lm_on = true;
#if OP == 5
	bool r = sm.haveSession(sid);
	lm_on = false;
	vassert(L.valid && r == ((sid == SLOT_ID[0] && L.have[0]) || (sid == SLOT_ID[1] && L.have[1])));
#else
	bool r = sm.haveROSession(sid);
	lm_on = false;
	vassert(L.valid && r == ((sid == SLOT_ID[0] && L.haveRO[0]) || (sid == SLOT_ID[1] && L.haveRO[1])));
#endif
	vassert(lm_acquisitions[MS] == 1);
	if (r) vreach();
	if (!r) vreach();
#endif
	vassert(lm_all_released());                                                   // (b) every mutex released on every path
	vassert(lm_acquisitions[MS] <= 1);                                            // one critical section over the table per method
	for (int a = 0; a < LM_N; a++) for (int b = 0; b < LM_N; b++) if (lm_pair[a][b]) vassert(lm_rank[a] < lm_rank[b]);   // (d) observed nestings are consistent with the written order
	vassert(inv());
	vreach();
#endif
}
#endif
