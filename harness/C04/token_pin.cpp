// C04 / C14 - PIN changes and token (re-)initialisation at the Token level: real Token::setUserPIN / setSOPIN / initUserPIN / createToken
// and the real SecureDataManager::setSOPIN / setUserPIN / loginSO / loginUser guards, over a recording model of the persistent token.
// IDEAL PIN MODEL (the cryptography is cut): pbeEncryptKey(pin) yields a blob that encodes the identity of the PIN, login(x, blob)
// first logs out (as the real code) and accepts iff blob == blob(x).  PINs <= 2 symbolic bytes.
#include "venv.h"
#include "../C03/caps.h"
#define MUTEX_MODEL_IMPL
#include "mutex_model.h"
#define private public
#define protected public
#include "Token.h"
#include "SecureDataManager.h"
#include "ObjectStore.h"
#undef private
#undef protected
#define CRYPTO_MODEL_IMPL
#include "crypto_model.h"
#include "store_token_model.h"
#include <stdarg.h>
void softHSMLog(const int, const char*, const char*, const int, const char*, ...) {}
VRAW(Token, tok, ) VRAW(SecureDataManager, sdm, )
static ModelStoreToken store; static ModelStoreToken freshStore;
static unsigned long nNewToken, nDestroyToken; static bool newTokenFails, pbeFails;
static void blob_of(const ByteString& pin, ByteString& out) { out.resize(4); out[0] = 0xB0; out[1] = (unsigned char)pin.size(); out[2] = pin.size() > 0 ? pin.const_byte_str()[0] : 0; out[3] = pin.size() > 1 ? pin.const_byte_str()[1] : 0; }
static bool blob_is(const ByteString& blob, const ByteString& pin) { ByteString b; blob_of(pin, b); if (blob.size() != 4) return false; for (int i = 0; i < 4; i++) if (blob.const_byte_str()[i] != b[i]) return false; return true; }
extern "C" {
void stub_initObject(SecureDataManager* d) { d->rng = &model_rng; d->aes = &model_sym; d->mask = 0; d->soLoggedIn = d->userLoggedIn = false; d->magic.resize(3); d->dataMgrMutex = MutexFactory::i()->getMutex(); }
bool stub_pbe(SecureDataManager* d, const ByteString& pin, ByteString& out) { if (pbeFails) return false; blob_of(pin, out); return true; }
bool stub_login(SecureDataManager* d, const ByteString& pin, const ByteString& blob) { d->logout(); return blob_is(blob, pin); }
void stub_remask(SecureDataManager*, ByteString&) {}
ObjectStoreToken* stub_newToken(ObjectStore*, const ByteString& label) { nNewToken++; if (newTokenFails) return NULL; freshStore.label = label; return &freshStore; }
bool stub_destroyToken(ObjectStore*, ObjectStoreToken* t) { nDestroyToken++; return true; }
}
static ByteString pinOf(unsigned char len, unsigned char a, unsigned char b) { ByteString p; p.resize(len); if (len > 0) p[0] = a; if (len > 1) p[1] = b; return p; }
extern "C" void harness(void)
{
	static SecureDataManager proto;                     // real constructor (initObject is the model above): provides the vtable pointer
	SecureDataManager& d = vraw_sdm; Token& t = vraw_tok;
	*(void**)&d = *(void**)&proto;
	stub_initObject(&d);
	pbeFails = nondet_bool(); newTokenFails = nondet_bool();
	// current PINs (the SO PIN always exists on an initialised token; the user PIN may be uninitialised)
	unsigned char sl = 1 + (nondet_uchar() & 1), s0 = nondet_uchar(), s1 = nondet_uchar(); ByteString soPin = pinOf(sl, s0, s1);
	bool userSet = nondet_bool(); unsigned char ul = 1 + (nondet_uchar() & 1), u0 = nondet_uchar(), u1 = nondet_uchar(); ByteString userPin = pinOf(ul, u0, u1);
	blob_of(soPin, d.soEncryptedKey); if (userSet) blob_of(userPin, d.userEncryptedKey);
	d.soLoggedIn = nondet_bool(); d.userLoggedIn = nondet_bool(); vassume(!(d.soLoggedIn && d.userLoggedIn)); vassume(!d.userLoggedIn || userSet);
	store.havoc(0);
#if OP == 1 || OP == 2
	// setSOPIN / initUserPIN update the live SecureDataManager before persisting: a failing write of the token object leaves memory and
	// disk out of step.  Store faults are outside C04's quantifier (histories, inputs); they are excluded here and stated in the evidence.
	vassume(!store.failWrites && !store.failReads);
#endif
	store.soPIN = d.soEncryptedKey; store.userPIN = d.userEncryptedKey;          // memory and disk agree (invariant, re-checked below)
	t.valid = true; t.token = &store; t.sdm = &d; t.tokenMutex = MutexFactory::i()->getMutex();
	bool so0 = d.soLoggedIn, us0 = d.userLoggedIn; unsigned long locks0 = vmutex_lock_count(t.tokenMutex);
	// arguments
	unsigned char al = nondet_uchar() % 3, a0 = nondet_uchar(), a1 = nondet_uchar(); ByteString oldArg = pinOf(al, a0, a1);
	unsigned char nl = nondet_uchar() % 3, n0 = nondet_uchar(), n1 = nondet_uchar(); ByteString newArg = pinOf(nl, n0, n1);
	unsigned char xl = nondet_uchar() % 3, x0 = nondet_uchar(), x1 = nondet_uchar(); ByteString probe = pinOf(xl, x0, x1);     // an arbitrary later login attempt
	bool oldIsUser = userSet && al == ul && a0 == u0 && (ul < 2 || a1 == u1);
	bool oldIsSO = al == sl && a0 == s0 && (sl < 2 || a1 == s1);
#if OP == 0      // ---------------- C_SetPIN as / for the normal user
	CK_RV rv = t.setUserPIN(oldArg, newArg);
	vassert(vmutex_lock_count(t.tokenMutex) - locks0 == 1 && vmutex_depth(t.tokenMutex) == 0);   // C18: the whole PIN operation is ONE critical section of tokenMutex (nothing sampled outside and acted on inside)
	SecureDataManager& m = *t.sdm;
	if (rv == CKR_OK)
	{
		vassert(oldIsUser && nl > 0);                                               // only with the correct old PIN and a non-empty new one
		vassert(blob_is(m.userEncryptedKey, newArg) && blob_is(store.userPIN, newArg));    // memory AND disk carry the new PIN
		vassert(m.userLoggedIn == us0 && !m.soLoggedIn);                             // a logged-in user stays logged in, nobody else gets in
		vreach();
	}
	else
	{	// a rejected attempt changes nothing
		vassert(userSet ? blob_is(store.userPIN, userPin) : store.userPIN.size() == 0);
		vassert(t.sdm->soLoggedIn == so0 && t.sdm->userLoggedIn == us0);
		vassert(userSet ? blob_is(t.sdm->userEncryptedKey, userPin) : t.sdm->userEncryptedKey.size() == 0);
		vreach();
	}
	vassert(blob_is(m.soEncryptedKey, soPin) && blob_is(store.soPIN, soPin));       // the SO PIN is never affected
#elif OP == 1    // ---------------- C_SetPIN as SO
	CK_RV rv = t.setSOPIN(oldArg, newArg);
	vassert(vmutex_lock_count(t.tokenMutex) - locks0 == 1 && vmutex_depth(t.tokenMutex) == 0);   // C18: the whole PIN operation is ONE critical section of tokenMutex (nothing sampled outside and acted on inside)
	SecureDataManager& m = *t.sdm;
	if (rv == CKR_OK) { vassert(oldIsSO && nl > 0 && so0); vassert(blob_is(m.soEncryptedKey, newArg) && blob_is(store.soPIN, newArg)); vreach(); }
	else { vassert(blob_is(store.soPIN, soPin)); if (!(oldIsSO && so0 && nl > 0)) vassert(blob_is(m.soEncryptedKey, soPin)); vreach(); }
	vassert(m.soLoggedIn == so0 && m.userLoggedIn == us0);
	vassert(userSet ? (blob_is(m.userEncryptedKey, userPin) && blob_is(store.userPIN, userPin)) : (m.userEncryptedKey.size() == 0 && store.userPIN.size() == 0));   // user PIN untouched
#elif OP == 2    // ---------------- C_InitPIN
	CK_RV rv = t.initUserPIN(newArg);
	vassert(vmutex_lock_count(t.tokenMutex) - locks0 == 1 && vmutex_depth(t.tokenMutex) == 0);   // C18: the whole PIN operation is ONE critical section of tokenMutex (nothing sampled outside and acted on inside)
	SecureDataManager& m = *t.sdm;
	if (rv == CKR_OK) { vassert((so0 || us0) && nl > 0); vassert(blob_is(m.userEncryptedKey, newArg) && blob_is(store.userPIN, newArg)); vreach(); }
	else { vassert(userSet ? blob_is(store.userPIN, userPin) : store.userPIN.size() == 0); vreach(); }
	vassert(blob_is(m.soEncryptedKey, soPin) && blob_is(store.soPIN, soPin));
	vassert(m.soLoggedIn == so0 && m.userLoggedIn == us0);
#elif OP == 3    // ---------------- C_InitToken on an initialised token (re-initialisation)
	static CK_UTF8CHAR label[32]; static ObjectStore* os = (ObjectStore*)&store;
	vassume(!so0 && !us0);                                                        // C_InitToken is refused while a session exists (C03 sess_inittoken_gate); without sessions nobody is logged in (C03 INV)
	CK_RV rv = t.createToken(os, oldArg, label);
	if (rv == CKR_OK)
	{
		vassert(oldIsSO);                                                           // only with the correct SO PIN
		vassert(store.nReset == 1);
		vassert(blob_is(store.soPIN, soPin) && store.userPIN.size() == 0);          // SO PIN kept, user PIN removed (on disk)
		vassert(blob_is(t.sdm->soEncryptedKey, soPin) && t.sdm->userEncryptedKey.size() == 0);   // ... and in memory: the old user PIN no longer logs in
		vassert(!t.sdm->soLoggedIn && !t.sdm->userLoggedIn);
		vreach();
	}
	else
	{
		if (!oldIsSO) { vassert(rv == CKR_PIN_INCORRECT || rv == CKR_GENERAL_ERROR); vassert(store.nReset == 0); vassert(userSet ? blob_is(store.userPIN, userPin) : store.userPIN.size() == 0); vreach(); }
		vassert(blob_is(store.soPIN, soPin));
		// (when the store fails to reset the token AFTER the SO PIN was accepted, the pinned code returns CKR_DEVICE_ERROR with the SO left
		//  logged in; store faults are outside C14's quantifier, the case is excluded here and described in DESIGN.md)
		if (!store.failWrites) vassert(!t.sdm->soLoggedIn && !t.sdm->userLoggedIn);   // a failed C_InitToken leaves nobody logged in
	}
	vassert(nNewToken == 0);
#elif OP == 4    // ---------------- C_InitToken on the free slot
	static CK_UTF8CHAR label[32]; static ObjectStore* os = (ObjectStore*)&store; for (int i = 0; i < 32; i++) label[i] = nondet_uchar();
	t.token = 0; t.sdm = 0; freshStore.havoc(0); freshStore.failReads = false;
	CK_RV rv = t.createToken(os, newArg, label);
	if (rv == CKR_OK)
	{
		vassert(nNewToken == 1 && t.token == &freshStore && nl > 0);
		vassert(blob_is(freshStore.soPIN, newArg) && freshStore.userPIN.size() == 0);     // the given SO PIN, no user PIN
		vassert(t.sdm && blob_is(t.sdm->soEncryptedKey, newArg) && !t.sdm->soLoggedIn && !t.sdm->userLoggedIn);
		vreach();
	}
	else { vassert(t.token == 0); if (nNewToken && !newTokenFails) { vassert(nDestroyToken == 1); vreach(); } }    // no half-initialised token is left
#endif
	// later login attempt with an arbitrary PIN: accepted iff it is the PIN now stored (ideal PIN model) - and memory == disk
	if (t.sdm && t.token)
	{
		ModelStoreToken* st = (ModelStoreToken*)t.token;
		vassert(t.sdm->userEncryptedKey.size() == st->userPIN.size());
		if (t.sdm->userEncryptedKey.size() == 4) for (int i = 0; i < 4; i++) vassert(t.sdm->userEncryptedKey[i] == st->userPIN[i]);
		if (t.sdm->soEncryptedKey.size() == 4 && st->soPIN.size() == 4) for (int i = 0; i < 4; i++) vassert(t.sdm->soEncryptedKey[i] == st->soPIN[i]);
	}
	vassert(vmutex_depth(t.tokenMutex) == 0);
	vreach();
}
