// capacities for the SecureDataManager unit harness (force-included in every TU)
#ifndef SDM_CAPS_H
#define SDM_CAPS_H
#include "vstl_common.h"
#ifndef BS_CAP
#define BS_CAP 72
#endif
template<> struct vstl_vec_cap<unsigned char> { enum { value = BS_CAP }; };
#endif
