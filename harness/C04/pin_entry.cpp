// C04 / C03 - the SoftHSM::C_InitPIN / C_SetPIN wrappers (P-ENTRY): which Token call is made in which session state, with which PIN bytes.
// Token::initUserPIN/setUserPIN/setSOPIN are sinks here (what they do to the PIN blobs is obligation tokpin_*).
//   OP 0 C_InitPIN: only the logged-in SO (RW SO session) may set the user PIN; PIN length in [MIN_PIN_LEN, MAX_PIN_LEN]; caller's bytes
//   OP 1 C_SetPIN : RW public / RW user session -> user PIN, RW SO session -> SO PIN, RO session -> refused; old and new PIN passed unmodified
//   OP 2 C_DigestInit (C07/C12): only advertised digest mechanisms; refused while another operation is active; a refused init leaves no operation
#include "entry_env.h"
struct PL { unsigned long init, setUser, setSO; CK_RV rv; size_t oldLen, newLen; unsigned char old0, oldLast, new0, newLast; };
static PL pl;
static void seeNew(ByteString& p) { pl.newLen = p.size(); pl.new0 = p.size() ? p[0] : 0; pl.newLast = p.size() ? p[p.size() - 1] : 0; }
static void seeOld(ByteString& p) { pl.oldLen = p.size(); pl.old0 = p.size() ? p[0] : 0; pl.oldLast = p.size() ? p[p.size() - 1] : 0; }
extern "C" {
CK_RV sink_initUserPIN(Token*, ByteString& pin) { pl.init++; seeNew(pin); return pl.rv; }
CK_RV sink_setUserPIN(Token*, ByteString& o, ByteString& n) { pl.setUser++; seeOld(o); seeNew(n); return pl.rv; }
CK_RV sink_setSOPIN(Token*, ByteString& o, ByteString& n) { pl.setSO++; seeOld(o); seeNew(n); return pl.rv; }
}
extern "C" void harness(void)
{
	env_init(0, 0);
	Session* s = env.session; pl.rv = nondet_ulong();
	static CK_UTF8CHAR pin[BS_CAP], old[BS_CAP]; for (int i = 0; i < BS_CAP; i++) { pin[i] = nondet_uchar(); old[i] = nondet_uchar(); }
	CK_ULONG pinLen = nondet_ulong(), oldLen = nondet_uchar(); vassume(pinLen <= BS_CAP || pinLen > MAX_PIN_LEN); vassume(oldLen <= BS_CAP);
	bool nullPin = nondet_bool(), nullOld = nondet_bool();
	CK_SESSION_HANDLE hS = nondet_bool() ? env.hSession : nondet_ulong();
	bool so = env.sdm->soLoggedIn, user = env.sdm->userLoggedIn, rw = s->isReadWrite; int op0 = s->operation;
#if OP == 0
	CK_RV rv = env.hsm->C_InitPIN(hS, nullPin ? NULL : pin, pinLen);
	unsigned long calls = pl.init + pl.setUser + pl.setSO;
	vassert(pl.setUser == 0 && pl.setSO == 0 && calls <= 1);
	if (calls) { vassert(hS == env.hSession && so && rw && !nullPin); vassert(pinLen >= MIN_PIN_LEN && pinLen <= MAX_PIN_LEN && pl.newLen == pinLen && pl.new0 == pin[0] && pl.newLast == pin[pinLen - 1]); vassert(rv == pl.rv); vreach(); }
	if (rv == CKR_OK) { vassert(calls == 1); vreach(); }
	if (hS == env.hSession && !so) { vassert(rv == CKR_USER_NOT_LOGGED_IN && calls == 0); vreach(); }
#elif OP == 1
	CK_RV rv = env.hsm->C_SetPIN(hS, nullOld ? NULL : old, oldLen, nullPin ? NULL : pin, pinLen);
	unsigned long calls = pl.init + pl.setUser + pl.setSO;
	vassert(pl.init == 0 && calls <= 1);
	if (calls)
	{
		vassert(hS == env.hSession && rw && !nullPin && !nullOld);
		vassert(pinLen >= MIN_PIN_LEN && pinLen <= MAX_PIN_LEN && pl.newLen == pinLen && pl.new0 == pin[0] && pl.newLast == pin[pinLen - 1]);
		vassert(pl.oldLen == oldLen && (oldLen == 0 || (pl.old0 == old[0] && pl.oldLast == old[oldLen - 1])));
		vassert(pl.setSO == (so ? 1u : 0u));                   // the SO changes the SO PIN, everybody else the user PIN
		vassert(rv == pl.rv); vreach();
	}
	if (rv == CKR_OK) { vassert(calls == 1); vreach(); }
	if (hS == env.hSession && !rw) { vassert(rv != CKR_OK && calls == 0); vreach(); }
#else
	CK_MECHANISM mech; mech.mechanism = nondet_ulong(); mech.pParameter = NULL_PTR; mech.ulParameterLen = 0;
	HashAlgorithm* dop0 = s->digestOp;
	CK_RV rv = env.hsm->C_DigestInit(hS, &mech);
	if (rv == CKR_OK)
	{
		CK_MECHANISM_TYPE m = mech.mechanism;
		vassert(hS == env.hSession && op0 == SESSION_OP_NONE && in_supported(m));
		vassert(m == CKM_MD5 || m == CKM_SHA_1 || m == CKM_SHA224 || m == CKM_SHA256 || m == CKM_SHA384 || m == CKM_SHA512);
		vassert(s->operation == SESSION_OP_DIGEST && s->digestOp == &model_hash && crypto_log.initCalls == 1);
		vassert((unsigned long)s->hashAlgo == crypto_log.lastKind);
		vreach();
	}
	else { vassert(s->operation == op0 && s->digestOp == dop0); if (hS == env.hSession && op0 != SESSION_OP_NONE) { vassert(rv == CKR_OPERATION_ACTIVE && crypto_log.calls == 0); vreach(); } }
	if (crypto_log.calls) vassert(in_supported(mech.mechanism));
#endif
#if OP != 2
	vassert(s->operation == op0 && env.sdm->soLoggedIn == so && env.sdm->userLoggedIn == user);
#endif
	vreach();
}
