// C04 / C06 - the real SecureDataManager (PIN blobs, master key, attribute encryption) over a SYMBOLIC (Dolev-Yao) model of the primitives:
//   * RFC4880::PBEDeriveKey(pin, salt) = the 16-byte key (|pin|, pin, salt, 0..): injective in the PIN and the salt
//   * AES-CBC: enc(k, iv, m) = (#k, iv, m) with #k the index of k in a ghost key table;  dec(k', iv', c) = m if k' == k and iv' == iv, otherwise garbage that does not start
//     with the magic (the 2^-24 collision of a real cipher is outside the claim); the base-class state machine of SymmetricAlgorithm is
//     the real one (init / update / final ordering is enforced as the OpenSSL wrapper enforces it)
//   * RNG: symbolic bytes
// What is proved is SecureDataManager's own logic: blob layout written == blob layout read, the magic check, which PIN opens which blob,
// that the master key survives every PIN operation, login state flags, fresh IV prepended to every encrypted attribute.
// Compositional (one real call per obligation, pre-state constructed):  blob(pin, K) := salt | IV | enc(pbe(pin, salt), IV, magic | K)
//   OP 0 blank token: setSOPIN(pin) draws a master key K and writes soBlob == blob(pin, K)            [format lemma for the blank case]
//   OP 1 login: from soBlob = blob(so, K), userBlob = blob(us, K) and ANY login state, loginSO / loginUser(x) (-DWHO) succeeds iff x is
//        exactly that PIN; success = that user logged in with master key K; failure = nobody logged in, key wiped; blobs untouched
//   OP 2 setUserPIN(nw) while logged in (SO or user): userBlob' == blob(nw, K), soBlob untouched, login state and K untouched; refused
//        (nothing changed) when nobody is logged in or the PIN is empty        [with OP 1: afterwards exactly the new PIN logs in]
//   OP 3 encrypt / decrypt round trip under a fresh IV and the master key; refused when nobody is logged in
//   OP 4 reAuthenticateSO / User(x) (-DWHO): accepts exactly the PIN, changes nothing
//   OP 5 setSOPIN(nw) by the logged-in SO: soBlob' == blob(nw, K), userBlob and K untouched; refused unless the SO is logged in
#include "venv.h"
#include "sdm_caps.h"
#define MUTEX_MODEL_IMPL
#include "mutex_model.h"
#define private public
#define protected public
#include "SecureDataManager.h"
#include "SymmetricAlgorithm.h"
#include "CryptoFactory.h"
#include "RFC4880.h"
#include "AESKey.h"
#include "RNG.h"
#undef private
#undef protected
#include <stdarg.h>
void softHSMLog(const int, const char*, const char*, const int, const char*, ...) {}
enum { BLK = 2 };
#ifndef SOLEN
#define SOLEN 2
#endif
#ifndef USLEN
#define USLEN 2
#endif
#ifndef NWLEN
#define NWLEN 2
#endif
#ifndef XLEN
#define XLEN 2
#endif
static unsigned long rngCalls; static unsigned char lastRnd[2];
class MRng : public RNG { public:
	virtual bool generateRandom(ByteString& data, const size_t len) { rngCalls++; data.resize(len); for (size_t i = 0; i < len; i++) { data[i] = nondet_uchar(); if (i < 2) lastRnd[i] = data[i]; } return true; }
	virtual void seed(ByteString&) {} };
static unsigned long nGarbage;
// ghost table of the keys used by encryptInit: a ciphertext carries the INDEX of its key (and the IV), decryption compares the key bytes
static unsigned char dyKeys[8][32]; static size_t dyLen[8]; static unsigned dyN;
class DyCipher : public SymmetricAlgorithm { public:
	ByteString key, iv; bool first; unsigned id;
	virtual bool encryptInit(const SymmetricKey* k, const SymMode::Type mode, const ByteString& IV, bool padding, size_t counterBits, const ByteString& aad, size_t tagBytes)
	{
		if (!SymmetricAlgorithm::encryptInit(k, mode, IV, padding, counterBits, aad, tagBytes)) return false; vassert(mode == SymMode::CBC && IV.size() == BLK);
		if (dyN >= 8) vstl_capacity_exceeded();
		id = dyN++; const ByteString& kb = k->getKeyBits(); dyLen[id] = kb.size(); vassert(kb.size() > 0 && kb.size() <= 32); for (size_t i = 0; i < 32; i++) dyKeys[id][i] = i < kb.size() ? kb.const_byte_str()[i] : 0;
		iv = IV; first = true; return true;
	}
	virtual bool encryptUpdate(const ByteString& data, ByteString& out)
	{ if (!SymmetricAlgorithm::encryptUpdate(data, out)) return false; out.resize(0); if (first) { ByteString l; l.resize(1); l[0] = (unsigned char)id; out += l; out += iv; first = false; } out += data; return true; }
	virtual bool encryptFinal(ByteString& out) { if (!SymmetricAlgorithm::encryptFinal(out)) return false; out.resize(0); return true; }
	virtual bool decryptInit(const SymmetricKey* k, const SymMode::Type mode, const ByteString& IV, bool padding, size_t counterBits, const ByteString& aad, size_t tagBytes)
	{ if (!SymmetricAlgorithm::decryptInit(k, mode, IV, padding, counterBits, aad, tagBytes)) return false; key = k->getKeyBits(); iv = IV; first = true; return true; }
	virtual bool decryptUpdate(const ByteString& data, ByteString& out)
	{
		if (!SymmetricAlgorithm::decryptUpdate(data, out)) return false;
		vassert(first); first = false;                    // the model handles one-shot decryption (what SecureDataManager does)
		const unsigned char* D = data.const_byte_str(); size_t n = data.size(); const size_t hdr = 1 + BLK;
		bool match = n >= hdr && D[0] < dyN && iv.size() == BLK;
		if (match) { unsigned k = D[0]; if (dyLen[k] != key.size()) match = false; for (size_t i = 0; i < 32; i++) if (i < key.size() && dyKeys[k][i] != key[i]) match = false; for (size_t i = 0; i < BLK; i++) if (D[1 + i] != iv[i]) match = false; }
		if (match) { out.resize(n - hdr); for (size_t i = hdr; i < n; i++) out[i - hdr] = D[i]; return true; }
		// wrong key or IV: garbage that does not start with the magic "RJR"
		nGarbage++; size_t g = n >= hdr ? n - hdr : 0; out.resize(g); for (size_t i = 0; i < g; i++) out[i] = nondet_uchar();
		vassume(!(g >= 3 && out[0] == 0x52 && out[1] == 0x4A && out[2] == 0x52));
		return true;
	}
	virtual bool decryptFinal(ByteString& out) { if (!SymmetricAlgorithm::decryptFinal(out)) return false; out.resize(0); return true; }
	virtual bool wrapKey(const SymmetricKey*, const SymWrap::Type, const ByteString&, ByteString&) { return false; }
	virtual bool unwrapKey(const SymmetricKey*, const SymWrap::Type, const ByteString&, ByteString&) { return false; }
	virtual size_t getBlockSize() const { return BLK; }
	virtual bool checkMaximumBytes(unsigned long) { return true; } };
static MRng m_rng; static DyCipher m_aes;
class MFactory : public CryptoFactory { public:
	virtual SymmetricAlgorithm* getSymmetricAlgorithm(SymAlgo::Type) { return &m_aes; } virtual AsymmetricAlgorithm* getAsymmetricAlgorithm(AsymAlgo::Type) { return 0; }
	virtual HashAlgorithm* getHashAlgorithm(HashAlgo::Type) { return 0; } virtual MacAlgorithm* getMacAlgorithm(MacAlgo::Type) { return 0; } virtual RNG* getRNG(RNGImpl::Type) { return &m_rng; } };
static MFactory m_factory;
CryptoFactory* CryptoFactory::i() { return &m_factory; }
void CryptoFactory::reset() {}
void CryptoFactory::recycleSymmetricAlgorithm(SymmetricAlgorithm*) {}
void CryptoFactory::recycleAsymmetricAlgorithm(AsymmetricAlgorithm*) {}
void CryptoFactory::recycleHashAlgorithm(HashAlgorithm*) {}
void CryptoFactory::recycleMacAlgorithm(MacAlgorithm*) {}
#include <new>
extern "C" void stub_bs_hex(ByteString* self, const char* hex)
{	// ByteString(const char* hexString) without strtoul (only used for the magic "524A52")
	new (self) ByteString(); size_t n = 0; while (hex[n]) n++; self->resize(n / 2);
	for (size_t i = 0; i + 1 < n; i += 2) { unsigned char v = 0; for (int k = 0; k < 2; k++) { char c = hex[i + k]; v = (unsigned char)(v * 16 + (c >= '0' && c <= '9' ? c - '0' : (c >= 'A' && c <= 'F' ? c - 'A' + 10 : c - 'a' + 10))); } (*self)[i / 2] = v; }
}
extern "C" bool stub_pbe(const ByteString& pass, const ByteString& salt, AESKey** ppKey)
{	// PBE model: key bits = (|pin|, pin, salt)
	AESKey* k = new AESKey(128); ByteString b; b.resize(16); b[0] = (unsigned char)pass.size(); for (size_t i = 0; i < 2; i++) b[1 + i] = i < pass.size() ? pass.const_byte_str()[i] : 0; for (size_t i = 0; i < 8; i++) b[3 + i] = i < salt.size() ? salt.const_byte_str()[i] : 0;
	vassert(pass.size() <= 2 && salt.size() == 8); vassert(k->setKeyBits(b)); *ppKey = k; return true;
}
struct Pin { unsigned char len, a, b, pad; };   // 4 bytes: passed as one i32 (a 3-byte struct is coerced to i24, which ir2c does not translate faithfully)
static Pin anyPin(unsigned char len) { Pin p; p.pad = 0; p.len = len; p.a = nondet_uchar(); p.b = nondet_uchar(); return p; }   // lengths are concrete per obligation (all blob offsets stay concrete), bytes symbolic
static ByteString bs(const Pin& p) { ByteString x; x.resize(p.len); if (p.len > 0) x[0] = p.a; if (p.len > 1) x[1] = p.b; return x; }
static bool same(const Pin& p, const Pin& q) { return p.len == q.len && (p.len < 1 || p.a == q.a) && (p.len < 2 || p.b == q.b); }
static unsigned char K[32];
// a step that must succeed: proved, then assumed
#define MUST(x) do { bool r_ = (x); vassert(r_); vassume(r_); } while (0)
static void sameKey(SecureDataManager& d) { ByteString k; d.unmask(k); vassert(k.size() == 32); for (int i = 0; i < 32; i++) vassert(k[i] == K[i]); }
enum { BLOB = 8 + BLK + 1 + BLK + 3 + 32 };
// the blob the pinned format prescribes for (pin, K) with the given salt and IV; registers the PBE key in the ghost key table as encryption would
static ByteString mkblob(const Pin& p, const unsigned char* salt, const unsigned char* iv)
{
	unsigned id = dyN++; dyLen[id] = 16; for (int i = 0; i < 32; i++) dyKeys[id][i] = 0;
	dyKeys[id][0] = p.len; if (p.len > 0) dyKeys[id][1] = p.a; if (p.len > 1) dyKeys[id][2] = p.b; for (int i = 0; i < 8; i++) dyKeys[id][3 + i] = salt[i];
	ByteString b; b.resize(BLOB); size_t o = 0;
	for (int i = 0; i < 8; i++) b[o++] = salt[i]; for (int i = 0; i < BLK; i++) b[o++] = iv[i];
	b[o++] = (unsigned char)id; for (int i = 0; i < BLK; i++) b[o++] = iv[i];
	b[o++] = 0x52; b[o++] = 0x4A; b[o++] = 0x52; for (int i = 0; i < 32; i++) b[o++] = K[i];
	return b;
}
// is `b` a well-formed blob for (pin, K)?  (salt and IV are whatever the RNG delivered)
static void isblob(const ByteString& b, const Pin& p)
{
	vassert(b.size() == BLOB); const unsigned char* B = b.const_byte_str();
	unsigned id = B[8 + BLK]; vassert(id < dyN && dyLen[id] == 16);
	vassert(dyKeys[id][0] == p.len && (p.len < 1 || dyKeys[id][1] == p.a) && (p.len < 2 || dyKeys[id][2] == p.b) && (p.len > 1 || dyKeys[id][2] == 0) && (p.len > 0 || dyKeys[id][1] == 0));
	for (int i = 0; i < 8; i++) vassert(dyKeys[id][3 + i] == B[i]);                       // PBE key derived from THIS pin and the stored salt
	for (int i = 11; i < 16; i++) vassert(dyKeys[id][i] == 0);
	for (int i = 0; i < BLK; i++) vassert(B[8 + BLK + 1 + i] == B[8 + i]);                // encrypted under the stored IV
	vassert(B[8 + 2 * BLK + 1] == 0x52 && B[8 + 2 * BLK + 2] == 0x4A && B[8 + 2 * BLK + 3] == 0x52);
	for (int i = 0; i < 32; i++) vassert(B[8 + 2 * BLK + 4 + i] == K[i]);                // magic | master key
}
#ifndef WHO
#define WHO 0
#endif
extern "C" void harness(void)
{
	static SecureDataManager d;                        // real constructor (draws the first mask)
	Pin so = anyPin(SOLEN), us = anyPin(USLEN), nw = anyPin(NWLEN), x = anyPin(XLEN);
	vassert(d.soEncryptedKey.size() == 0 && d.userEncryptedKey.size() == 0 && !d.soLoggedIn && !d.userLoggedIn && d.mask->size() == 32 && d.magic.size() == 3);
#if OP == 0
	MUST(d.setSOPIN(bs(so)));
	{ ByteString k; d.unmask(k); vassert(k.size() == 32); for (int i = 0; i < 32; i++) K[i] = k[i]; }
	isblob(d.soEncryptedKey, so);
	vassert(d.userEncryptedKey.size() == 0 && !d.soLoggedIn && !d.userLoggedIn);
	{ Pin e = anyPin(0); vassert(!d.setUserPIN(bs(us)) && !d.setSOPIN(bs(e))); }        // not logged in / empty PIN: refused
	isblob(d.soEncryptedKey, so);
#else
	// ---- constructed pre-state: an initialised token with master key K, SO PIN `so`, user PIN `us`
	unsigned char s1[8], s2[8], i1[BLK], i2[BLK]; for (int i = 0; i < 8; i++) { s1[i] = nondet_uchar(); s2[i] = nondet_uchar(); } for (int i = 0; i < BLK; i++) { i1[i] = nondet_uchar(); i2[i] = nondet_uchar(); }
	for (int i = 0; i < 32; i++) K[i] = nondet_uchar();
	d.soEncryptedKey = mkblob(so, s1, i1); d.userEncryptedKey = mkblob(us, s2, i2);
	ByteString soBlob = d.soEncryptedKey, usBlob = d.userEncryptedKey;
	bool so0 = nondet_bool(), us0 = nondet_bool(); vassume(!(so0 && us0));
#if OP == 3 || OP == 4
	so0 = WHO == 0; us0 = WHO == 1;
#endif
	d.soLoggedIn = so0; d.userLoggedIn = us0;
	if (so0 || us0) { d.maskedKey.resize(32); for (int i = 0; i < 32; i++) d.maskedKey[i] = K[i] ^ (*d.mask)[i]; }
#if OP == 1
	bool ok = WHO == 0 ? d.loginSO(bs(x)) : d.loginUser(bs(x));
	vassert(ok == same(x, WHO == 0 ? so : us));
	if (ok) { vassert(d.soLoggedIn == (WHO == 0) && d.userLoggedIn == (WHO == 1)); sameKey(d);
#if (WHO == 0 && XLEN == SOLEN) || (WHO == 1 && XLEN == USLEN)
		vreach();      // (an attempt of another length can never succeed: no witness then)
#endif
	}
	else { vassert(!d.soLoggedIn && !d.userLoggedIn && d.maskedKey.size() == 0); ByteString p, c; p.resize(1); vassert(!d.encrypt(p, c) && !d.decrypt(soBlob, c)); vreach(); }
	vassert(d.soEncryptedKey == soBlob && d.userEncryptedKey == usBlob);
#elif OP == 2
	Pin e = anyPin(0); bool empty = nondet_bool();
	bool ok = d.setUserPIN(bs(empty ? e : nw));
	vassert(ok == ((so0 || us0) && !empty));
	if (ok) { isblob(d.userEncryptedKey, nw); sameKey(d); vreach(); } else { vassert(d.userEncryptedKey == usBlob); vreach(); }
	vassert(d.soEncryptedKey == soBlob && d.soLoggedIn == so0 && d.userLoggedIn == us0);
#elif OP == 3
	unsigned char p0 = nondet_uchar(), p1 = nondet_uchar(), p2 = nondet_uchar(); ByteString p; p.resize(3); p[0] = p0; p[1] = p1; p[2] = p2;
	ByteString c, q; unsigned long r0 = rngCalls;
	MUST(d.encrypt(p, c));
	vassert(rngCalls > r0);                                                        // a fresh IV (and mask) is drawn for every encryption
	vassert(c.size() == BLK + 1 + BLK + 3);                                        // IV | enc(master key, IV, plaintext)
	vassert(c[BLK] < dyN && dyLen[c[BLK]] == 32); for (int i = 0; i < 32; i++) vassert(dyKeys[c[BLK]][i] == K[i]);   // encrypted under the master key ...
	for (int i = 0; i < BLK; i++) vassert(c[i] == c[BLK + 1 + i]);                 // ... with the prepended IV
	vassert(d.decrypt(c, q) && q.size() == 3 && q[0] == p0 && q[1] == p1 && q[2] == p2); sameKey(d);
	ByteString e, e2; vassert(d.decrypt(e, e2) && e2.size() == 0);                 // empty stays empty
	d.logout();
	ByteString c2 = c, q2; q2.resize(1); q2[0] = 0x77;
	vassert(!d.encrypt(p, c2) && !d.decrypt(c, q2) && q2.size() == 1 && q2[0] == 0x77);   // nothing without a login
	vreach();
#elif OP == 4
	bool ok = WHO == 0 ? d.reAuthenticateSO(bs(x)) : d.reAuthenticateUser(bs(x));
	vassert(ok == same(x, WHO == 0 ? so : us)); vassert(d.soLoggedIn == so0 && d.userLoggedIn == us0); sameKey(d);
	vassert(d.soEncryptedKey == soBlob && d.userEncryptedKey == usBlob);
#if (WHO == 0 && XLEN == SOLEN) || (WHO == 1 && XLEN == USLEN)
	if (ok) vreach();
#endif
	if (!ok) vreach();
#elif OP == 5
	Pin e = anyPin(0); bool empty = nondet_bool();
	bool ok = d.setSOPIN(bs(empty ? e : nw));
	vassert(ok == (so0 && !empty));
	if (ok) { isblob(d.soEncryptedKey, nw); sameKey(d); vreach(); } else { vassert(d.soEncryptedKey == soBlob); vreach(); }
	vassert(d.userEncryptedKey == usBlob && d.soLoggedIn == so0 && d.userLoggedIn == us0);
#endif
#endif
	vreach();
}
