// C11 - one inductive step of HandleManager (real HandleManager.cpp / Handle.cpp).
// Pre-state: arbitrary handle table satisfying the representation invariant INV.
// One real call with symbolic arguments (selected by -DOP=n), then:
//   * exact effect on an ARBITRARY probe handle q (present / kind / object / slot / session / privacy)
//   * a newly issued handle is > every handle ever issued (handleCounter of the pre-state)
//   * INV holds again (so the step composes to histories of any length)
#include "venv.h"
#define MUTEX_MODEL_IMPL
#include "mutex_model.h"
#define private public
#include "HandleManager.h"
#undef private

typedef std::map<CK_ULONG, Handle> HMap;
typedef std::map<CK_VOID_PTR, CK_ULONG> OMap;
enum { CAP = HMap::CAP };
static HMap::node hpool[CAP];
static OMap::node opool[CAP];
static char objpool[8];

static bool inv(HandleManager& hm)
{
	for (size_t j = 0; j < CAP; j++)
	{
		if (hm.handles.s_[j])
		{
			const Handle& h = hm.handles.s_[j]->v.second;
			CK_ULONG key = hm.handles.s_[j]->v.first;
			if (key == 0 || key > hm.handleCounter) return false;
			if (h.kind != CKH_SESSION && h.kind != CKH_OBJECT) return false;
			if (h.kind == CKH_SESSION && h.hSession != 0) return false;
			for (size_t k2 = 0; k2 < j; k2++) if (hm.handles.s_[k2] && hm.handles.s_[k2]->v.first == key) return false;
		}
		if (hm.objects.s_[j])
		{
			CK_ULONG hv = hm.objects.s_[j]->v.second; void* op = hm.objects.s_[j]->v.first;
			for (size_t k2 = 0; k2 < j; k2++) if (hm.objects.s_[k2] && hm.objects.s_[k2]->v.first == op) return false;
			bool found = false;
			for (size_t m = 0; m < CAP; m++)
				if (hm.handles.s_[m] && hm.handles.s_[m]->v.first == hv && hm.handles.s_[m]->v.second.kind == CKH_OBJECT && hm.handles.s_[m]->v.second.object == op) found = true;
			if (!found) return false;
		}
	}
	return true;
}
struct View { bool present; CK_ULONG kind, slot, hsess; void* obj; bool priv; };
static View look(HandleManager& hm, CK_ULONG q)
{
	View v; v.present = false; v.kind = 0; v.slot = 0; v.hsess = 0; v.obj = 0; v.priv = false;
	for (size_t j = 0; j < CAP; j++) if (hm.handles.s_[j] && hm.handles.s_[j]->v.first == q)
	{ const Handle& h = hm.handles.s_[j]->v.second; v.present = true; v.kind = h.kind; v.slot = h.slotID; v.hsess = h.hSession; v.obj = h.object; v.priv = h.isPrivate; }
	return v;
}
static bool same(const View& a, const View& b) { return a.present == b.present && (!a.present || (a.kind == b.kind && a.obj == b.obj && a.slot == b.slot && a.hsess == b.hsess && a.priv == b.priv)); }
static CK_ULONG omap(HandleManager& hm, void* o) { for (size_t j = 0; j < CAP; j++) if (hm.objects.s_[j] && hm.objects.s_[j]->v.first == o) return hm.objects.s_[j]->v.second; return 0; }
static CK_ULONG small() { return nondet_uchar() & 3; }

extern "C" void harness(void)
{
	static HandleManager hm;
#if OP == 100
	// base case: the freshly constructed manager satisfies INV
	vassert(inv(hm)); vassert(hm.handleCounter == 0); vreach(); return;
#endif
	for (size_t j = 0; j < CAP; j++)
	{
		if (nondet_bool())
		{
			hm.handles.s_[j] = &hpool[j];
			*(CK_ULONG*)&hpool[j].v.first = nondet_ulong();
			Handle& h = hpool[j].v.second;
			h.kind = nondet_ulong(); h.slotID = small(); h.hSession = nondet_ulong(); h.isPrivate = nondet_bool();
			h.object = &objpool[nondet_uchar() & 7];
		}
		else hm.handles.s_[j] = 0;
		if (nondet_bool())
		{
			hm.objects.s_[j] = &opool[j];
			*(CK_VOID_PTR*)&opool[j].v.first = &objpool[nondet_uchar() & 7];
			opool[j].v.second = nondet_ulong();
		}
		else hm.objects.s_[j] = 0;
	}
	hm.handleCounter = nondet_ulong();
	vassume(inv(hm));
	vassume(hm.handleCounter < 0xFFFFFFFFFFFFFFF0UL);   // 2^64 wrap-around of the counter is outside the claim
	CK_ULONG q = nondet_ulong();                        // arbitrary handle observed before and after
	View pre = look(hm, q);
	CK_ULONG cnt0 = hm.handleCounter;
	vassert(vmutex_depth(hm.handlesMutex) == 0);
#if OP == 0   // addSession
	CK_SLOT_ID sl = small(); void* sp = &objpool[nondet_uchar() & 7];
	CK_ULONG h = hm.addSession(sl, sp);
	vassert(h > cnt0);
	View post = look(hm, q);
	if (q != h) vassert(same(pre, post));
	else vassert(post.present && post.kind == CKH_SESSION && post.obj == sp && post.slot == sl);
	vassert(hm.getSession(h) == sp);
#elif OP == 1 || OP == 2   // addSessionObject / addTokenObject
	CK_SLOT_ID sl = small(); void* op = &objpool[nondet_uchar() & 7]; bool priv = nondet_bool(); CK_ULONG hs = nondet_ulong();
	CK_ULONG known = omap(hm, op); View kv = look(hm, known);
#if OP == 1
	CK_ULONG h = hm.addSessionObject(sl, hs, priv, op);
#else
	CK_ULONG h = hm.addTokenObject(sl, priv, op); hs = 0;
#endif
	View post = look(hm, q);
	if (known == 0)
	{
		vassert(h > cnt0);                                  // fresh handle, never issued before
		if (q != h) vassert(same(pre, post));
		else vassert(post.present && post.kind == CKH_OBJECT && post.obj == op && post.slot == sl && post.hsess == hs && post.priv == priv);
		vassert(omap(hm, op) == h);
		vreach();
	}
	else
	{
		vassert(same(pre, post));                           // nothing is re-labelled
		vassert(h == 0 || (h == known && kv.present && kv.kind == CKH_OBJECT && kv.obj == op && kv.slot == sl));
		vassert(h != 0 || kv.slot != sl);                   // refused only for a stale mapping of another slot
		vreach();
	}
#elif OP == 3   // sessionClosed
	CK_ULONG h = nondet_ulong();
	View ph = look(hm, h);
	bool otherSession = false;
	for (size_t j = 0; j < CAP; j++) if (hm.handles.s_[j] && hm.handles.s_[j]->v.first != h && hm.handles.s_[j]->v.second.kind == CKH_SESSION && hm.handles.s_[j]->v.second.slotID == ph.slot) otherSession = true;
	hm.sessionClosed(h);
	View post = look(hm, q);
	bool dies = false;
	if (ph.present && ph.kind == CKH_SESSION)
	{
		if (q == h) dies = true;
		else if (pre.present && pre.kind == CKH_OBJECT && pre.hsess == h) dies = true;   // its session objects
		else if (pre.present && !otherSession && pre.slot == ph.slot) dies = true;       // last session of the slot: everything of the slot
		vreach();
	}
	vassert(post.present == (pre.present && !dies));
	if (post.present) vassert(same(pre, post));
	if (dies && pre.present && pre.kind == CKH_OBJECT) vassert(hm.getObject(q) == NULL);
	if (dies && pre.present && pre.kind == CKH_SESSION) vassert(hm.getSession(q) == NULL);
#elif OP == 4   // allSessionsClosed
	CK_SLOT_ID sl = small();
	hm.allSessionsClosed(sl);
	View post = look(hm, q);
	bool dies = pre.present && pre.slot == sl;
	vassert(post.present == (pre.present && !dies));
	if (post.present) vassert(same(pre, post));
	if (dies) vreach();
#elif OP == 5   // tokenLoggedOut
	CK_SLOT_ID sl = small();
	hm.tokenLoggedOut(sl);
	View post = look(hm, q);
	bool dies = pre.present && pre.kind == CKH_OBJECT && pre.slot == sl && pre.priv;
	vassert(post.present == (pre.present && !dies));
	if (post.present) vassert(same(pre, post));
	if (dies) { vassert(hm.getObject(q) == NULL); vreach(); }
#elif OP == 6   // destroyObject
	CK_ULONG h = nondet_ulong();
	View ph = look(hm, h);
	hm.destroyObject(h);
	View post = look(hm, q);
	bool dies = pre.present && q == h && pre.kind == CKH_OBJECT;
	vassert(post.present == (pre.present && !dies));
	if (post.present) vassert(same(pre, post));
	if (dies) { vassert(hm.getObject(q) == NULL); vreach(); }
	if (ph.present && ph.kind == CKH_OBJECT) vassert(omap(hm, ph.obj) == 0 || omap(hm, ph.obj) != h);
#elif OP == 7   // lookups: a handle resolves exactly to what it denotes; they change nothing
	void* s = hm.getSession(q); void* o = hm.getObject(q);
	vassert((s != NULL) == (pre.present && pre.kind == CKH_SESSION && pre.obj != NULL));
	vassert((o != NULL) == (pre.present && pre.kind == CKH_OBJECT && pre.obj != NULL));
	if (s) { vassert(s == pre.obj); vreach(); }
	if (o) { vassert(o == pre.obj); vreach(); }
	void* op = &objpool[nondet_uchar() & 7];
	CK_ULONG oh = hm.getObjectHandle(op);
	vassert(oh == omap(hm, op));
	if (oh) { View ov = look(hm, oh); vassert(ov.present && ov.kind == CKH_OBJECT && ov.obj == op); vreach(); }
	View post = look(hm, q);
	vassert(same(pre, post));
#endif
	vassert(hm.handleCounter >= cnt0);
	vassert(inv(hm));
	vassert(vmutex_depth(hm.handlesMutex) == 0);   // lock released on every path
	vreach();
}
