// C05 / C17 - typed (de)serialisation of the object file format: real File::read*/write* (File.cpp), real ByteString
// conversions, over the model file system.  -DOP:
//  0  ByteString(unsigned long) / long_val round trip, big-endian layout, for all 2^64 values
//  1  a sequence of write calls produces EXACTLY the documented bytes (format pin, reference encoder in the harness) and the
//     read calls return the written values (round trip)
//  2  nested attribute map (CKA_WRAP_TEMPLATE style): writeAttributeMap then readAttributeMap returns the same map, for every
//     map of <= 2 entries of every kind (bool / ulong / bytes <= 4 / mechanism set <= 2)
//  3  readAttributeMap / readByteString / readMechanismTypeSet on ARBITRARY file bytes: never out of range, never an exception,
//     and a value is only returned if the bytes were all there (no read beyond the file)
#include "venv.h"
#include "caps.h"
#include "vio_model.h"
#define private public
#define protected public
#include "File.h"
#include "OSAttribute.h"
#include "ByteString.h"
#undef private
#undef protected
void softHSMLog(const int, const char*, const char*, const int, const char*, ...) {}
VRAW(File, file, )
static void be64(unsigned char* d, unsigned long v) { for (int i = 0; i < 8; i++) d[i] = (unsigned char)(v >> (56 - 8 * i)); }
static File* openModelFile(bool withContent)
{
	vio.f[0].exists = true; if (!withContent) vio.f[0].size = 0; vio_reset();
	File* f = &vraw_file; f->stream = 0; f->isReadable = true; f->isWritable = true; f->locked = false; f->valid = true;
	int fd = vio_open3("A", O_RDWR, 0600); f->stream = vio_fdopen(fd, "r+");
	return f;
}
extern "C" void harness(void)
{
	vio_bind();
#if OP == 0
	unsigned long v = nondet_ulong();
	ByteString b(v);
	vassert(b.size() == 8);
	for (int i = 0; i < 8; i++) vassert(b[i] == (unsigned char)(v >> (56 - 8 * i)));
	vassert(b.long_val() == v);
	vreach();
#elif OP == 1
	File* f = openModelFile(false);
	unsigned long u = nondet_ulong(); bool bo = nondet_bool(); size_t n = NBYTES;   // lengths are concrete per obligation (file offsets stay concrete), contents symbolic
	ByteString bs; bs.resize(n); unsigned char raw[6]; for (size_t i = 0; i < 6; i++) { raw[i] = nondet_uchar(); if (i < n) bs[i] = raw[i]; }
	std::set<CK_MECHANISM_TYPE> ms; unsigned long m0 = nondet_ulong(); bool hasM = HASMECH; if (hasM) ms.insert(m0);
	bool ok = f->writeULong(u) && f->writeBool(bo) && f->writeByteString(bs) && f->writeMechanismTypeSet(ms) && f->flush();
	vassert(ok);
	// reference encoding (documented layout: 8-byte big-endian integers, 1-byte booleans 0xFF/0x00, length-prefixed bytes, count-prefixed sets)
	unsigned char ref[FCAP]; size_t r = 0;
	be64(ref + r, u); r += 8; ref[r++] = bo ? 0xFF : 0x00; be64(ref + r, n); r += 8; for (size_t i = 0; i < 6; i++) if (i < n) ref[r++] = raw[i];
	be64(ref + r, hasM ? 1 : 0); r += 8; if (hasM) { be64(ref + r, m0); r += 8; }
	vassert(vio.f[0].size == r);
	for (size_t i = 0; i < FCAP; i++) if (i < r) vassert(vio.f[0].data[i] == ref[i]);
	vassert(f->rewind());
	unsigned long u2; bool b2; ByteString bs2; std::set<CK_MECHANISM_TYPE> ms2;
	vassert(f->readULong(u2) && u2 == u);
	vassert(f->readBool(b2) && b2 == bo);
	vassert(f->readByteString(bs2) && bs2.size() == n); for (size_t i = 0; i < 6; i++) if (i < n) vassert(bs2[i] == raw[i]);
	vassert(f->readMechanismTypeSet(ms2) && ms2.size() == (hasM ? 1u : 0u) && (!hasM || ms2.count(m0) == 1));
	unsigned long extra; vassert(!f->readULong(extra) && f->isEOF());
	vreach();
#elif OP == 2
	// shape (number of entries, kind and byte length of each) is concrete per obligation (-DK0 -DK1 -DCNT -DBL), everything else symbolic
	File* f = openModelFile(false);
	std::map<CK_ATTRIBUTE_TYPE, OSAttribute> m;
	const unsigned cnt = CNT; const unsigned char kind[2] = { K0, K1 }; const size_t bl[2] = { BL, BL };
	unsigned long ty[2]; bool bv[2]; unsigned long uv[2]; unsigned char by[2][4]; unsigned long mv[2];
	for (unsigned i = 0; i < 2; i++)
	{
		ty[i] = nondet_ulong(); bv[i] = nondet_bool(); uv[i] = nondet_ulong();
		for (int k = 0; k < 4; k++) by[i][k] = nondet_uchar(); mv[i] = nondet_ulong();
	}
	vassume(ty[0] < ty[1]);                                              // the map is written in key order
	for (unsigned i = 0; i < cnt; i++)
	{
		if (kind[i] == 0) m.insert(std::pair<CK_ATTRIBUTE_TYPE, OSAttribute>(ty[i], OSAttribute(bv[i])));
		else if (kind[i] == 1) m.insert(std::pair<CK_ATTRIBUTE_TYPE, OSAttribute>(ty[i], OSAttribute(uv[i])));
		else if (kind[i] == 2) { ByteString b; b.resize(bl[i]); for (size_t k = 0; k < bl[i]; k++) b[k] = by[i][k]; m.insert(std::pair<CK_ATTRIBUTE_TYPE, OSAttribute>(ty[i], OSAttribute(b))); }
		else { std::set<CK_MECHANISM_TYPE> s; s.insert(mv[i]); m.insert(std::pair<CK_ATTRIBUTE_TYPE, OSAttribute>(ty[i], OSAttribute(s))); }
	}
	vassert(f->writeAttributeMap(m) && f->flush());
	// format pin of the nested encoding: total length, then (type, kind code, value)* with kind codes 1 bool, 2 integer, 3 binary, 5 mechanism set
	unsigned char ref[FCAP]; size_t r = 8;
	for (unsigned i = 0; i < cnt; i++)
	{
		be64(ref + r, ty[i]); r += 8;
		if (kind[i] == 0) { be64(ref + r, 1); r += 8; ref[r++] = bv[i] ? 0xFF : 0x00; }
		else if (kind[i] == 1) { be64(ref + r, 2); r += 8; be64(ref + r, uv[i]); r += 8; }
		else if (kind[i] == 2) { be64(ref + r, 3); r += 8; be64(ref + r, bl[i]); r += 8; for (size_t k = 0; k < bl[i]; k++) ref[r++] = by[i][k]; }
		else { be64(ref + r, 5); r += 8; be64(ref + r, 1); r += 8; be64(ref + r, mv[i]); r += 8; }
	}
	be64(ref, r - 8);
	vassert(vio.f[0].size == r);
	for (size_t i = 0; i < r; i++) vassert(vio.f[0].data[i] == ref[i]);
	vassert(f->rewind());
	std::map<CK_ATTRIBUTE_TYPE, OSAttribute> rd;
	bool ok = f->readAttributeMap(rd);
	vassert(ok);                                   // what the writer produced is accepted by the reader
	vassert(rd.size() == cnt);
	for (unsigned i = 0; i < cnt; i++)
	{
		vassert(rd.count(ty[i]) == 1);
		const OSAttribute& a = rd.at(ty[i]);
		if (kind[i] == 0) vassert(a.isBooleanAttribute() && a.getBooleanValue() == bv[i]);
		else if (kind[i] == 1) vassert(a.isUnsignedLongAttribute() && a.getUnsignedLongValue() == uv[i]);
		else if (kind[i] == 2) { vassert(a.isByteStringAttribute() && a.getByteStringValue().size() == bl[i]); for (size_t k = 0; k < bl[i]; k++) vassert(a.getByteStringValue().const_byte_str()[k] == by[i][k]); }
		else vassert(a.isMechanismTypeSetAttribute() && a.getMechanismTypeSetValue().size() == 1 && a.getMechanismTypeSetValue().count(mv[i]) == 1);
	}
	unsigned long extra; vassert(!f->readULong(extra) && f->isEOF());   // and it consumed exactly what was written
	vreach();
#elif OP == 3
	for (size_t i = 0; i < FCAP; i++) vio.f[0].data[i] = nondet_uchar();
	const size_t sz = FILE_BYTES; vio.f[0].size = sz;            // file length and decoder are concrete per obligation, every byte symbolic
	File* f = openModelFile(true);
	const unsigned which = WHICH;
	// the 8-byte big-endian count / length field the file starts with (what a complete value needs is decided by it)
	unsigned long field = 0; for (int i = 0; i < 8; i++) field = (field << 8) | vio.f[0].data[i];
#if FILE_BYTES >= 8
#define DECODE_REACH() vreach()
#else
#define DECODE_REACH()          /* a file shorter than the length field can never be decoded: no witness */
#endif
	if (which == 0) { ByteString b; bool ok = f->readByteString(b); if (ok) { vassert(sz >= 8 && b.size() == field && field + 8 <= sz); DECODE_REACH(); } }
	else if (which == 1) { std::set<CK_MECHANISM_TYPE> s; bool ok = f->readMechanismTypeSet(s); if (ok) { vassert(sz >= 8 && field <= (sz - 8) / 8); vassert(s.size() <= field); DECODE_REACH(); } }   // every announced element was there
	else { std::map<CK_ATTRIBUTE_TYPE, OSAttribute> m; bool ok = f->readAttributeMap(m); if (ok) { vassert(sz >= 8 && field <= sz - 8); DECODE_REACH(); } }
	vreach();
#endif
}
