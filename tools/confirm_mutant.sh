#!/bin/bash
# confirm_mutant.sh <worktree> <mutant-dir>: re-checks a seeded change independently:
#  patch applies + builds, existing ctest suite passes with it, demo fails with it, demo passes without it.
# Writes <mutant-dir>/confirm.log and prints a one-line summary.
WT=$1; M=$2; LOG=$M/confirm.log
export OPENSSL_CONF=${OPENSSL_CONF_OVERRIDE:-$(ls $WT/OUT/openssl-legacy.cnf 2>/dev/null)}
cd $WT || exit 2
git checkout -- src 2>/dev/null
{
echo "== apply"; git apply $M/patch.diff || { echo APPLY-FAILED; exit 2; }
echo "== build"; nice cmake --build _build -j8 2>&1 | tail -3
echo "== ctest (with patch)"; nice ctest --test-dir _build -j8 --timeout 900 2>&1 | tail -12
echo "== demo (with patch)"; (cd $M && bash ./run_demo.sh $WT/_build $WT) > $M/demo_with.log 2>&1; echo "demo_with_rc=$?"
tail -5 $M/demo_with.log
echo "== revert"; git checkout -- src; nice cmake --build _build -j8 2>&1 | tail -2
echo "== demo (clean)"; (cd $M && bash ./run_demo.sh $WT/_build $WT) > $M/demo_clean.log 2>&1; echo "demo_clean_rc=$?"
tail -3 $M/demo_clean.log
} > $LOG 2>&1
echo "$M: $(grep -E 'tests passed|demo_with_rc|demo_clean_rc' $LOG | tr '\n' ' ')"
