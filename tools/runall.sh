#!/bin/bash
# runall.sh <tier> [props...]: runs the registered checks one property after the other, logs to $LOGDIR (default /tmp/logs)
TIER=${1:-quick}; shift
LOGDIR=${LOGDIR:-/tmp/logs}; mkdir -p $LOGDIR
cd "$(dirname "$0")/.."
PROPS=${@:-$(python3 -c "import json;print(' '.join(c['property_id'] for c in json.load(open('MANIFEST.json'))['checks']))")}
for p in $PROPS; do
  s=$(date +%s)
  python3 symir/run.py $p --tier $TIER > $LOGDIR/$p.$TIER.log 2>&1; rc=$?
  echo "$p $TIER rc=$rc $(( $(date +%s) - s ))s $(tail -1 $LOGDIR/$p.$TIER.log | cut -c1-200)"
done
