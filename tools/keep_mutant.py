#!/usr/bin/env python3
"""keep_mutant.py <prop> <agent-mutant-dir> <name> : copies a confirmed seeded change into /verif/seeded/<name>/"""
import sys, os, shutil, json, re
prop, src, name = sys.argv[1:4]
dst = os.path.join('/verif/seeded', name); os.makedirs(dst, exist_ok=True)
for f in os.listdir(src):
    if f.endswith(('.log',)) and f != 'confirm.log': continue
    p = os.path.join(src, f)
    if os.path.isfile(p) and os.path.getsize(p) < 400000: shutil.copy(p, dst)
leg = os.path.join(os.path.dirname(src.rstrip('/')), 'openssl-legacy.cnf')
if os.path.exists(leg): shutil.copy(leg, dst)
conf = open(os.path.join(src, 'confirm.log')).read() if os.path.exists(os.path.join(src, 'confirm.log')) else ''
readme = open(os.path.join(src, 'README.md')).read() if os.path.exists(os.path.join(src, 'README.md')) else ''
files = re.findall(r'^\+\+\+ b/(\S+)', open(os.path.join(src, 'patch.diff')).read(), re.M)
meta = dict(property=prop, name=name, files_touched=files,
            needs_to_manifest=(re.search(r'(?is)(needs?|manifest)[^\n]*\n(.{0,900})', readme).group(0)[:900] if re.search(r'(?is)(needs?|manifest)', readme) else ''),
            independent_confirmation=dict(
                what_i_ran='tools/confirm_mutant.sh <scratch worktree> <mutant dir>: git apply patch.diff; cmake --build; ctest -j8 (OPENSSL_CONF with legacy provider, as the DES tests need it on this image); run_demo.sh with the patch (expect non-zero); git checkout; rebuild; run_demo.sh on the clean tree (expect 0)',
                ctest=re.findall(r'\d+% tests passed[^\n]*', conf), demo_with_patch_rc=re.findall(r'demo_with_rc=(\d+)', conf), demo_clean_rc=re.findall(r'demo_clean_rc=(\d+)', conf)),
            detected_by=[], notes='')
json.dump(meta, open(os.path.join(dst, 'meta.json'), 'w'), indent=1)
print('kept', dst, meta['independent_confirmation']['ctest'], meta['independent_confirmation']['demo_with_patch_rc'], meta['independent_confirmation']['demo_clean_rc'])
