#!/usr/bin/env python3
"""mutant_matrix.py <worktree> <mutant>[:PROP[+PROP..]] ...  : applies each seeded change to the scratch worktree (sources only are
needed), runs the quick tier of the named properties (default: the mutant's own property) against it with VERIF_REPO, records which
obligations refute it in seeded/<mutant>/meta.json (detected_by, detection_run) and reverts the worktree."""
import sys, os, json, subprocess, re
V = os.path.dirname(os.path.dirname(os.path.abspath(__file__)))
wt = sys.argv[1]
for spec in sys.argv[2:]:
    name, _, props = spec.partition(':')
    d = os.path.join(V, 'seeded', name); meta = json.load(open(os.path.join(d, 'meta.json')))
    props = props.split('+') if props else [meta['property']]
    subprocess.run(['git', '-C', wt, 'reset', '-q', '--hard', 'HEAD'], check=True)   # (--3way stages its result: restore index AND tree)
    r = subprocess.run(['git', '-C', wt, 'apply', os.path.join(d, 'patch.diff')], capture_output=True, text=True)
    if r.returncode != 0:
        r = subprocess.run(['git', '-C', wt, 'apply', '--3way', os.path.join(d, 'patch.diff')], capture_output=True, text=True)
    if r.returncode != 0:
        print(name, 'PATCH DOES NOT APPLY', r.stderr[:200]); continue
    det = []; runs = []
    for p in props:
        env = dict(os.environ, VERIF_REPO=wt)
        o = subprocess.run([sys.executable, os.path.join(V, 'symir', 'run.py'), p, '--tier', os.environ.get('TIER', 'quick'), '--no-evidence'], capture_output=True, text=True, env=env, cwd=V)
        viol = re.findall(r'obligation (\S+):L(-?\d+)', o.stdout)
        errs = re.findall(r'^ERROR (\S+) (\S+):', o.stdout, re.M)
        det += ['%s:%s' % (p, ob) for ob, _ in viol]
        runs.append('%s rc=%d violations=%s errors=%s' % (p, o.returncode, sorted(set('%s:L%s' % v for v in viol)), errs))
    subprocess.run(['git', '-C', wt, 'reset', '-q', '--hard', 'HEAD'], check=True)
    meta['detected_by'] = sorted(set(det))
    meta['detection_run'] = 'tools/mutant_matrix.py (VERIF_REPO=<worktree with the patch>, %s tier): ' % os.environ.get('TIER', 'quick') + '; '.join(runs)
    json.dump(meta, open(os.path.join(d, 'meta.json'), 'w'), indent=1)
    print(name, 'DETECTED' if det else 'missed', '; '.join(runs), flush=True)
