#!/bin/bash
# mk_worktree.sh <dir>: scratch worktree of /repo HEAD with a configured + built _build (same options as /repo/_build)
D=$1; set -e
git -C /repo worktree add --detach "$D" HEAD >/dev/null 2>&1
cd "$D"
cmake -G Ninja -B _build -DBUILD_TESTS=ON -DCMAKE_BUILD_TYPE=RelWithDebInfo -DCMAKE_CXX_FLAGS=-Wno-error -DENABLE_ECC=ON -DENABLE_EDDSA=ON -DENABLE_GOST=OFF -DENABLE_STATIC=ON -DWITH_CRYPTO_BACKEND=openssl -DWITH_MIGRATE=OFF -DWITH_OBJECTSTORE_BACKEND_DB=OFF > _build.cfg.log 2>&1
nice cmake --build _build -j${JOBS:-6} > _build.log 2>&1
mkdir -p OUT; cp /verif/seeded/C01_m1/openssl-legacy.cnf OUT/openssl-legacy.cnf
echo "built $D"
