#!/usr/bin/env python3
"""Prints the seeded-change table of DESIGN.md section 6 from seeded/*/meta.json and patch.diff (and replaces the @@TABLE@@ marker / the previous table when --write is given)."""
import os, json, re, sys
V = os.path.dirname(os.path.dirname(os.path.abspath(__file__)))
rows = ['| change | site | caught by |', '|---|---|---|']
n = det = 0
for name in sorted(os.listdir(os.path.join(V, 'seeded'))):
    d = os.path.join(V, 'seeded', name)
    if not os.path.exists(os.path.join(d, 'meta.json')): continue
    m = json.load(open(os.path.join(d, 'meta.json')))
    patch = open(os.path.join(d, 'patch.diff')).read()
    files = [os.path.basename(f) for f in re.findall(r'^\+\+\+ b/(\S+)', patch, re.M)]
    funcs = []
    for h in re.findall(r'^@@ .* @@ (.*)$', patch, re.M):
        f = re.sub(r'\(.*', '', h).split()[-1] if h.strip() else ''
        if f and f not in funcs: funcs.append(f)
    by = sorted(set(x.split(':', 1)[1] if ':' in x else x for x in m.get('detected_by', [])))
    n += 1; det += 1 if by else 0
    rows.append('| %s | %s: %s | %s |' % (name, ', '.join(files), ', '.join(funcs[:2]) or '-', ', '.join(by[:4]) + (' …' if len(by) > 4 else '') if by else '— ' + (m.get('miss_reason') or 'missed')))
rows.append('')
rows.append('%d of %d seeded changes are refuted by a registered quick-tier check.' % (det, n))
txt = '\n'.join(rows)
if '--write' in sys.argv:
    p = os.path.join(V, 'DESIGN.md'); s = open(p).read()
    if '@@TABLE@@' in s: s = s.replace('@@TABLE@@', '<!-- table:begin -->\n' + txt + '\n<!-- table:end -->')
    else: s = re.sub(r'<!-- table:begin -->.*?<!-- table:end -->', lambda _: '<!-- table:begin -->\n' + txt + '\n<!-- table:end -->', s, flags=re.S)
    open(p, 'w').write(s)
print(txt)
