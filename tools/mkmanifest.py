#!/usr/bin/env python3
"""Regenerates /verif/MANIFEST.json from symir/obligations.py (claimed properties) and the
NOT_APPLICABLE table below."""
import json, sys, os
V = os.path.dirname(os.path.dirname(os.path.abspath(__file__)))
sys.path.insert(0, os.path.join(V, 'symir'))
import obligations
NOT_APPLICABLE = {
    'C20': 'equivalence of two storage backends and two crypto backends: the pinned build contains neither alternative (no SQLite store, no Botan) and the property is an equivalence between external binary libraries (OpenSSL/Botan, libsqlite3) that cannot be symbolically encoded; a differential test would address it, solver-based checking of the real code does not (DESIGN.md C20)',
}
HOLD = set(os.environ.get('MANIFEST_HOLD', '').split(','))   # properties whose obligations are still being built: not claimed yet
PENDING = 'check not built yet in this round (planned, see DESIGN.md section 4); not claimed until its obligations run'
def _tech(t): return t if 'bounded model checking' in t else 'bounded model checking (CBMC, SAT) of the clang-IR-to-C translation of the real sources - ' + t
props = [json.loads(l) for l in open(os.path.join(V, 'properties.jsonl'))]
checks = []; na = []
for p in props:
    pid = p['id']
    if pid in obligations.OBLIGATIONS and obligations.OBLIGATIONS[pid] and pid not in HOLD:
        m = obligations.META.get(pid, {})
        checks.append(dict(
            property_id=pid,
            quick_cmd='python3 symir/run.py %s --tier quick' % pid,
            thorough_cmd='python3 symir/run.py %s --tier thorough' % pid,
            evidence_file='/verif/evidence/%s.json' % pid,
            replay_cmd_template='python3 symir/run.py %s --replay {path}' % pid,
            engine='symir',
            level_claimed=dict(category=m.get('level', 'model_checking'),
                               text=m.get('claim', 'Bounded symbolic execution (CBMC) of the real C++ sources, translated from clang IR on every run; every harness assertion is proved for all inputs/pre-states within the stated bounds, reachability witnesses guard against vacuity, counterexamples are replayed natively against the real sources before being reported.'),
                               design_ref='DESIGN.md section 4, ' + pid),
            level_note=m.get('note', 'Trusted: clang-14 front end, ir2c translator (validated per run against a native g++ build on random streams), vstl container models, CBMC 6.11/MiniSat, harness-side specifications and environment models; bounds and what is outside them are listed in the evidence file (outside_bounds) and DESIGN.md.'),
            technique=_tech(m.get('technique', 'bounded model checking (CBMC, SAT) of clang-IR-to-C translation of the real sources; one-step inductive / entry-point harnesses with symbolic pre-state'))))
    else:
        na.append(dict(property_id=pid, reason=NOT_APPLICABLE.get(pid, PENDING)))
man = dict(version=1, setup_cmd='python3 symir/setup.py',
           hooks=dict(guard='SOFTHSMV2_VERIF', enable='no source hooks are needed: harness translation units reach private state with `#define private public` around the real headers; the guard name is reserved', baseline_off_cmd='ctest --test-dir /repo/_build -j8 --timeout 900', source_commits=[], add_only=True),
           engines=[dict(name='symir', path='/verif/symir', serves_properties=[c['property_id'] for c in checks], kind_free_text='clang-14 IR -> C translator (ir2c) + CBMC 6.11 bounded model checking of the real SoftHSMv2 sources; native g++ replay of counterexamples')],
           checks=checks, not_applicable=na,
           notes='All checks rebuild their encoding from /repo\'s current working tree on every run. exit 0 = proved within bounds; exit 1 + VIOLATION line = native-replay-confirmed counterexample not in known-findings.txt; exit 2 = no verdict (budget / machinery error), never reported as success.')
json.dump(man, open(os.path.join(V, 'MANIFEST.json'), 'w'), indent=1)
print('checks:', [c['property_id'] for c in checks], 'not_applicable:', [n['property_id'] for n in na])
