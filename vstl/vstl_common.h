// Common pieces of the verification models of the standard containers.
// These headers shadow <map>, <set>, <vector>, <list> (they come first on the include path)
// for every translation unit that is symbolically executed.  They are NOT used by the shipped
// library; they are part of the trusted base of the checks and are compared against libstdc++
// by /verif/symir/vstl_selftest.cpp on every run.
#ifndef VSTL_COMMON_H
#define VSTL_COMMON_H
#include <stddef.h>

#ifndef VSTL_CAP
#define VSTL_CAP 4          // default capacity of map / set
#endif
#ifndef VSTL_VEC_CAP
#define VSTL_VEC_CAP 8      // default capacity of vector / list
#endif

extern "C" void vstl_capacity_exceeded(void);   // harness: assume(false) - outside the stated bound
extern "C" void vstl_length_error(void);        // models std::length_error / std::bad_alloc (an exception)
extern "C" void vstl_oob(void);                 // index beyond size(): memory-safety violation of the real container
extern "C" void vstl_access(const void* container); // lock-discipline hook (C18); empty by default

#ifndef VSTL_HUGE
#define VSTL_HUGE (((size_t)1) << 31)
#endif
#ifndef VSTL_MAX_NEST
#define VSTL_MAX_NEST 2
#endif
static int vstl_copy_depth;   // current nesting depth of map copies (per translation unit; concrete)

// Per-instantiation capacities: specialise before including the code under test.
template<class K, class V> struct vstl_map_cap { enum { value = VSTL_CAP }; };
template<class K> struct vstl_set_cap { enum { value = VSTL_CAP }; };
template<class T> struct vstl_vec_cap { enum { value = VSTL_VEC_CAP }; };

#include <new>
#include <utility>
#include <initializer_list>
#include <bits/stl_function.h>
#include <bits/stl_iterator_base_types.h>

#endif
